import Goflow.Conc.Receiver
import Goflow.Generated.Sync
import Proofs.C17
/-!
  C18 — Receiver start/stop never deadlocks and stopping loses nothing accepted.
-/
namespace Goflow.C18
open Goflow Goflow.Conc.Receiver

/-- Start / Stop call sequences: the `ready`-channel protocol of the code returns an error exactly
    on Start of a started receiver and Stop of a stopped one, for every sequence of calls, and a
    stopped receiver can be started again -/
theorem start_stop_results (calls : List Call) : callResults true calls = specResults false calls := by
  have key : ∀ (rc : Bool) (calls : List Call), callResults rc calls = specResults (!rc) calls := by
    intro rc calls
    induction calls generalizing rc with
    | nil => rfl
    | cons c rest ih =>
      cases c <;> cases rc <;> simp [callResults, callStep, specResults, ih]
  simpa using key true calls

/-- the order of the shutdown calls in main(): receivers are stopped before the producer and the
    transport are closed (regenerated from cmd/goflow2/main.go) -/
theorem shutdown_order :
    Goflow.Generated.shutdownOrder =
      ["recv.Stop", "pipe.Close", "flowProducer.Close", "transporter.Close", "srv.Shutdown", "close(q)", "wg.Wait"] := by
  decide

/-- main() installs the SIGTERM / SIGINT handler BEFORE it starts the first receiver and waits for the signal after the
    last one: a signal that arrives while the collector is still starting is parked, not fatal — the datagrams taken in
    by the receivers already running are processed by the orderly shutdown (regenerated from cmd/goflow2/main.go) -/
theorem startup_order :
    Goflow.Generated.startupOrder = ["signal.Notify", "start receivers", "<-c"] := by
  decide

/-- the synchronisation skeleton of Stop / Start / init / the readers and the workers is the one the
    transition system was written for (regenerated from utils/udp.go) -/
theorem skeleton_matches :
    Goflow.Generated.skStop = ["select{<-r.q | default}", "close(r.q)", "r.dispatch <- nil", "r.wg.Wait()", "r.init()"] ∧
    Goflow.Generated.skStart = ["select{<-r.ready | default}", "r.ready = make(chan bool)"] ∧
    Goflow.Generated.skInit = ["r.q = make(chan bool)", "select{<-r.ready | default}", "close(r.ready)"] ∧
    Goflow.Generated.skDecoders = ["r.wg.Add(1)", "go", "defer r.wg.Done()", "range r.dispatch", "decodeFunc(&msg)", "packetPool.Put(pkt)"] := by
  decide +kernel

/-! ### the quit channel across call sequences

    `init()` recreates `r.q` *before* it looks at `ready` (skInit above), so also a Stop on a stopped
    receiver — which closes `q` and then fails in `init` — leaves a fresh, open `q` behind. Whatever
    the call sequence, when a call returns the quit channel is open: the readers of the next
    successful Start are not told to quit by a leftover closed channel. -/

theorem quit_open_after_every_call (calls : List Call) : (callRun2 callInit calls).1.qClosed = false := by
  have key : ∀ (s : CallSt), s.qClosed = false → ∀ calls, (callRun2 s calls).1.qClosed = false := by
    intro s hs calls
    induction calls generalizing s with
    | nil => simpa [callRun2] using hs
    | cons c rest ih =>
      simp only [callRun2]
      apply ih
      cases c
      · simp only [callStep2]; split <;> simpa using hs
      · simp only [callStep2, initStep]; split <;> rfl
  exact key callInit rfl calls

/-- the two-flag model returns the same results as the one-flag model (and hence as the specification) -/
theorem callRun2_results (calls : List Call) : (callRun2 callInit calls).2 = callResults true calls := by
  have key : ∀ (s : CallSt) calls, (callRun2 s calls).2 = callResults s.readyClosed calls := by
    intro s calls
    induction calls generalizing s with
    | nil => rfl
    | cons c rest ih =>
      cases c <;> cases hr : s.readyClosed <;> simp [callRun2, callStep2, initStep, callResults, callStep, hr, ih]
  exact key callInit calls

/-! ### Stop drains the queue -/

def sentinels (q : List QItem) : Nat := q.count .sentinel
def alive (ws : List WPc) : Nat := (ws.filter (· != .exited)).length

/-- ids in front of the first sentinel -/
def prefixIds : List QItem → List Nat
  | [] => []
  | .sentinel :: _ => []
  | .pkt _ d :: rest => d :: prefixIds rest

/-- invariant relating Stop's sentinels to the workers, and the datagrams queued before Stop to
    where they are now -/
def DrainInv (st : St) : Prop :=
  (st.qClosed = false → sentinels st.queue = 0 ∧ st.toSend = 0 ∧ st.sentinelTaken = false ∧ st.preStop = []) ∧
  (st.qClosed = true → st.toSend + sentinels st.queue = alive st.workers) ∧
  (∀ d ∈ st.preStop, d ∈ prefixIds st.queue ∨ d ∈ workerIds st.workers ∨ d ∈ st.decoded) ∧
  (st.sentinelTaken = true → ∀ d ∈ st.preStop, d ∈ workerIds st.workers ∨ d ∈ st.decoded) ∧
  ((∃ w : Nat, st.workers[w]? = some WPc.exited) → st.sentinelTaken = true)

private theorem workerIds_eq (ws : List WPc) : workerIds ws = ws.filterMap C17.widOf := rfl

def aliveBit : WPc → Nat
  | .exited => 0
  | _ => 1

private theorem alive_set (ws : List WPc) (w : Nat) (new old : WPc) (h : ws[w]? = some old) :
    alive (ws.set w new) + aliveBit old = alive ws + aliveBit new := by
  induction ws generalizing w with
  | nil => simp at h
  | cons x xs ih =>
    cases w with
    | zero =>
      simp only [List.getElem?_cons_zero, Option.some.injEq] at h
      subst h
      simp only [List.set_cons_zero, alive, List.filter_cons]
      cases x <;> cases new <;> simp [aliveBit] <;> omega
    | succ w =>
      simp only [List.getElem?_cons_succ] at h
      have := ih w h
      simp only [List.set_cons_succ, alive, List.filter_cons] at this ⊢
      cases x <;> simp <;> omega

private theorem mem_workerIds_set (ws : List WPc) (w : Nat) (new old : WPc) (h : ws[w]? = some old) (d : Nat)
    (hd : d ∈ workerIds ws) (hold : C17.widOf old ≠ some d) : d ∈ workerIds (ws.set w new) := by
  have hc := count_filterMap_set C17.widOf ws w new old h d
  rw [workerIds_eq] at hd ⊢
  have hpos : 0 < (ws.filterMap C17.widOf).count d := List.count_pos_iff.mpr hd
  have hz : (C17.widOf old).toList.count d = 0 := by
    cases ho : C17.widOf old with
    | none => simp
    | some x =>
      have : x ≠ d := fun hx => hold (by rw [ho, hx])
      simp [this]
  have hgoal : 0 < ((ws.set w new).filterMap C17.widOf).count d := by omega
  exact List.count_pos_iff.mp hgoal

private theorem mem_workerIds_set_new (ws : List WPc) (w : Nat) (b d : Nat) (old : WPc) (h : ws[w]? = some old)
    (hold : C17.widOf old = none) :
    d ∈ workerIds (ws.set w (.decoding b d)) := by
  have hc := count_filterMap_set C17.widOf ws w (.decoding b d) old h d
  rw [workerIds_eq]
  simp only [show C17.widOf (WPc.decoding b d) = some d from rfl, hold, Option.toList_some, Option.toList_none, List.count_cons_self, List.count_nil] at hc
  have hgoal : 0 < ((ws.set w (.decoding b d)).filterMap C17.widOf).count d := by omega
  exact List.count_pos_iff.mp hgoal

private theorem sentinels_append (q : List QItem) (x : QItem) :
    sentinels (q ++ [x]) = sentinels q + (if x = .sentinel then 1 else 0) := by
  simp only [sentinels, List.count_append, List.count_cons, List.count_nil]
  cases x <;> simp

private theorem prefix_mono (q : List QItem) (x : QItem) (d : Nat) (h : d ∈ prefixIds q) : d ∈ prefixIds (q ++ [x]) := by
  induction q with
  | nil => simp [prefixIds] at h
  | cons y ys ih =>
    cases y with
    | sentinel => simp [prefixIds] at h
    | pkt b d0 =>
      simp only [prefixIds, List.cons_append, List.mem_cons] at h ⊢
      rcases h with h | h
      · left; exact h
      · right; exact ih h

private theorem prefix_all (q : List QItem) (h : sentinels q = 0) : prefixIds q = queueIds q := by
  induction q with
  | nil => rfl
  | cons y ys ih =>
    cases y with
    | sentinel => simp [sentinels] at h
    | pkt b d0 =>
      have : sentinels ys = 0 := by simpa [sentinels, List.count_cons] using h
      simp [prefixIds, queueIds, List.filterMap_cons] at ih ⊢
      exact ih this

private theorem get_set_w {l : List WPc} {i j : Nat} {a b : WPc} (h : (l.set i a)[j]? = some b) :
    (i = j ∧ a = b) ∨ (i ≠ j ∧ l[j]? = some b) := by
  rw [List.getElem?_set] at h
  by_cases hij : i = j
  · subst hij
    simp only [if_true] at h
    split at h
    · left; exact ⟨rfl, by simpa using h⟩
    · simp at h
  · right
    simp only [hij, if_false] at h
    exact ⟨hij, h⟩

theorem drainInv_init (cfg : Cfg) (r w : Nat) : DrainInv (init cfg r w) := by
  refine ⟨fun _ => ⟨rfl, rfl, rfl, rfl⟩, fun h => by simp [init] at h, fun d hd => by simp [init] at hd,
    fun h => by simp [init] at h, ?_⟩
  rintro ⟨w', hw⟩
  simp only [init, List.getElem?_replicate] at hw
  split at hw <;> simp at hw

theorem drainInv_step (st st' : St) (e : Ev) (hinv : DrainInv st) (h : step st e = some st') : DrainInv st' := by
  obtain ⟨hA, hB, hC, hD, hE⟩ := hinv
  cases e with
  | read r =>
    simp only [step] at h
    split at h
    · split at h
      · cases h
      · split at h <;> (cases h; exact ⟨hA, hB, hC, hD, hE⟩)
    · cases h
  | dispatch r =>
    simp only [step] at h
    split at h
    · rename_i b d0 hr
      split at h
      · cases h
        unfold DrainInv; dsimp only
        refine ⟨fun hq => ?_, fun hq => ?_, fun d hd => ?_, hD, hE⟩
        · have := hA hq; simp only [sentinels_append]; simpa using this
        · have := hB hq; simp only [sentinels_append]; simpa using this
        · rcases hC d hd with h1 | h1
          · left; exact prefix_mono _ _ _ h1
          · right; exact h1
      · cases h
    · cases h
  | handoff r w =>
    simp only [step] at h
    split at h
    · rename_i b d0 hr hw
      split at h
      · cases h
        have hal := alive_set st.workers w (.decoding b d0) .idle hw
        simp only [aliveBit] at hal
        unfold DrainInv; dsimp only
        refine ⟨hA, fun hq => (by have := hB hq; omega), fun d hd => ?_, fun ht d hd => ?_, ?_⟩
        · rcases hC d hd with h1 | h1 | h1
          · left; exact h1
          · right; left; exact mem_workerIds_set _ _ _ _ hw d h1 (by simp [C17.widOf])
          · right; right; exact h1
        · rcases hD ht d hd with h1 | h1
          · left; exact mem_workerIds_set _ _ _ _ hw d h1 (by simp [C17.widOf])
          · right; exact h1
        · rintro ⟨w', hw'⟩
          rcases get_set_w hw' with ⟨_, he⟩ | ⟨_, hw''⟩
          · cases he
          · exact hE ⟨w', hw''⟩
      · cases h
    · cases h
  | drop r =>
    simp only [step] at h
    split at h
    · split at h
      · cases h; exact ⟨hA, hB, hC, hD, hE⟩
      · cases h
    · cases h
  | quit r =>
    simp only [step] at h
    split at h
    · cases h
    · split at h
      · cases h; exact ⟨hA, hB, hC, hD, hE⟩
      · cases h; exact ⟨hA, hB, hC, hD, hE⟩
      · cases h
  | take w =>
    simp only [step] at h
    split at h
    · rename_i b d0 rest hw hq
      cases h
      have hal := alive_set st.workers w (.decoding b d0) .idle hw
      simp only [aliveBit] at hal
      have hs : sentinels st.queue = sentinels rest := by simp [hq, sentinels, List.count_cons]
      unfold DrainInv; dsimp only
      refine ⟨fun hc => ?_, fun hc => (by have := hB hc; omega), fun d hd => ?_, fun ht d hd => ?_, ?_⟩
      · obtain ⟨a1, a2, a3, a4⟩ := hA hc; exact ⟨by omega, a2, a3, a4⟩
      · rcases hC d hd with h1 | h1 | h1
        · rw [hq] at h1
          simp only [prefixIds, List.mem_cons] at h1
          rcases h1 with rfl | h1
          · right; left; exact mem_workerIds_set_new _ _ _ _ _ hw rfl
          · left; exact h1
        · right; left; exact mem_workerIds_set _ _ _ _ hw d h1 (by simp [C17.widOf])
        · right; right; exact h1
      · rcases hD ht d hd with h1 | h1
        · left; exact mem_workerIds_set _ _ _ _ hw d h1 (by simp [C17.widOf])
        · right; exact h1
      · rintro ⟨w', hw'⟩
        rcases get_set_w hw' with ⟨_, he⟩ | ⟨_, hw''⟩
        · cases he
        · exact hE ⟨w', hw''⟩
    · rename_i rest hw hq
      cases h
      have hal := alive_set st.workers w .exited .idle hw
      simp only [aliveBit] at hal
      have hs : sentinels st.queue = sentinels rest + 1 := by simp [hq, sentinels, List.count_cons]
      have hclosed : st.qClosed = true := by
        cases hc : st.qClosed with
        | true => rfl
        | false => have := (hA hc).1; omega
      have hpre : ∀ d ∈ st.preStop, d ∈ workerIds (st.workers.set w .exited) ∨ d ∈ st.decoded := by
        intro d hd
        rcases hC d hd with h1 | h1 | h1
        · rw [hq] at h1; simp [prefixIds] at h1
        · left; exact mem_workerIds_set _ _ _ _ hw d h1 (by simp [C17.widOf])
        · right; exact h1
      unfold DrainInv; dsimp only
      refine ⟨fun hc => (by rw [hclosed] at hc; cases hc), fun _ => (by have := hB hclosed; omega),
        fun d hd => ?_, fun _ => hpre, fun _ => rfl⟩
      rcases hpre d hd with h1 | h1
      · right; left; exact h1
      · right; right; exact h1
    · cases h
  | finish w =>
    simp only [step] at h
    split at h
    · rename_i b d0 hw
      cases h
      have hal := alive_set st.workers w .idle (.decoding b d0) hw
      simp only [aliveBit] at hal
      have move : ∀ d : Nat, d ∈ workerIds st.workers → d ∈ workerIds (st.workers.set w .idle) ∨ d ∈ d0 :: st.decoded := by
        intro d hd
        by_cases hdd : d0 = d
        · right; simp [hdd]
        · left; exact mem_workerIds_set _ _ _ _ hw d hd (by simp [C17.widOf, hdd])
      unfold DrainInv; dsimp only
      refine ⟨hA, fun hc => (by have := hB hc; omega), fun d hd => ?_, fun ht d hd => ?_, ?_⟩
      · rcases hC d hd with h1 | h1 | h1
        · left; exact h1
        · rcases move d h1 with h2 | h2
          · right; left; exact h2
          · right; right; exact h2
        · right; right; simp [h1]
      · rcases hD ht d hd with h1 | h1
        · exact move d h1
        · right; simp [h1]
      · rintro ⟨w', hw'⟩
        rcases get_set_w hw' with ⟨_, he⟩ | ⟨_, hw''⟩
        · cases he
        · exact hE ⟨w', hw''⟩
    · cases h
  | stop =>
    simp only [step] at h
    split at h
    · cases h
    · rename_i hc
      cases h
      have hc' : st.qClosed = false := by simpa using hc
      obtain ⟨a1, a2, a3, a4⟩ := hA hc'
      unfold DrainInv; dsimp only
      refine ⟨fun h => (by cases h), fun _ => (by rw [a1]; rfl), fun d hd => ?_, fun ht => (by rw [a3] at ht; cases ht), hE⟩
      left
      rw [prefix_all _ a1]; exact hd
  | sendSentinel =>
    simp only [step] at h
    split at h
    · rename_i hg
      cases h
      have hclosed : st.qClosed = true := by
        cases hc : st.qClosed with
        | true => rfl
        | false => have := (hA hc).2.1; omega
      unfold DrainInv; dsimp only
      refine ⟨fun hc => (by rw [hclosed] at hc; cases hc), fun _ => ?_, fun d hd => ?_, hD, hE⟩
      · have := hB hclosed
        simp only [sentinels_append, if_true]
        omega
      · rcases hC d hd with h1 | h1
        · left; exact prefix_mono _ _ _ h1
        · right; exact h1
    · cases h
  | sentinelTo w =>
    simp only [step] at h
    split at h
    · rename_i hw
      split at h
      · rename_i hg
        cases h
        have hal := alive_set st.workers w .exited .idle hw
        simp only [aliveBit] at hal
        have hclosed : st.qClosed = true := by
          cases hc : st.qClosed with
          | true => rfl
          | false => have := (hA hc).2.1; omega
        have hqe : st.queue = [] := hg.2.2
        have hpre : ∀ d ∈ st.preStop, d ∈ workerIds (st.workers.set w .exited) ∨ d ∈ st.decoded := by
          intro d hd
          rcases hC d hd with h1 | h1 | h1
          · rw [hqe] at h1; simp [prefixIds] at h1
          · left; exact mem_workerIds_set _ _ _ _ hw d h1 (by simp [C17.widOf])
          · right; exact h1
        unfold DrainInv; dsimp only
        refine ⟨fun hc => (by rw [hclosed] at hc; cases hc), fun _ => ?_, fun d hd => ?_, fun _ => hpre, fun _ => rfl⟩
        · have := hB hclosed
          omega
        · rcases hpre d hd with h1 | h1
          · right; left; exact h1
          · right; right; exact h1
      · cases h
    · cases h

theorem drainInv_run (st : St) (sched : List Ev) (h : DrainInv st) : DrainInv (run st sched) := by
  induction sched generalizing st with
  | nil => exact h
  | cons e rest ih =>
    simp only [run]
    split
    · rename_i st' hs; exact ih st' (drainInv_step st st' e h hs)
    · exact ih st h

/-- **stop drains**: when Stop has returned (sentinels sent, every reader and worker gone), every
    datagram that was queued when Stop was called has been decoded — for any number of sockets and
    workers (at least one worker), any queue size and every schedule -/
theorem stop_drains (cfg : Cfg) (r w : Nat) (hw : 0 < w) (sched : List Ev) (d : Nat)
    (hstopped : stopped (run (init cfg r w) sched) = true)
    (hd : d ∈ (run (init cfg r w) sched).preStop) : d ∈ (run (init cfg r w) sched).decoded := by
  obtain ⟨_, _, hC, hD, hE⟩ := drainInv_run _ sched (drainInv_init cfg r w)
  generalize hst : run (init cfg r w) sched = st at *
  simp only [stopped, Bool.and_eq_true, List.all_eq_true, beq_iff_eq] at hstopped
  obtain ⟨⟨⟨_, _⟩, _⟩, hall⟩ := hstopped
  -- the number of workers never changes, so there is a worker, and it has exited
  have hlen : st.workers.length = w := by
    rw [← hst]
    have key : ∀ (s : St) (sched : List Ev), (run s sched).workers.length = s.workers.length := by
      intro s sched
      induction sched generalizing s with
      | nil => rfl
      | cons e rest ih =>
        simp only [run]
        split
        · rename_i s' hs
          rw [ih s']
          cases e <;> simp only [step] at hs <;> (repeat' split at hs) <;> (first | cases hs | skip) <;> simp
        · exact ih s
    rw [key]; simp [init]
  have h0 : st.workers[0]? = some WPc.exited := by
    have hlt : 0 < st.workers.length := by omega
    rw [List.getElem?_eq_getElem hlt]
    exact congrArg some (hall _ (List.getElem_mem hlt))
  have htaken := hE ⟨0, h0⟩
  rcases hD htaken d hd with h1 | h1
  · -- no worker is decoding any more
    exfalso
    have : workerIds st.workers = [] := by
      rw [workerIds_eq]
      apply List.filterMap_eq_nil_iff.mpr
      intro p hp
      rw [hall p hp]; rfl
    rw [this] at h1; cases h1
  · exact h1

/-- the sentinel count matches the live workers, hence no deadlock: while Stop is in progress some
    step is always enabled (given that decoder calls return, i.e. `finish` is a step) -/
theorem stop_not_stuck (cfg : Cfg) (r w : Nat) (sched : List Ev)
    (hclosed : (run (init cfg r w) sched).qClosed = true)
    (hnot : stopped (run (init cfg r w) sched) = false) :
    ∃ e, (step (run (init cfg r w) sched) e).isSome = true := by
  obtain ⟨_, hB, _, _, _⟩ := drainInv_run _ sched (drainInv_init cfg r w)
  generalize run (init cfg r w) sched = st at *
  have hB := hB hclosed
  -- a reader that has not exited can quit
  by_cases hr : ∃ (r' : Nat) (p : RPc), st.readers[r']? = some p ∧ p ≠ RPc.exited
  · obtain ⟨r', p, hp, hne⟩ := hr
    refine ⟨.quit r', ?_⟩
    simp only [step, hclosed, Bool.not_true, Bool.false_eq_true, if_false]
    cases p with
    | idle => simp [hp]
    | holding b d => simp [hp]
    | exited => exact absurd rfl hne
  · -- all readers have exited; look at the workers
    by_cases hwk : ∃ (w' : Nat) (p : WPc), st.workers[w']? = some p ∧ p ≠ WPc.exited
    · obtain ⟨w', p, hp, hne⟩ := hwk
      cases p with
      | exited => exact absurd rfl hne
      | decoding b d => exact ⟨.finish w', by simp [step, hp]⟩
      | idle =>
        cases hq : st.queue with
        | cons x rest =>
          refine ⟨.take w', ?_⟩
          cases x <;> simp [step, hp, hq]
        | nil =>
          have hal : 0 < alive st.workers := by
            have hlt : w' < st.workers.length := by
              rcases Nat.lt_or_ge w' st.workers.length with h | h
              · exact h
              · rw [List.getElem?_eq_none h] at hp; cases hp
            have hmem : WPc.idle ∈ st.workers := by
              rw [List.getElem?_eq_getElem hlt] at hp
              have := List.getElem_mem hlt
              simp only [Option.some.injEq] at hp
              rw [hp] at this; exact this
            exact List.length_pos_of_mem (List.mem_filter.mpr ⟨hmem, by decide⟩)
          have hsend : 0 < st.toSend := by
            simp only [hq, sentinels, List.count_nil] at hB; omega
          by_cases hcap : st.cfg.qcap = 0
          · exact ⟨.sentinelTo w', by simp [step, hp, hsend, hcap, hq]⟩
          · exact ⟨.sendSentinel, by simp [step, hsend, hq]; omega⟩
    · -- everybody has exited: then Stop has nothing left to send, i.e. it has returned
      exfalso
      have hallr : st.readers.all (· == RPc.exited) = true := by
        simp only [List.all_eq_true, beq_iff_eq]
        intro p hp
        obtain ⟨i, hi, rfl⟩ := List.getElem_of_mem hp
        by_cases he : st.readers[i] = RPc.exited
        · exact he
        · exact absurd ⟨i, st.readers[i], by simp [hi], he⟩ hr
      have hallw : st.workers.all (· == WPc.exited) = true := by
        simp only [List.all_eq_true, beq_iff_eq]
        intro p hp
        obtain ⟨i, hi, rfl⟩ := List.getElem_of_mem hp
        by_cases he : st.workers[i] = WPc.exited
        · exact he
        · exact absurd ⟨i, st.workers[i], by simp [hi], he⟩ hwk
      have hal0 : alive st.workers = 0 := by
        simp only [alive, List.length_eq_zero_iff, List.filter_eq_nil_iff]
        intro p hp
        simp only [List.all_eq_true, beq_iff_eq] at hallw
        simp [hallw p hp]
      have : st.toSend = 0 := by omega
      simp [stopped, hclosed, this, hallr, hallw] at hnot

/-- non-vacuity: a run with a queued datagram, Stop, and everybody exiting -/
example :
    let st := run (init ⟨true, 4⟩ 1 1) [.read 0, .dispatch 0, .read 0, .stop, .quit 0, .sendSentinel, .take 0, .finish 0, .take 0]
    stopped st = true ∧ st.preStop = [0] ∧ st.decoded = [0] ∧ st.lostAtStop = [1] := by decide

end Goflow.C18
