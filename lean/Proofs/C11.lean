import Goflow.Pipe
