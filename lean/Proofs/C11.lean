import Goflow.Pipe
import Goflow.Generated.Pool
import Proofs.Lemmas.Assoc
/-!
  C11 — Sampling rate follows the exporter's latest announcement.
-/
namespace Goflow.C11
open Goflow Goflow.Producer Goflow.Netflow

/-- the sampling system of one exporter IP is a map keyed by (version, domain): default 0, update on add -/
theorem rates_refine (r : Rates) (k k' : Nat × Nat) (v : Nat) :
    (r.add k v).get k' = if k' = k then v else r.get k' := by
  unfold Rates.add Rates.get
  rw [lookup_cons_filter]
  by_cases h : k' = k
  · subst h; simp
  · have h2 : (k' == k) = false := by simpa using h
    simp [h, h2]

theorem rate_zero_before_any (k : Nat × Nat) : Rates.get [] k = 0 := rfl

/-- the messages of a datagram all carry one rate: the one announced in the same message if any,
    otherwise the stored one; and the stored one is updated exactly when one was announced -/
theorem rate_of_message (cfg : Option Config) (p : Packet) (rates : Rates)
    (h : (processNetflow cfg p rates).err = none) :
    ∃ found, searchSamplingRate (optionRecordsOf p.flowSets) = .ok found ∧
      (∀ m ∈ (processNetflow cfg p rates).msgs,
          m.samplingRate = match found with | some x => x | none => rates.get (p.version, p.domain)) ∧
      (processNetflow cfg p rates).rates =
          match found with | some x => rates.add (p.version, p.domain) x | none => rates := by
  unfold processNetflow at h ⊢
  split at h
  · simp at h
  · rename_i msgs hm
    split at h
    · simp at h
    · rename_i found hf
      refine ⟨found, hf, ?_, ?_⟩
      · intro m hmem
        simp only [List.mem_map] at hmem
        obtain ⟨m0, _, rfl⟩ := hmem
        cases found <;> rfl
      · cases found <;> rfl

/-- isolation: an announcement for (version, domain) never changes the rate stored for another key -/
theorem rate_isolation (r : Rates) (k k' : Nat × Nat) (v : Nat) (h : k' ≠ k) :
    (r.add k v).get k' = r.get k' := by
  rw [rates_refine]; simp [h]

/-- search order inside one options record: 305, then 50, then 34; an enterprise-specific element
    with one of those ids is not an announcement -/
theorem search_order (fs : List DataField) (rs : List OptionsDataRecord) (v : Bytes) (x : Nat)
    (h305 : fs.find? (fun f => !f.penProvided && f.type == 305) = some ⟨false, 305, 0, some v⟩)
    (hl : v.length ≤ 8) (hv : decodeUNumber 32 v = .ok x) :
    searchSamplingRate (⟨[], fs⟩ :: rs) = .ok (some x) := by
  have : ¬ v.length > 8 := by omega
  simp [searchSamplingRate, populate, h305, hv, this]

/-- v5: the rate is the low 14 bits of the header's sampling interval -/
theorem v5_rate (p : V5.Packet) : ∀ m ∈ processLegacy p, m.samplingRate = p.header.samplingInterval % 16384 := by
  intro m hm
  simp only [processLegacy, List.mem_map] at hm
  obtain ⟨_, ⟨_, _, rfl⟩, rfl⟩ := hm
  rfl

/-- non-vacuity of `search_order` -/
example : searchSamplingRate [⟨[], [⟨false, 34, 0, some [0,0,0,7]⟩, ⟨false, 305, 0, some [0,0,1,0]⟩]⟩] = .ok (some 256) := by decide

/-- the key of the sampling-rate store in the source now is the pair (version, 32-bit domain) `Rates` is keyed by — regenerated -/
theorem samplingKey_source :
    Goflow.Generated.samplingKeyType = "struct { version uint16 obsDomainId uint32 }" := by
  decide +kernel

end Goflow.C11
