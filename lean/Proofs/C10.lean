import Goflow.Spec.Frame
