import Goflow.Spec.Frame
import Goflow.Producer.Packet
import Goflow.Generated.Parsers
/-!
  C10 — Sampled packet headers are dissected correctly at any capture length.
-/
namespace Goflow.C10
open Goflow Goflow.Producer

/-- the Go variable holding each parser's ParserInfo literal -/
def goVar : Parser → String
  | .none => "parserNone" | .ethernet => "parserEthernet" | .dot1q => "parser8021Q" | .mpls => "parserMPLS"
  | .ipv4 => "parserIPv4" | .ipv6 => "parserIPv6" | .ipv6route => "parserIPv6HeaderRouting"
  | .ipv6frag => "parserIPv6HeaderFragment" | .tcp => "parserTCP" | .udp => "parserUDP" | .icmp => "parserICMP"
  | .icmpv6 => "parserICMPv6" | .gre => "parserGRE" | .teredo => "parserTeredoDst" | .geneve => "parserGeneve"

/-- The parser table of the model is the one of producer_packet.go (regenerated on every run):
    names, configuration keys, layer indices, parser indices and EncapSkip flags; the ethertype and
    IP-protocol dispatch; the order of the bookkeeping statements of the ParsePacket loop. -/
theorem parser_table_matches :
    (Parser.none :: allParsers).map (fun p => (goVar p, p.name, p.keys, p.layerIndex, p.parserIndex, p.encapSkip)) =
      Goflow.Generated.parserInfos.filter (fun e => e.1 != "parserPayload") ∧
    Goflow.Generated.etypeDispatch.all (fun e =>
      (if e.2 = "none" then "parserNone" else e.2) == goVar (nextParserEtype (e.1 / 256) (e.1 % 256)).parser) = true ∧
    Goflow.Generated.protoDispatch.all (fun e =>
      (if e.2 = "none" then "parserNone" else e.2) == goVar (nextParserProto e.1).parser) = true ∧
    Goflow.Generated.parsePacketLoopCond = "nextParser.Parser != nil && len(data) >= offset" ∧
    Goflow.Generated.parsePacketLoopBody =
      ["parseConfig.Calls = calls[nextParser.ParserIndex]",
       "parseConfig.LayerCall = callsLayer[nextParser.LayerIndex]",
       "layersBefore := len(flowMessage.GetFlowMessage().LayerStack)",
       "res, err := nextParser.Parser(flowMessage.GetFlowMessage(), data[offset:], parseConfig)",
       "parseConfig.Layer += 1",
       "if err != nil { return err }",
       "recognised := len(flowMessage.GetFlowMessage().LayerStack) > layersBefore",
       "for-range: custom mapping over nextParser.ConfigKeyList if config != nil && recognised",
       "fm := flowMessage.GetFlowMessage()",
       "if recognised { fm.LayerSize = append(fm.LayerSize, uint32(res.Size)) }",
       "if !nextParser.EncapSkip { encapIndex = nextParser.LayerIndex }",
       "if res.NextParser.LayerIndex < encapIndex || (!res.NextParser.EncapSkip && res.NextParser.LayerIndex == encapIndex) { parseConfig.Encapsulated = true }",
       "calls[nextParser.ParserIndex] += 1",
       "callsLayer[nextParser.LayerIndex] += 1",
       "nextParser = res.NextParser",
       "offset += res.Size"] := by
  decide +kernel

/-- every constant index or slice bound a parser applies to `data` lies below its own length guard
    (regenerated from the source: removing or weakening a guard breaks this) -/
theorem guards_cover_indices :
    Goflow.Generated.parserGuards.all (fun e => e.2.2 ≤ e.2.1) = true ∧
    Goflow.Generated.parserGuards.map (fun e => (e.1, e.2.1)) =
      [("ParseEthernet", 14), ("Parse8021Q", 4), ("ParseMPLS", 4), ("ParseIPv4", 20), ("ParseIPv6", 40),
       ("ParseIPv6HeaderFragment", 8), ("ParseIPv6HeaderRouting", 8), ("ParseTCP", 20), ("ParseUDP", 8),
       ("ParseGRE", 4), ("ParseTeredoDst", 0), ("ParseGeneve", 8), ("ParseICMP", 2), ("ParseICMPv6", 2)] := by
  decide +kernel

/-- the columns of the message other than the layer stack (which every parser extends) -/
def sameBase (a b : FlowMsg) : Prop := { a with layerStack := [] } = { b with layerStack := [] }

/-- Once `Encapsulated` is set, no parser except the ICMP ones touches any column: fields of tunnelled
    inner headers (GRE, IP-in-IP, a second Ethernet) never overwrite those of the outer headers. -/
theorem encap_preserves_outer (p : Parser) (m : FlowMsg) (d : Bytes) (pc : PC)
    (henc : pc.encapsulated = true) (hp : p ≠ .icmp ∧ p ≠ .icmpv6) :
    sameBase (runParser p m d pc).msg m := by
  obtain ⟨h1, h2⟩ := hp
  cases p <;> simp only [runParser, sameBase] <;> try contradiction
  all_goals (first
    | (simp only [tooShort])
    | (unfold parseEthernet; split <;> simp [tooShort, addLayer, henc])
    | (unfold parse8021Q; split <;> simp [tooShort, addLayer, henc])
    | (unfold parseMPLS; split <;> simp [tooShort, addLayer, henc] <;> split <;> simp)
    | (unfold parseIPv4; split <;> simp [tooShort, addLayer, henc])
    | (unfold parseIPv6; split <;> simp [tooShort, addLayer, henc])
    | (unfold parseIPv6HeaderRouting; split <;> simp [tooShort, addLayer, henc])
    | (unfold parseIPv6HeaderFragment; split <;> simp [tooShort, addLayer, henc])
    | (unfold parseTCP; split <;> simp [tooShort, addLayer, henc])
    | (unfold parseUDP; split <;> simp [tooShort, addLayer, henc])
    | (unfold parseGRE; split <;> simp [tooShort, addLayer])
    | (unfold parseTeredoDst; simp [addLayer])
    | (unfold parseGeneve; split <;> simp [tooShort, addLayer]))

/-- ICMP parsers end the chain: no parser runs after them, so an ICMP header can only be the last
    layer and a second one cannot follow -/
theorem icmp_terminal (m : FlowMsg) (d : Bytes) (pc : PC) :
    (parseICMP m d pc).next.callable = false ∧ (parseICMPv6 m d pc).next.callable = false := by
  constructor
  · unfold parseICMP; split <;> simp [tooShort, Next.none, Next.callable]
  · unfold parseICMPv6; split <;> simp [tooShort, Next.none, Next.callable]

/-- ICMP type / code come from the first ICMP layer only -/
theorem icmp_first_only (m : FlowMsg) (d : Bytes) (pc : PC) (h : pc.calls ≠ 0) :
    (parseICMP m d pc).msg.icmpType = m.icmpType ∧ (parseICMP m d pc).msg.icmpCode = m.icmpCode := by
  unfold parseICMP; split <;> simp [tooShort, addLayer, h]

/-- the encapsulation flag each layer of a chain of parsers is parsed with (the chain starts at Ethernet,
    as ParsePacket does) -/
def chainFlags : Nat → Bool → List Parser → List Bool
  | _, _, [] => []
  | _, e, [_] => [e]
  | idx, e, cur :: nxt :: rest =>
    let idx' := encapIdx idx cur.encapSkip cur.layerIndex
    e :: chainFlags idx' (e || encapTrig idx' nxt.encapSkip nxt.layerIndex) (nxt :: rest)

def flagsOf (chain : List Parser) : List Bool := chainFlags Parser.ethernet.layerIndex false chain

/-- which layers are encapsulated, on the chains the frame grammar produces and a few beyond it: plain stacks
    never are (also with both IPv6 extension headers in either order); everything behind GRE is, including an
    MPLS stack between GRE and the inner IP header (the defect repaired by the `fix:` commit — the pinned
    rule compared the inner IP header with the MPLS layer and left it un-encapsulated); the inner header of
    IP-in-IP is, also behind a fragment header; Geneve / a second Ethernet header are -/
theorem encap_rule :
    flagsOf [.ethernet, .dot1q, .dot1q, .mpls, .ipv4, .tcp] = [false, false, false, false, false, false] ∧
    flagsOf [.ethernet, .ipv6, .ipv6frag, .ipv6route, .tcp] = [false, false, false, false, false] ∧
    flagsOf [.ethernet, .ipv6, .ipv6route, .ipv6frag, .udp] = [false, false, false, false, false] ∧
    flagsOf [.ethernet, .ipv4, .gre, .ipv4, .tcp] = [false, false, false, true, true] ∧
    flagsOf [.ethernet, .ipv4, .gre, .mpls, .ipv4, .tcp] = [false, false, false, true, true, true] ∧
    flagsOf [.ethernet, .mpls, .ipv6, .gre, .mpls, .ipv4, .udp] = [false, false, false, false, true, true, true] ∧
    flagsOf [.ethernet, .ipv4, .gre, .ethernet, .dot1q, .ipv6, .icmpv6] = [false, false, false, true, true, true, true] ∧
    flagsOf [.ethernet, .ipv4, .ipv6, .tcp] = [false, false, true, true] ∧
    flagsOf [.ethernet, .ipv6, .ipv6frag, .ipv4, .tcp] = [false, false, false, true, true] ∧
    flagsOf [.ethernet, .ipv6, .ipv6route, .ipv6, .tcp] = [false, false, false, true, true] ∧
    flagsOf [.ethernet, .ipv4, .udp, .geneve, .ethernet, .ipv4] = [false, false, false, true, true, true] := by
  decide

/-- the flag is monotone along a chain: once a layer is encapsulated, all later ones are -/
theorem encap_monotone (idx : Nat) (chain : List Parser) : ∀ b ∈ chainFlags idx true chain, b = true := by
  induction chain generalizing idx with
  | nil => intro b hb; cases hb
  | cons cur rest ih =>
    cases rest with
    | nil => intro b hb; simpa [chainFlags] using hb
    | cons nxt rest' =>
      intro b hb
      simp only [chainFlags, Bool.true_or, List.mem_cons] at hb
      rcases hb with h | h
      · exact h
      · exact ih _ b h

/-- layer sizes of the fixed-size headers; TCP reports its data offset -/
theorem layer_sizes (m : FlowMsg) (d : Bytes) (pc : PC) :
    (14 ≤ d.length → (parseEthernet m d pc).size = 14) ∧ (4 ≤ d.length → (parse8021Q m d pc).size = 4) ∧
    (20 ≤ d.length → (parseIPv4 m d pc).size = 20) ∧ (40 ≤ d.length → (parseIPv6 m d pc).size = 40) ∧
    (8 ≤ d.length → (parseUDP m d pc).size = 8) ∧ (8 ≤ d.length → (parseIPv6HeaderFragment m d pc).size = 8) ∧
    (20 ≤ d.length → (parseTCP m d pc).size = max 20 (4 * ((d.getD 12 0).toNat / 16))) := by
  refine ⟨?_, ?_, ?_, ?_, ?_, ?_, ?_⟩ <;> intro h
  · unfold parseEthernet; simp [Nat.not_lt.mpr h]
  · unfold parse8021Q; simp [Nat.not_lt.mpr h]
  · unfold parseIPv4; simp [Nat.not_lt.mpr h]
  · unfold parseIPv6; simp [Nat.not_lt.mpr h]
  · unfold parseUDP; simp [Nat.not_lt.mpr h]
  · unfold parseIPv6HeaderFragment; simp [Nat.not_lt.mpr h]
  · unfold parseTCP; simp [Nat.not_lt.mpr h, u8, Nat.mul_comm]

end Goflow.C10
