import Goflow.Conc.Receiver
import Proofs.C17
/-!
  C17, data path — `Blocking` is honoured for EVERY queue capacity.

  `Goflow.Conc.Receiver.step` guards the `drop` event with `!cfg.blocking ∧ qcap ≤ queue.length`
  (utils/udp.go 180–205: the `default:` branch exists only in the `else` of `if r.blocking`); the
  capacity of the dispatch channel appears in the guards of `dispatch` / `handoff` only. The model
  therefore does NOT tie "blocking" to capacity 0, and `C17.blocking_no_drop` is already stated for
  all `cfg.qcap`. This file makes that explicit (the seeded change C17-10 honoured `Blocking` only
  without a queue).
-/
namespace Goflow.C17Faults
open Goflow Goflow.Conc.Receiver

/-- the configuration never changes along a run -/
theorem cfg_run (st : St) (sched : List Ev) : (run st sched).cfg = st.cfg := by
  induction sched generalizing st with
  | nil => rfl
  | cons e rest ih =>
    simp only [run]
    split
    · rename_i st' hs
      rw [ih st']
      cases e <;> simp only [step] at hs <;> (repeat' split at hs) <;> (first | cases hs | skip) <;> rfl
    · exact ih st

/-- in blocking mode the `drop` step is disabled in EVERY state, whatever the capacity and the
    filling of the queue -/
theorem drop_disabled_when_blocking (st : St) (hb : st.cfg.blocking = true) (r : Nat) :
    step st (.drop r) = none := by
  simp only [step]
  split
  · simp [hb]
  · rfl

/-- **blocking with a queue never drops**: blocking mode together with a queue of any capacity
    `> 0` — any number of sockets and workers, every schedule, in particular those in which the
    queue is full while datagrams keep arriving — drops nothing -/
theorem blocking_with_queue_never_drops (cfg : Cfg) (r w : Nat) (sched : List Ev)
    (hb : cfg.blocking = true) (_hcap : 0 < cfg.qcap) :
    (run (init cfg r w) sched).dropped = [] :=
  C17.blocking_no_drop cfg r w sched hb

/-- … and at every point of every run the drop step is disabled -/
theorem blocking_with_queue_drop_disabled (cfg : Cfg) (r w : Nat) (sched : List Ev)
    (hb : cfg.blocking = true) (_hcap : 0 < cfg.qcap) (r' : Nat) :
    step (run (init cfg r w) sched) (.drop r') = none := by
  apply drop_disabled_when_blocking
  rw [cfg_run]; exact hb

/-- a blocking reader in front of a FULL queue keeps its datagram in hand: it can neither put it
    into the queue nor drop it; (it can only leave through the quit channel once Stop was called) -/
theorem blocking_full_queue_waits (st : St) (hb : st.cfg.blocking = true) (hcap : 0 < st.cfg.qcap)
    (hfull : st.cfg.qcap ≤ st.queue.length) (r : Nat) :
    step st (.drop r) = none ∧ step st (.dispatch r) = none ∧ ∀ w, step st (.handoff r w) = none := by
  refine ⟨drop_disabled_when_blocking st hb r, ?_, ?_⟩
  · simp only [step]
    split
    · rw [if_neg (by omega)]
    · rfl
  · intro w
    simp only [step]
    split
    · rw [if_neg (by omega)]
    · rfl

/-- every datagram read in blocking mode is in a reader's hand, in the queue, in a decoder call,
    decoded, or was in hand when Stop closed the quit channel — exactly one of these, never dropped -/
theorem blocking_accounting (cfg : Cfg) (r w : Nat) (sched : List Ev) (hb : cfg.blocking = true) (d : Nat) :
    let st := run (init cfg r w) sched
    (readerIds st.readers ++ queueIds st.queue ++ workerIds st.workers ++ st.decoded ++ st.lostAtStop).count d =
      st.readIds.count d := by
  intro st
  have h := (C17.conservation cfg r w sched d).1
  have hd := C17.blocking_no_drop cfg r w sched hb
  simp only [places, List.count_append] at h
  simp only [st, List.count_append]
  rw [hd] at h
  simp only [List.count_nil, Nat.add_zero] at h
  exact h

/-- non-vacuity (blocking, capacity 1): the queue is full while the reader holds a second datagram;
    the scheduled `drop` and `dispatch` are not enabled; after a worker took the first datagram the
    second goes into the queue; both are decoded, nothing is dropped -/
example :
    let st := run (init ⟨true, 1⟩ 1 1)
      [.read 0, .dispatch 0, .read 0, .drop 0, .dispatch 0, .take 0, .dispatch 0, .finish 0, .take 0, .finish 0]
    st.decoded = [1, 0] ∧ st.dropped = [] ∧ st.readIds = [1, 0] := by decide

/-- the same schedule WITHOUT blocking drops the second datagram: the guard, not the capacity, decides -/
example :
    let st := run (init ⟨false, 1⟩ 1 1)
      [.read 0, .dispatch 0, .read 0, .drop 0, .dispatch 0, .take 0, .dispatch 0, .finish 0, .take 0, .finish 0]
    st.decoded = [0] ∧ st.dropped = [1] := by decide

/-- the hypotheses of `blocking_full_queue_waits` are satisfiable in a reachable state -/
example :
    let st := run (init ⟨true, 1⟩ 1 1) [.read 0, .dispatch 0, .read 0]
    st.cfg.blocking = true ∧ 0 < st.cfg.qcap ∧ st.cfg.qcap ≤ st.queue.length ∧ st.readers = [.holding 1 1] := by decide

end Goflow.C17Faults
