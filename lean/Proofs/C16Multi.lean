import Goflow.Conc.GetOrCreateMulti
/-!
  C16 over the whole exporter map — first contact with an exporter is atomic also when workers on
  DIFFERENT new exporters race.

  * `nothing_lost_multi`   — locked protocol (re-check under the write lock, insert into the current
                             map): for every list of keys (any number of threads, any mix of equal and
                             different keys) and every schedule, at every point every finished thread's
                             announcement is visible under its key;
  * `published_stable`     — a key never loses or changes its published system once set;
  * `single_system_per_key`— all finished threads of one key worked on one system;
  * `Findings.cow_stale_loses` — the copy-on-write variant that publishes a snapshot taken at the
                             lookup loses a finished thread's registration with two different keys;
  * `Findings.cow_stale_equal_keys` — … while with all keys equal it never does (every schedule, every
                             number of threads), which is why the one-key model could not see it.
-/
namespace Goflow.C16Multi
open Goflow.Conc.GetOrCreateMulti

/-- inductive invariant (the one of Proofs/C16.lean, per key) -/
def Inv (st : St) : Prop :=
  (∀ (i s : Nat) (k : Key), st.threads[i]? = some (Pc.holding s) → st.keys[i]? = some k →
      st.map.lookup k = some s) ∧
  (∀ (i s : Nat) (k : Key), st.threads[i]? = some (Pc.finished s) → st.keys[i]? = some k →
      st.map.lookup k = some s ∧ (s, i) ∈ st.items)

theorem inv_init (keys : List Key) : Inv (init keys) := by
  constructor
  · intro i s k h _
    simp only [init, List.getElem?_replicate] at h
    split at h <;> simp at h
  · intro i s k h _
    simp only [init, List.getElem?_replicate] at h
    split at h <;> simp at h

private theorem get_set {l : List Pc} {i j : Nat} {a b : Pc} (h : (l.set i a)[j]? = some b) :
    (i = j ∧ a = b) ∨ (i ≠ j ∧ l[j]? = some b) := by
  rw [List.getElem?_set] at h
  by_cases hij : i = j
  · subst hij
    simp only [if_true] at h
    split at h
    · left; exact ⟨rfl, by simpa using h⟩
    · simp at h
  · right
    simp only [hij, if_false] at h
    exact ⟨hij, h⟩

/-- inserting at the end keeps every entry that was there -/
theorem lookup_append_of_some (m m' : Map) (k : Key) (s : Nat) (h : m.lookup k = some s) :
    (m ++ m').lookup k = some s := by
  rw [List.lookup_append, h]; rfl

/-- inserting an absent key at the end makes it visible -/
theorem lookup_append_self (m : Map) (k : Key) (s : Nat) (h : m.lookup k = none) :
    (m ++ [(k, s)]).lookup k = some s := by
  rw [List.lookup_append, h]; simp [List.lookup]

/-- a step never changes which exporter a thread works for -/
theorem step_keys (v : Variant) (st st' : St) (i : Nat) (h : step v st i = some st') : st'.keys = st.keys := by
  unfold step at h
  split at h
  · split at h
    · split at h <;> cases h <;> rfl
    · cases h; rfl
    · split at h <;> cases h <;> rfl
    · cases h; rfl
    · cases h
  · cases h

/-- every step of the locked protocol keeps the invariant, and keeps every published entry -/
theorem inv_step (st st' : St) (i : Nat) (hinv : Inv st) (h : step .locked st i = some st') :
    Inv st' ∧ (∀ k s, st.map.lookup k = some s → st'.map.lookup k = some s) := by
  obtain ⟨h1, h2⟩ := hinv
  unfold step at h
  split at h
  · rename_i pc k hth hk
    split at h
    · -- start: lookup under the read lock
      split at h
      · rename_i s hm
        cases h
        refine ⟨⟨?_, ?_⟩, fun _ _ h => h⟩
        · intro j t kj hj hkj
          rcases get_set hj with ⟨hij, he⟩ | ⟨_, hj'⟩
          · cases he; subst hij
            rw [hk] at hkj; cases hkj; exact hm
          · exact h1 j t kj hj' hkj
        · intro j t kj hj hkj
          rcases get_set hj with ⟨_, he⟩ | ⟨_, hj'⟩
          · cases he
          · exact h2 j t kj hj' hkj
      · cases h
        refine ⟨⟨?_, ?_⟩, fun _ _ h => h⟩
        · intro j t kj hj hkj
          rcases get_set hj with ⟨_, he⟩ | ⟨_, hj'⟩
          · cases he
          · exact h1 j t kj hj' hkj
        · intro j t kj hj hkj
          rcases get_set hj with ⟨_, he⟩ | ⟨_, hj'⟩
          · cases he
          · exact h2 j t kj hj' hkj
    · -- needCreate: the factory
      cases h
      refine ⟨⟨?_, ?_⟩, fun _ _ h => h⟩
      · intro j t kj hj hkj
        rcases get_set hj with ⟨_, he⟩ | ⟨_, hj'⟩
        · cases he
        · exact h1 j t kj hj' hkj
      · intro j t kj hj hkj
        rcases get_set hj with ⟨_, he⟩ | ⟨_, hj'⟩
        · cases he
        · exact h2 j t kj hj' hkj
    · -- created: publish (re-check under the write lock)
      rename_i snap mine
      split at h
      · rename_i s hm
        cases h
        refine ⟨⟨?_, ?_⟩, fun _ _ h => h⟩
        · intro j t kj hj hkj
          rcases get_set hj with ⟨hij, he⟩ | ⟨_, hj'⟩
          · cases he; subst hij
            rw [hk] at hkj; cases hkj; exact hm
          · exact h1 j t kj hj' hkj
        · intro j t kj hj hkj
          rcases get_set hj with ⟨_, he⟩ | ⟨_, hj'⟩
          · cases he
          · exact h2 j t kj hj' hkj
      · rename_i hm
        cases h
        have hmono : ∀ k' s, st.map.lookup k' = some s →
            (publishMap .locked st.map snap k mine).lookup k' = some s :=
          fun k' s hs => lookup_append_of_some _ _ _ _ hs
        refine ⟨⟨?_, ?_⟩, hmono⟩
        · intro j t kj hj hkj
          rcases get_set hj with ⟨hij, he⟩ | ⟨_, hj'⟩
          · cases he; subst hij
            rw [hk] at hkj; cases hkj
            exact lookup_append_self _ _ _ hm
          · exact hmono _ _ (h1 j t kj hj' hkj)
        · intro j t kj hj hkj
          rcases get_set hj with ⟨_, he⟩ | ⟨_, hj'⟩
          · cases he
          · exact ⟨hmono _ _ (h2 j t kj hj' hkj).1, (h2 j t kj hj' hkj).2⟩
    · -- holding: use
      rename_i s
      cases h
      have hm := h1 i s k hth hk
      refine ⟨⟨?_, ?_⟩, fun _ _ h => h⟩
      · intro j t kj hj hkj
        rcases get_set hj with ⟨_, he⟩ | ⟨_, hj'⟩
        · cases he
        · exact h1 j t kj hj' hkj
      · intro j t kj hj hkj
        rcases get_set hj with ⟨hij, he⟩ | ⟨_, hj'⟩
        · cases he; subst hij
          rw [hk] at hkj; cases hkj
          exact ⟨hm, by simp⟩
        · obtain ⟨a, b⟩ := h2 j t kj hj' hkj
          exact ⟨a, by simp [b]⟩
    · cases h
  · cases h

/-- the invariant holds after any schedule, for any list of keys -/
theorem inv_run (st : St) (sched : List Nat) (hinv : Inv st) : Inv (run .locked st sched) := by
  induction sched generalizing st with
  | nil => exact hinv
  | cons i rest ih =>
    simp only [run]
    split
    · rename_i st' hs
      exact ih st' (inv_step st st' i hinv hs).1
    · exact ih st hinv

/-- the keys of the threads never change -/
theorem run_keys (v : Variant) (st : St) (sched : List Nat) : (run v st sched).keys = st.keys := by
  induction sched generalizing st with
  | nil => rfl
  | cons i rest ih =>
    simp only [run]
    split
    · rename_i st' hs
      rw [ih st', step_keys v st st' i hs]
    · exact ih st

/-- **monotone map**: once a system is published for an exporter it stays that exporter's system,
    whatever the other exporters' workers do — no key is ever lost or re-bound -/
theorem published_stable (st : St) (sched : List Nat) (hinv : Inv st) (k : Key) (s : Nat)
    (h : st.map.lookup k = some s) : (run .locked st sched).map.lookup k = some s := by
  induction sched generalizing st with
  | nil => exact h
  | cons i rest ih =>
    simp only [run]
    split
    · rename_i st' hs
      have := inv_step st st' i hinv hs
      exact ih st' this.1 (this.2 k s h)
    · exact ih st hinv h

/-- the same between any two points of one execution: split the schedule anywhere -/
theorem published_stable_from_init (keys : List Key) (s₁ s₂ : List Nat) (k : Key) (s : Nat)
    (h : (run .locked (init keys) s₁).map.lookup k = some s) :
    (run .locked (run .locked (init keys) s₁) s₂).map.lookup k = some s :=
  published_stable _ s₂ (inv_run _ s₁ (inv_init keys)) k s h

/-- all threads of one exporter that returned worked on the one published system -/
theorem single_system_per_key (keys : List Key) (sched : List Nat) (i j s t : Nat) (k : Key)
    (hki : keys[i]? = some k) (hkj : keys[j]? = some k)
    (hi : (run .locked (init keys) sched).threads[i]? = some (Pc.finished s))
    (hj : (run .locked (init keys) sched).threads[j]? = some (Pc.finished t)) : s = t := by
  have hinv := inv_run (init keys) sched (inv_init keys)
  have hk : (run .locked (init keys) sched).keys = keys := run_keys _ _ _
  have a := (hinv.2 i s k hi (by rw [hk]; exact hki)).1
  have b := (hinv.2 j t k hj (by rw [hk]; exact hkj)).1
  rw [a] at b; cases b; rfl

/-- **C16, many exporters**: for every list of keys (threads with equal keys race on one exporter,
    threads with different keys on different new exporters), and every interleaving of their
    lookup / create / publish / use steps, at every point of the execution the announcement of every
    worker that has returned is visible to later datagrams of its exporter -/
theorem nothing_lost_multi (keys : List Key) (sched : List Nat) :
    NothingLost (run .locked (init keys) sched) := by
  intro i s k hi hk
  have hinv := inv_run (init keys) sched (inv_init keys)
  obtain ⟨hm, hmem⟩ := hinv.2 i s k hi hk
  simp only [visible, hm, List.mem_map, List.mem_filter]
  exact ⟨(s, i), ⟨hmem, by simp⟩, rfl⟩

/-- `lost` is the executable form of `NothingLost` -/
theorem lost_nil_iff (st : St) : lost st = [] ↔ NothingLost st := by
  unfold lost NothingLost
  rw [List.filter_eq_nil_iff]
  constructor
  · intro h i s k hi hk
    have hlt : i < st.threads.length := by
      rcases Nat.lt_or_ge i st.threads.length with hl | hl
      · exact hl
      · rw [List.getElem?_eq_none hl] at hi; cases hi
    have := h i (List.mem_range.mpr hlt)
    simp only [hi, hk] at this
    simpa using this
  · intro h i _
    split
    · rename_i s k hi hk
      have := h i s k hi hk
      simpa using this
    · simp

/-- non-vacuity: four workers, two on exporter 7 and two on exporter 9, all racing through the
    factory; everybody finishes, one system per exporter -/
example : (run .locked (init [7, 9, 7, 9]) [0, 1, 2, 3, 0, 1, 2, 3, 3, 2, 1, 0, 0, 1, 2, 3]).threads =
      [.finished 2, .finished 3, .finished 2, .finished 3] ∧
    (run .locked (init [7, 9, 7, 9]) [0, 1, 2, 3, 0, 1, 2, 3, 3, 2, 1, 0, 0, 1, 2, 3]).map = [(9, 3), (7, 2)] := by
  decide

/-! ### Findings: the copy-on-write variant (seeded change C16-7) -/
namespace Findings

/-- Two workers on two DIFFERENT new exporters (keys 1 and 2).  T0 and T1 both load the (empty) map
    and miss; both run the factory; T0 publishes `[] ++ [(1, 0)]`, announces and returns; T1 re-checks
    its own key 2 in the current map (absent) and publishes its stale snapshot `[] ++ [(2, 1)]`:
    exporter 1 is no longer registered and T0's template is not visible any more. -/
theorem cow_stale_loses :
    ¬ NothingLost (run .cowStale (init [1, 2]) [0, 1, 0, 1, 0, 0, 1, 1]) := by
  intro h
  have := h 0 0 1 (by decide) (by decide)
  revert this
  decide

/-- the same fact through the executable `lost`, and the final map: exporter 1 has disappeared -/
theorem cow_stale_loses_lost :
    lost (run .cowStale (init [1, 2]) [0, 1, 0, 1, 0, 0, 1, 1]) = [0] ∧
    (run .cowStale (init [1, 2]) [0, 1, 0, 1, 0, 0, 1, 1]).map = [(2, 1)] ∧
    (run .cowStale (init [1, 2]) [0, 1, 0, 1, 0, 0, 0, 0]).map.lookup 1 = some 0 := by
  decide

/-- a published entry is not stable in the copy-on-write variant: key 1 was bound after 6 steps and is
    unbound after the 7th (contrast `published_stable`) -/
theorem cow_stale_not_stable :
    (run .cowStale (init [1, 2]) [0, 1, 0, 1, 0, 0]).map.lookup 1 = some 0 ∧
    (run .cowStale (run .cowStale (init [1, 2]) [0, 1, 0, 1, 0, 0]) [1]).map.lookup 1 = none := by
  decide

/-- the locked protocol on the same keys and the same schedule loses nothing -/
theorem locked_same_schedule :
    lost (run .locked (init [1, 2]) [0, 1, 0, 1, 0, 0, 1, 1]) = [] ∧
    (run .locked (init [1, 2]) [0, 1, 0, 1, 0, 0, 1, 1]).map = [(1, 0), (2, 1)] := by
  decide

/-- with EQUAL keys the same schedule is harmless for the copy-on-write variant (the re-check of the
    thread's own key finds the other worker's system) — the instance -/
theorem cow_stale_equal_keys_instance :
    lost (run .cowStale (init [1, 1]) [0, 1, 0, 1, 0, 0, 1, 1]) = [] ∧
    (run .cowStale (init [1, 1]) [0, 1, 0, 1, 0, 0, 1, 1]).threads = [.finished 0, .finished 0] := by
  decide

/-- all threads work for exporter `k`, the map only has entries of `k`, and every snapshot held by a
    thread past a missed lookup is the empty map -/
def AllK (k : Key) (st : St) : Prop :=
  (∀ (i : Nat) (kk : Key), st.keys[i]? = some kk → kk = k) ∧
  (∀ e ∈ st.map, e.1 = k) ∧
  (∀ (i : Nat) (snap : Map), st.threads[i]? = some (Pc.needCreate snap) → snap = []) ∧
  (∀ (i : Nat) (snap : Map) (mine : Nat), st.threads[i]? = some (Pc.created snap mine) → snap = [])

private theorem map_nil_of_miss (m : Map) (k : Key) (hall : ∀ e ∈ m, e.1 = k) (h : m.lookup k = none) :
    m = [] := by
  cases m with
  | nil => rfl
  | cons e rest =>
    obtain ⟨a, b⟩ := e
    have : a = k := hall (a, b) (by simp)
    subst this
    simp [List.lookup] at h

/-- on one key the two variants take the same steps: every snapshot is the empty map, and the map is
    empty whenever the key is absent -/
theorem step_cow_eq_locked (k : Key) (st : St) (i : Nat) (h : AllK k st) :
    step .cowStale st i = step .locked st i := by
  obtain ⟨hk, hm, _, hc⟩ := h
  unfold step
  split
  · rename_i pc kk hth hkk
    have : kk = k := hk i kk hkk
    subst this
    split
    · rfl
    · rfl
    · rename_i snap mine
      split
      · rfl
      · rename_i hmiss
        have h1 : snap = [] := hc i snap mine hth
        have h2 : st.map = [] := map_nil_of_miss st.map kk hm hmiss
        simp only [publishMap, h1, h2]
    · rfl
    · rfl
  · rfl

theorem allK_step (k : Key) (st st' : St) (i : Nat) (h : AllK k st) (hs : step .locked st i = some st') :
    AllK k st' := by
  obtain ⟨hk, hm, hn, hc⟩ := h
  unfold step at hs
  split at hs
  · rename_i pc kk hth hkk
    have : kk = k := hk i kk hkk
    subst this
    split at hs
    · split at hs
      · cases hs
        refine ⟨hk, hm, ?_, ?_⟩
        · intro j snap hj
          rcases get_set hj with ⟨_, he⟩ | ⟨_, hj'⟩
          · cases he
          · exact hn j snap hj'
        · intro j snap mine hj
          rcases get_set hj with ⟨_, he⟩ | ⟨_, hj'⟩
          · cases he
          · exact hc j snap mine hj'
      · rename_i hmiss
        cases hs
        refine ⟨hk, hm, ?_, ?_⟩
        · intro j snap hj
          rcases get_set hj with ⟨_, he⟩ | ⟨_, hj'⟩
          · cases he; exact map_nil_of_miss st.map kk hm hmiss
          · exact hn j snap hj'
        · intro j snap mine hj
          rcases get_set hj with ⟨_, he⟩ | ⟨_, hj'⟩
          · cases he
          · exact hc j snap mine hj'
    · rename_i snap
      cases hs
      refine ⟨hk, hm, ?_, ?_⟩
      · intro j snap' hj
        rcases get_set hj with ⟨_, he⟩ | ⟨_, hj'⟩
        · cases he
        · exact hn j snap' hj'
      · intro j snap' mine hj
        rcases get_set hj with ⟨_, he⟩ | ⟨_, hj'⟩
        · cases he; exact hn i snap hth
        · exact hc j snap' mine hj'
    · rename_i snap mine
      split at hs
      · cases hs
        refine ⟨hk, hm, ?_, ?_⟩
        · intro j snap' hj
          rcases get_set hj with ⟨_, he⟩ | ⟨_, hj'⟩
          · cases he
          · exact hn j snap' hj'
        · intro j snap' mine' hj
          rcases get_set hj with ⟨_, he⟩ | ⟨_, hj'⟩
          · cases he
          · exact hc j snap' mine' hj'
      · cases hs
        refine ⟨hk, ?_, ?_, ?_⟩
        · intro e he
          simp only [publishMap, List.mem_append, List.mem_singleton] at he
          rcases he with he | he
          · exact hm e he
          · rw [he]
        · intro j snap' hj
          rcases get_set hj with ⟨_, he⟩ | ⟨_, hj'⟩
          · cases he
          · exact hn j snap' hj'
        · intro j snap' mine' hj
          rcases get_set hj with ⟨_, he⟩ | ⟨_, hj'⟩
          · cases he
          · exact hc j snap' mine' hj'
    · cases hs
      refine ⟨hk, hm, ?_, ?_⟩
      · intro j snap' hj
        rcases get_set hj with ⟨_, he⟩ | ⟨_, hj'⟩
        · cases he
        · exact hn j snap' hj'
      · intro j snap' mine' hj
        rcases get_set hj with ⟨_, he⟩ | ⟨_, hj'⟩
        · cases he
        · exact hc j snap' mine' hj'
    · cases hs
  · cases hs

theorem allK_init (k : Key) (n : Nat) : AllK k (init (List.replicate n k)) := by
  refine ⟨?_, ?_, ?_, ?_⟩
  · intro i kk h
    simp only [init, List.getElem?_replicate] at h
    split at h
    · cases h; rfl
    · cases h
  · intro e he; simp [init] at he
  · intro i snap h
    simp only [init, List.getElem?_replicate] at h
    split at h <;> simp at h
  · intro i snap mine h
    simp only [init, List.getElem?_replicate] at h
    split at h <;> simp at h

theorem run_cow_eq_locked (k : Key) (st : St) (sched : List Nat) (h : AllK k st) :
    run .cowStale st sched = run .locked st sched := by
  induction sched generalizing st with
  | nil => rfl
  | cons i rest ih =>
    simp only [run, step_cow_eq_locked k st i h]
    split
    · rename_i st' hs
      exact ih st' (allK_step k st st' i h hs)
    · exact ih st h

/-- with all keys EQUAL — any number of workers on one exporter, every schedule — the copy-on-write
    variant behaves exactly like the locked protocol and loses nothing: the defect is invisible to
    the one-key model of Goflow/Conc/GetOrCreate.lean and needs two different exporters -/
theorem cow_stale_equal_keys (k : Key) (n : Nat) (sched : List Nat) :
    run .cowStale (init (List.replicate n k)) sched = run .locked (init (List.replicate n k)) sched ∧
    NothingLost (run .cowStale (init (List.replicate n k)) sched) := by
  have h := run_cow_eq_locked k _ sched (allK_init k n)
  exact ⟨h, by rw [h]; exact nothing_lost_multi _ sched⟩

end Findings

end Goflow.C16Multi
