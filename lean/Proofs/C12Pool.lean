import Goflow.Pool
import Goflow.Generated.Pool
/-!
  C12 with the message pool inside the model.

  `Goflow.Pool` threads an explicit sync.Pool (arbitrary content, arbitrary choices of `Get`) through the three
  creation loops, `Produce` and the deferred `Commit` of `DecodeFlow`. Theorems:

  * `decodeFlowP_eq`  — for every pool content and every oracle, one `DecodeFlow` sends exactly the messages of the
                        pool-less model (`Goflow.Pipe.decodeFlow`), with the configuration's formatter, and leaves the
                        same template / sampling state;
  * `history_pool_free` — for every history of datagrams (any pipes, configurations, exporters, failing or not), every
                        initial pool and every oracle, the outputs are those of the pool-less model;
  * `take_plain`       — a creation site hands out `skipDelimiter = false` whenever the pool holds only such messages
                        (no non-test code writes that member);
  * `leak_without_reset` — the same life cycle *without* the `Reset()` after `Get` leaks a column of an earlier flow
                        (so the theorems above are about the `Reset`, not vacuous);
  * `state_inventory`  — the regenerated inventory of everything that outlives a datagram (fields of the pooled
                        message, of the pipes, of the producer, of the template and sampling systems; the `Get` / `Put`
                        sites with the statement that follows each `Get`; `FlowMessage.Reset`; the package-level
                        variables of the packages on the path) equals what the model accounts for.
-/
namespace Goflow.C12Pool
open Goflow Goflow.Producer Goflow.Pipe Goflow.Pool

/-! ### the creation site -/

theorem take_true_flow (s : PS) : (take true s).1.flow = FlowMsg.empty := by
  simp [take, Pooled.reset]

theorem on_empty_legacy (bt up : Nat) (r : V5.Record) :
    convertLegacyRecordOn FlowMsg.empty bt up r = convertLegacyRecord bt up r := rfl

theorem on_empty_netflow (cfg : Option Config) (v bt up : Nat) (rec : List Netflow.DataField) :
    convertNetFlowDataSetOn FlowMsg.empty cfg v bt up rec = convertNetFlowDataSet cfg v bt up rec := rfl

theorem on_empty_sample (cfg : Option Config) (smp : Sflow.Sample) :
    convertSampleOn FlowMsg.empty cfg smp = convertSample cfg smp := by
  cases smp <;> rfl

theorem convertSample_none_of_not_flow (cfg : Option Config) (smp : Sflow.Sample) (h : isFlowSample smp = false) :
    convertSample cfg smp = none := by
  cases smp <;> simp_all [isFlowSample, convertSample]

theorem convertSample_some_of_flow (cfg : Option Config) (smp : Sflow.Sample) (h : isFlowSample smp = true) :
    (convertSample cfg smp).isSome = true := by
  cases smp <;> simp_all [isFlowSample, convertSample]

def flowsOf : Res (List Pooled) → Res (List FlowMsg)
  | .ok ms => .ok (ms.map (·.flow))
  | .error e => .error e

/-! ### the three creation loops -/

theorem legacyRecordsP_flows (bt up : Nat) (rs : List V5.Record) (s : PS) :
    (legacyRecordsP true bt up rs s).1.map (·.flow) = rs.map (convertLegacyRecord bt up) := by
  induction rs generalizing s with
  | nil => rfl
  | cons r rs ih =>
    simp only [legacyRecordsP, List.map_cons, onFlow, take_true_flow, on_empty_legacy, ih]

theorem netflowRecordsP_flows (cfg : Option Config) (v bt up : Nat) (rs : List Netflow.DataRecord) (s : PS) :
    flowsOf (netflowRecordsP true cfg v bt up rs s).1 = convertRecords cfg v bt up rs := by
  induction rs generalizing s with
  | nil => rfl
  | cons r rs ih =>
    simp only [netflowRecordsP, convertRecords, take_true_flow, on_empty_netflow]
    cases h : convertNetFlowDataSet cfg v bt up r.values with
    | error e => rfl
    | ok f =>
      simp only []
      have := ih (take true s).2
      cases h2 : (netflowRecordsP true cfg v bt up rs (take true s).2).1 with
      | error e => rw [h2] at this; simp only [flowsOf] at this ⊢; rw [← this]
      | ok ms => rw [h2] at this; simp only [flowsOf] at this ⊢; rw [← this]; rfl

theorem convertRecords_append (cfg : Option Config) (v bt up : Nat) (a b : List Netflow.DataRecord) :
    convertRecords cfg v bt up (a ++ b) =
      match convertRecords cfg v bt up a with
      | .error e => .error e
      | .ok ma =>
        match convertRecords cfg v bt up b with
        | .error e => .error e
        | .ok mb => .ok (ma ++ mb) := by
  induction a with
  | nil =>
    simp only [List.nil_append, convertRecords]
    cases convertRecords cfg v bt up b <;> rfl
  | cons r a ih =>
    simp only [List.cons_append, convertRecords, ih]
    cases convertNetFlowDataSet cfg v bt up r.values with
    | error e => rfl
    | ok m =>
      simp only []
      cases convertRecords cfg v bt up a with
      | error e => rfl
      | ok ma =>
        simp only []
        cases convertRecords cfg v bt up b <;> rfl

def setsResult (r : List Pooled × Option Err) : Res (List FlowMsg) :=
  match r.2 with
  | some e => .error e
  | none => .ok (r.1.map (·.flow))

theorem netflowSetsP_flows (cfg : Option Config) (v bt up : Nat) (sets : List (List Netflow.DataRecord)) (s : PS) :
    setsResult (netflowSetsP true cfg v bt up sets s).1 = convertRecords cfg v bt up sets.flatten := by
  induction sets generalizing s with
  | nil => rfl
  | cons recs sets ih =>
    simp only [netflowSetsP, List.flatten_cons, convertRecords_append]
    have h1 := netflowRecordsP_flows cfg v bt up recs s
    cases h : (netflowRecordsP true cfg v bt up recs s).1 with
    | error e => rw [h] at h1; simp only [flowsOf] at h1; rw [← h1]; rfl
    | ok ms =>
      rw [h] at h1; simp only [flowsOf] at h1; rw [← h1]
      simp only []
      have h2 := ih (netflowRecordsP true cfg v bt up recs s).2
      rw [← h2]
      simp only [setsResult]
      cases (netflowSetsP true cfg v bt up sets (netflowRecordsP true cfg v bt up recs s).2).1.2 with
      | some e => rfl
      | none => simp

theorem dataRecordsOf_eq (fs : List Netflow.FlowSet) : dataRecordsOf fs = (dataSetsOf fs).flatten := by
  induction fs with
  | nil => rfl
  | cons f fs ih =>
    simp only [dataRecordsOf, dataSetsOf, List.flatMap_cons] at ih ⊢
    cases f <;> simp [ih]

theorem sflowSamplesP_flows (cfg : Option Config) (ss : List Sflow.Sample) (s : PS) :
    flowsOf (sflowSamplesP true cfg ss s).1 = convertSamples cfg ss := by
  induction ss generalizing s with
  | nil => rfl
  | cons smp ss ih =>
    unfold sflowSamplesP convertSamples
    by_cases hf : isFlowSample smp = true
    · simp only [hf, if_true, take_true_flow, on_empty_sample]
      have hs := convertSample_some_of_flow cfg smp hf
      cases hc : convertSample cfg smp with
      | none => rw [hc] at hs; cases hs
      | some r =>
        cases r with
        | error e => rfl
        | ok f =>
          simp only []
          have := ih (take true s).2
          cases h2 : (sflowSamplesP true cfg ss (take true s).2).1 with
          | error e => rw [h2] at this; simp only [flowsOf] at this ⊢; rw [← this]
          | ok ms => rw [h2] at this; simp only [flowsOf] at this ⊢; rw [← this]; rfl
    · have hf' : isFlowSample smp = false := by simpa using hf
      simp only [hf', Bool.false_eq_true, if_false, convertSample_none_of_not_flow cfg smp hf']
      exact ih s

/-! ### ProcessMessage… -/

theorem map_flow_onFlow (ms : List Pooled) (f : FlowMsg → FlowMsg) :
    (ms.map fun m => onFlow m f).map (·.flow) = (ms.map (·.flow)).map f := by
  simp [List.map_map, onFlow, Function.comp_def]

theorem map_flow_withFormatter (fid : Nat) (ms : List Pooled) :
    (withFormatter fid ms).map (·.flow) = ms.map (·.flow) := by
  simp [withFormatter, List.map_map, Function.comp_def]

theorem processLegacyP_flows (p : V5.Packet) (s : PS) :
    (processLegacyP true p s).1.map (·.flow) = processLegacy p := by
  simp only [processLegacyP, processLegacy, map_flow_onFlow, legacyRecordsP_flows]

theorem processSflowP_flows (cfg : Option Config) (p : Sflow.Packet) (s : PS) :
    flowsOf (processSflowP true cfg p s).1 = processSflow cfg p := by
  simp only [processSflowP, processSflow]
  have := sflowSamplesP_flows cfg p.samples s
  cases h : (sflowSamplesP true cfg p.samples s).1 with
  | error e => rw [h] at this; simp only [flowsOf] at this ⊢; rw [← this]
  | ok ms => rw [h] at this; simp only [flowsOf] at this ⊢; rw [← this]; simp only [map_flow_onFlow]

/-- what the pipe looks at: the messages when there is no error, the rates, the error -/
theorem processNetflowP_eq (cfg : Option Config) (p : Netflow.Packet) (rates : Rates) (s : PS) :
    let r := (processNetflowP true cfg p rates s).1
    let q := processNetflow cfg p rates
    r.rates = q.rates ∧ r.err = q.err ∧ (r.err = none → r.msgs.map (·.flow) = q.msgs) := by
  simp only [processNetflowP, processNetflow]
  have h := netflowSetsP_flows cfg p.version p.baseTime p.uptime (dataSetsOf p.flowSets) s
  rw [← dataRecordsOf_eq] at h
  rw [← h]
  simp only [setsResult]
  cases (netflowSetsP true cfg p.version p.baseTime p.uptime (dataSetsOf p.flowSets) s).1.2 with
  | some e => simp
  | none =>
    simp only []
    cases searchSamplingRate (optionRecordsOf p.flowSets) with
    | error e => simp
    | ok found => simp [onFlow]

/-! ### DecodeFlow -/

/-- one datagram, any pool, any oracle: same state, same error, same messages as the pool-less model -/
theorem netflowPipeP_eq (fid : Nat) (cfg : Config) (st : State) (s : PS) (src : Src) (recv : Nat) (d : Bytes) :
    let o := netflowPipeP true fid cfg st s src recv d
    let q := netflowPipe cfg st src recv d
    o.state = q.state ∧ o.err = q.err ∧ o.sent.map (·.flow) = q.msgs := by
  simp only [netflowPipeP, netflowPipe]
  cases readU 2 d with
  | error e => simp
  | ok vb =>
    obtain ⟨version, b⟩ := vb
    simp only []
    by_cases h5 : version = 5
    · simp only [h5, if_true]
      cases V5.decodeMessage b with
      | error e => simp
      | ok p =>
        refine ⟨rfl, rfl, ?_⟩
        simp only [map_flow_withFormatter, map_flow_onFlow, processLegacyP_flows]
    · simp only [h5, if_false]
      by_cases h9 : version = 9 ∨ version = 10
      · simp only [h9, if_true]
        generalize (if version = 9 then Netflow.decodeMessageNetFlow (st.templatesOf src) b
          else Netflow.decodeMessageIPFIX (st.templatesOf src) b) = o
        cases ho : o.err with
        | some e => simp
        | none =>
          simp only []
          have hp := processNetflowP_eq (some cfg) o.packet
            (((st.setTemplates src (st.templatesOf src)).setTemplates src o.store).ratesOf src.ip) s
          simp only at hp
          obtain ⟨hr, he, hm⟩ := hp
          rw [hr, he]
          cases hq : (processNetflow (some cfg) o.packet
              (((st.setTemplates src (st.templatesOf src)).setTemplates src o.store).ratesOf src.ip)).err with
          | some e => simp
          | none =>
            rw [hq] at he
            refine ⟨rfl, rfl, ?_⟩
            simp only [map_flow_withFormatter, map_flow_onFlow, hm he]
      · simp [h9]

theorem sflowPipeP_eq (fid : Nat) (cfg : Config) (st : State) (s : PS) (recv : Nat) (d : Bytes) :
    let o := sflowPipeP true fid cfg st s recv d
    let q := sflowPipe cfg st recv d
    o.state = q.state ∧ o.err = q.err ∧ o.sent.map (·.flow) = q.msgs := by
  simp only [sflowPipeP, sflowPipe]
  cases Sflow.decodeMessageVersion d with
  | error e => simp
  | ok p =>
    simp only []
    have := processSflowP_flows (some cfg) p s
    cases h : (processSflowP true (some cfg) p s).1 with
    | error e => rw [h] at this; simp only [flowsOf] at this; rw [← this]; simp
    | ok ms =>
      rw [h] at this; simp only [flowsOf] at this; rw [← this]
      refine ⟨rfl, rfl, ?_⟩
      simp only [map_flow_withFormatter, map_flow_onFlow]

theorem decodeFlowP_eq (k : Kind) (fid : Nat) (cfg : Config) (st : State) (s : PS) (src : Src) (recv : Nat) (d : Bytes) :
    let o := decodeFlowP true k fid cfg st s src recv d
    let q := decodeFlow k cfg st src recv d
    o.state = q.state ∧ o.err = q.err ∧ o.sent.map (·.flow) = q.msgs := by
  cases k with
  | netflow => exact netflowPipeP_eq fid cfg st s src recv d
  | sflow => exact sflowPipeP_eq fid cfg st s recv d
  | auto =>
    simp only [decodeFlowP, decodeFlow, autoPipeP, autoPipe]
    cases readU 4 d with
    | error e => simp
    | ok pb =>
      obtain ⟨proto, _⟩ := pb
      simp only []
      by_cases h5 : proto = 5
      · simp only [h5, if_true]; exact sflowPipeP_eq fid cfg st s recv d
      · simp only [h5, if_false]
        by_cases hn : proto / 65536 = 5 ∨ proto / 65536 = 9 ∨ proto / 65536 = 10
        · simp only [hn, if_true]; exact netflowPipeP_eq fid cfg st s src recv d
        · simp [hn]

/-- every message handed to format + transport carries the formatter of the pipe's configuration -/
theorem sent_formatter (k : Kind) (fid : Nat) (cfg : Config) (st : State) (s : PS) (src : Src) (recv : Nat) (d : Bytes) :
    ∀ m ∈ (decodeFlowP true k fid cfg st s src recv d).sent, m.formatter = fid + 1 := by
  have hw : ∀ ms : List Pooled, ∀ m ∈ withFormatter fid ms, m.formatter = fid + 1 := by
    intro ms m hm; simp only [withFormatter, List.mem_map] at hm; obtain ⟨a, _, rfl⟩ := hm; rfl
  have nf : ∀ m ∈ (netflowPipeP true fid cfg st s src recv d).sent, m.formatter = fid + 1 := by
    simp only [netflowPipeP]
    cases readU 2 d with
    | error e => simp
    | ok vb =>
      obtain ⟨version, b⟩ := vb
      simp only []
      split
      · cases V5.decodeMessage b with
        | error e => simp
        | ok p => exact hw _
      · split
        · split
          · simp
          · split
            · simp
            · exact hw _
        · simp
  have sf : ∀ m ∈ (sflowPipeP true fid cfg st s recv d).sent, m.formatter = fid + 1 := by
    simp only [sflowPipeP]
    cases Sflow.decodeMessageVersion d with
    | error e => simp
    | ok p =>
      simp only []
      split
      · simp
      · exact hw _
  cases k with
  | netflow => exact nf
  | sflow => exact sf
  | auto =>
    simp only [decodeFlowP, autoPipeP]
    cases readU 4 d with
    | error e => simp
    | ok pb =>
      obtain ⟨proto, _⟩ := pb
      simp only []
      split
      · exact sf
      · split
        · exact nf
        · simp

/-! ### whole histories -/

/-- **No leakage via reuse, for every history, pool and oracle.** Whatever was processed before (any protocol, any
    exporter, failing half-way or not), whatever the pool holds at the start and whichever pooled object each `Get`
    returns, every datagram's messages and outcome are those of the pool-less model. -/
theorem history_pool_free (ds : List Dgram) (st : State) (pool : List Pooled) :
    (runP true ds st pool).map (fun o => (o.1.map (·.flow), o.2)) = run ds st := by
  induction ds generalizing st pool with
  | nil => rfl
  | cons d ds ih =>
    simp only [runP, run, List.map_cons]
    obtain ⟨hs, he, hm⟩ := decodeFlowP_eq d.kind d.fid d.cfg st ⟨pool, d.cs⟩ d.src d.recvNs d.payload
    rw [hs, he, hm, ih]

/-- two different pools, two different oracles: the same outputs -/
theorem pool_content_irrelevant (ds : List Dgram) (ds' : List Dgram) (st : State) (pool pool' : List Pooled)
    (h : ds.map (fun d => (d.kind, d.fid, d.cfg, d.src, d.recvNs, d.payload)) =
         ds'.map (fun d => (d.kind, d.fid, d.cfg, d.src, d.recvNs, d.payload))) :
    (runP true ds st pool).map (fun o => (o.1.map (·.flow), o.2)) =
    (runP true ds' st pool').map (fun o => (o.1.map (·.flow), o.2)) := by
  rw [history_pool_free, history_pool_free]
  induction ds generalizing ds' st with
  | nil => cases ds' with
    | nil => rfl
    | cons _ _ => simp at h
  | cons d ds ih =>
    cases ds' with
    | nil => simp at h
    | cons d' ds' =>
      simp only [List.map_cons, List.cons.injEq, Prod.mk.injEq] at h
      obtain ⟨⟨hk, _, hc, hsrc, hr, hp⟩, ht⟩ := h
      simp only [run, hk, hc, hsrc, hr, hp]
      rw [ih ds' _ ht]

/-! ### skipDelimiter -/

def AllPlain (ms : List Pooled) : Prop := ∀ m ∈ ms, m.skipDelimiter = false

theorem get_plain (s : PS) (h : AllPlain s.pool) : (Pool.get s).1.skipDelimiter = false ∧ AllPlain (Pool.get s).2.pool := by
  unfold Pool.get
  cases s.cs.headD 0 with
  | zero => exact ⟨rfl, h⟩
  | succ i =>
    simp only []
    cases hp : s.pool[i]? with
    | none => exact ⟨rfl, h⟩
    | some p =>
      refine ⟨h p (List.mem_of_getElem? hp), ?_⟩
      intro m hm
      exact h m (List.mem_of_mem_eraseIdx hm)

theorem take_plain (r : Bool) (s : PS) (h : AllPlain s.pool) :
    (take r s).1.skipDelimiter = false ∧ AllPlain (take r s).2.pool := by
  have := get_plain s h
  unfold take
  cases r <;> simpa [Pooled.reset] using this

/-! ### the Reset is what carries the theorem -/

/-- a pool holding one message of an earlier flow (destination port 443), handed out by the next `Get` -/
def poisoned : PS := ⟨[{ flow := { FlowMsg.empty with dstPort := 443, bgpCommunities := [7] } }], [1]⟩

def oneRecord : V5.Record := default

/-- Without the `Reset()` after `Get`, a v5 record's message inherits a repeated field of the earlier flow
    (the v5 conversion never writes `bgpCommunities`); with it, it does not. -/
theorem leak_without_reset :
    ((legacyRecordsP false 0 0 [oneRecord] poisoned).1.map (·.flow.bgpCommunities)) = [[7]] ∧
    ((legacyRecordsP true 0 0 [oneRecord] poisoned).1.map (·.flow.bgpCommunities)) = [[]] := by
  constructor <;> rfl

/-! ### the inventory of what outlives a datagram -/

open Goflow.Generated in
/-- What the model accounts for, compared with what the source declares now.
    * the pooled message has exactly the three members of `Pooled`, and no `Reset` of its own (the promoted
      `FlowMessage.Reset` runs, which assigns the zero value to the whole message);
    * the pool is touched at three `Get` sites, each directly followed by `fmsg.Reset()`, and one `Put` site (Commit);
    * the pipes, the producer and the template / sampling systems hold: configuration and collaborators (fixed after
      construction), the per-exporter template map, the per-address sampling map and their locks — the `State` of
      `Goflow.Pipe`;
    * package-level variables: constants and tables, the two pools, the driver registries, and `isSliceMap`
      (written by the configuration loader only, DESIGN 0.6). -/
theorem state_inventory :
    (stateStructs.lookup "producer/proto.ProtoProducerMessage" =
        some [("", "flowmessage.FlowMessage"), ("formatter", "FormatterMapper"), ("skipDelimiter", "bool")]) ∧
    pooledMessageOwnReset = false ∧
    flowMessageResetFirst = "*x = FlowMessage{}" ∧
    poolGetSites.map (fun s => (s.1, s.2.2.1, s.2.2.2)) =
      [("SearchNetFlowDataSetsRecords", "fmsg.Reset()", 1), ("SearchNetFlowLegacyRecords", "fmsg.Reset()", 1),
       ("SearchSFlowSamplesConfig", "fmsg.Reset()", 1)] ∧
    poolGetSites.all (fun s => s.2.1 == "fmsg := protoMessagePool.Get().(*ProtoProducerMessage)") = true ∧
    poolPutSites = [("Commit", "protoMessagePool.Put(fmsg)", 1)] ∧
    poolMentions = 5 ∧
    stateStructs.map (fun s => (s.1, s.2.map (·.1))) =
      [("producer/proto.ProtoProducerMessage", ["", "formatter", "skipDelimiter"]),
       ("producer/proto.ProtoProducer", ["cfg", "samplinglock", "sampling", "samplingRateSystem"]),
       ("producer/proto.basicSamplingRateSystem", ["sampling", "samplinglock"]),
       ("producer/proto.SingleSamplingRateSystem", ["Sampling"]),
       ("producer/proto.producerConfigMapped", ["Formatter", "IPFIX", "NetFlowV9", "SFlow"]),
       ("utils.flowpipe", ["format", "transport", "producer", "netFlowTemplater"]),
       ("utils.SFlowPipe", [""]),
       ("utils.NetFlowPipe", ["", "templateslock", "templates"]),
       ("utils.AutoFlowPipe", ["", ""]),
       ("decoders/netflow.BasicTemplateSystem", ["templates", "templateslock"])] ∧
    packageVars.map (fun v => (v.1, v.2.1)) = knownPackageVars.map (fun v => (v.1, v.2.1)) := by
  set_option maxRecDepth 100000 in decide

end Goflow.C12Pool

namespace Goflow.C12Pool
open Goflow Goflow.Producer Goflow.Pipe Goflow.Pool

/-! ### skipDelimiter along whole histories -/

theorem allPlain_append {a b : List Pooled} (ha : AllPlain a) (hb : AllPlain b) : AllPlain (a ++ b) := by
  intro m hm
  rcases List.mem_append.mp hm with h | h
  · exact ha m h
  · exact hb m h

theorem allPlain_map {ms : List Pooled} (f : Pooled → Pooled) (hf : ∀ m, (f m).skipDelimiter = m.skipDelimiter)
    (h : AllPlain ms) : AllPlain (ms.map f) := by
  intro m hm
  obtain ⟨a, ha, rfl⟩ := List.mem_map.mp hm
  rw [hf]; exact h a ha

theorem legacyRecordsP_plain (r : Bool) (bt up : Nat) (rs : List V5.Record) (s : PS) (h : AllPlain s.pool) :
    AllPlain (legacyRecordsP r bt up rs s).1 ∧ AllPlain (legacyRecordsP r bt up rs s).2.pool := by
  induction rs generalizing s with
  | nil => exact ⟨(by intro m hm; cases hm), h⟩
  | cons x rs ih =>
    obtain ⟨h1, h2⟩ := take_plain r s h
    obtain ⟨i1, i2⟩ := ih (take r s).2 h2
    refine ⟨?_, i2⟩
    intro m hm
    simp only [legacyRecordsP, List.mem_cons] at hm
    rcases hm with rfl | hm
    · exact h1
    · exact i1 m hm

theorem netflowRecordsP_plain (r : Bool) (cfg : Option Config) (v bt up : Nat) (rs : List Netflow.DataRecord) (s : PS)
    (h : AllPlain s.pool) :
    (∀ ms, (netflowRecordsP r cfg v bt up rs s).1 = .ok ms → AllPlain ms) ∧ AllPlain (netflowRecordsP r cfg v bt up rs s).2.pool := by
  induction rs generalizing s with
  | nil => exact ⟨(by intro ms hms; simp only [netflowRecordsP] at hms; cases hms; intro m hm; cases hm), h⟩
  | cons x rs ih =>
    obtain ⟨h1, h2⟩ := take_plain r s h
    obtain ⟨i1, i2⟩ := ih (take r s).2 h2
    simp only [netflowRecordsP]
    cases hc : convertNetFlowDataSetOn (take r s).1.flow cfg v bt up x.values with
    | error e => exact ⟨(by intro ms hms; cases hms), h2⟩
    | ok f =>
      simp only []
      cases hr : (netflowRecordsP r cfg v bt up rs (take r s).2).1 with
      | error e => exact ⟨(by intro ms hms; cases hms), i2⟩
      | ok ms' =>
        refine ⟨?_, i2⟩
        intro ms hms
        cases hms
        intro m hm
        rcases List.mem_cons.mp hm with rfl | hm
        · exact h1
        · exact i1 ms' hr m hm

theorem netflowSetsP_plain (r : Bool) (cfg : Option Config) (v bt up : Nat) (sets : List (List Netflow.DataRecord)) (s : PS)
    (h : AllPlain s.pool) :
    AllPlain (netflowSetsP r cfg v bt up sets s).1.1 ∧ AllPlain (netflowSetsP r cfg v bt up sets s).2.pool := by
  induction sets generalizing s with
  | nil => exact ⟨(by intro m hm; cases hm), h⟩
  | cons recs sets ih =>
    obtain ⟨r1, r2⟩ := netflowRecordsP_plain r cfg v bt up recs s h
    simp only [netflowSetsP]
    cases hr : (netflowRecordsP r cfg v bt up recs s).1 with
    | error e => exact ⟨(by intro m hm; cases hm), r2⟩
    | ok ms =>
      obtain ⟨i1, i2⟩ := ih (netflowRecordsP r cfg v bt up recs s).2 r2
      exact ⟨allPlain_append (r1 ms hr) i1, i2⟩

theorem sflowSamplesP_plain (r : Bool) (cfg : Option Config) (ss : List Sflow.Sample) (s : PS) (h : AllPlain s.pool) :
    (∀ ms, (sflowSamplesP r cfg ss s).1 = .ok ms → AllPlain ms) ∧ AllPlain (sflowSamplesP r cfg ss s).2.pool := by
  induction ss generalizing s with
  | nil => exact ⟨(by intro ms hms; simp only [sflowSamplesP] at hms; cases hms; intro m hm; cases hm), h⟩
  | cons smp ss ih =>
    unfold sflowSamplesP
    by_cases hf : isFlowSample smp = true
    · simp only [hf, if_true]
      obtain ⟨h1, h2⟩ := take_plain r s h
      obtain ⟨i1, i2⟩ := ih (take r s).2 h2
      cases hc : convertSampleOn (take r s).1.flow cfg smp with
      | none => exact ⟨i1, i2⟩
      | some res =>
        cases res with
        | error e => exact ⟨(by intro ms hms; cases hms), h2⟩
        | ok f =>
          simp only []
          cases hr : (sflowSamplesP r cfg ss (take r s).2).1 with
          | error e => exact ⟨(by intro ms hms; cases hms), i2⟩
          | ok ms' =>
            refine ⟨?_, i2⟩
            intro ms hms
            cases hms
            intro m hm
            rcases List.mem_cons.mp hm with rfl | hm
            · exact h1
            · exact i1 ms' hr m hm
    · have hf' : isFlowSample smp = false := by simpa using hf
      simp only [hf', Bool.false_eq_true, if_false]
      exact ih s h

theorem put_plain (s : PS) (ms : List Pooled) (h : AllPlain s.pool) (hm : AllPlain ms) : AllPlain (put s ms).pool :=
  allPlain_append h hm

theorem withFormatter_plain (fid : Nat) {ms : List Pooled} (h : AllPlain ms) : AllPlain (withFormatter fid ms) :=
  allPlain_map _ (fun _ => rfl) h

theorem onFlow_map_plain {ms : List Pooled} (f : FlowMsg → FlowMsg) (h : AllPlain ms) :
    AllPlain (ms.map fun m => onFlow m f) := allPlain_map _ (fun _ => rfl) h

/-- one DecodeFlow: if the pool holds only messages with `skipDelimiter = false`, so do the messages sent and the
    pool afterwards (no non-test code writes that member: `Generated.stateStructs` lists it, no creation site or
    converter touches it) -/
theorem decodeFlowP_plain (r : Bool) (k : Kind) (fid : Nat) (cfg : Config) (st : State) (s : PS) (src : Src) (recv : Nat)
    (d : Bytes) (h : AllPlain s.pool) :
    AllPlain (decodeFlowP r k fid cfg st s src recv d).sent ∧ AllPlain (decodeFlowP r k fid cfg st s src recv d).ps.pool := by
  have nil : AllPlain ([] : List Pooled) := by intro m hm; cases hm
  have nf : AllPlain (netflowPipeP r fid cfg st s src recv d).sent ∧ AllPlain (netflowPipeP r fid cfg st s src recv d).ps.pool := by
    simp only [netflowPipeP]
    cases readU 2 d with
    | error e => exact ⟨nil, h⟩
    | ok vb =>
      obtain ⟨version, b⟩ := vb
      simp only []
      split
      · cases V5.decodeMessage b with
        | error e => exact ⟨nil, h⟩
        | ok p =>
          simp only []
          obtain ⟨l1, l2⟩ := legacyRecordsP_plain r (p.header.unixSecs * 1000000000 + p.header.unixNSecs) p.header.sysUptime p.records s h
          have hs : AllPlain (withFormatter fid ((processLegacyP r p s).1.map fun m => onFlow m (stampRecv recv (unmap src.ip)))) :=
            withFormatter_plain fid (onFlow_map_plain _ (by simp only [processLegacyP]; exact onFlow_map_plain _ l1))
          exact ⟨hs, put_plain _ _ (by simp only [processLegacyP]; exact l2) hs⟩
      · split
        · generalize (if version = 9 then Netflow.decodeMessageNetFlow (st.templatesOf src) b
            else Netflow.decodeMessageIPFIX (st.templatesOf src) b) = o
          split
          · exact ⟨nil, h⟩
          · generalize ((st.setTemplates src (st.templatesOf src)).setTemplates src o.store).ratesOf src.ip = rates
            obtain ⟨n1, n2⟩ := netflowSetsP_plain r (some cfg) o.packet.version o.packet.baseTime o.packet.uptime
              (dataSetsOf o.packet.flowSets) s h
            have hmsgs : AllPlain (processNetflowP r (some cfg) o.packet rates s).1.msgs ∧
                AllPlain (processNetflowP r (some cfg) o.packet rates s).2.pool := by
              simp only [processNetflowP]
              split
              · exact ⟨n1, n2⟩
              · split
                · exact ⟨n1, n2⟩
                · exact ⟨onFlow_map_plain _ n1, n2⟩
            have hs := withFormatter_plain fid (onFlow_map_plain (stampRecv recv (unmap src.ip)) hmsgs.1)
            split
            · exact ⟨nil, put_plain _ _ hmsgs.2 hs⟩
            · exact ⟨hs, put_plain _ _ hmsgs.2 hs⟩
        · exact ⟨nil, h⟩
  have sf : AllPlain (sflowPipeP r fid cfg st s recv d).sent ∧ AllPlain (sflowPipeP r fid cfg st s recv d).ps.pool := by
    simp only [sflowPipeP]
    cases Sflow.decodeMessageVersion d with
    | error e => exact ⟨nil, h⟩
    | ok p =>
      simp only []
      obtain ⟨s1, s2⟩ := sflowSamplesP_plain r (some cfg) p.samples s h
      have hp : (∀ ms, (processSflowP r (some cfg) p s).1 = .ok ms → AllPlain ms) ∧ AllPlain (processSflowP r (some cfg) p s).2.pool := by
        simp only [processSflowP]
        cases hr : (sflowSamplesP r (some cfg) p.samples s).1 with
        | error e => exact ⟨(by intro ms hms; cases hms), s2⟩
        | ok ms' =>
          refine ⟨?_, s2⟩
          intro ms hms; cases hms
          exact onFlow_map_plain _ (s1 ms' hr)
      cases hr : (processSflowP r (some cfg) p s).1 with
      | error e => exact ⟨nil, hp.2⟩
      | ok ms =>
        have hs := withFormatter_plain fid (onFlow_map_plain (stampSflow recv) (hp.1 ms hr))
        exact ⟨hs, put_plain _ _ hp.2 hs⟩
  cases k with
  | netflow => exact nf
  | sflow => exact sf
  | auto =>
    simp only [decodeFlowP, autoPipeP]
    cases readU 4 d with
    | error e => exact ⟨nil, h⟩
    | ok pb =>
      obtain ⟨proto, _⟩ := pb
      simp only []
      split
      · exact sf
      · split
        · exact nf
        · exact ⟨nil, h⟩

/-- along every history, from a pool of plain messages: every message ever sent has `skipDelimiter = false` -/
theorem history_plain (r : Bool) (ds : List Dgram) (st : State) (pool : List Pooled) (h : AllPlain pool) :
    ∀ o ∈ runP r ds st pool, AllPlain o.1 := by
  induction ds generalizing st pool with
  | nil => intro o ho; cases ho
  | cons d ds ih =>
    intro o ho
    obtain ⟨h1, h2⟩ := decodeFlowP_plain r d.kind d.fid d.cfg st ⟨pool, d.cs⟩ d.src d.recvNs d.payload h
    simp only [runP, List.mem_cons] at ho
    rcases ho with rfl | ho
    · exact h1
    · exact ih _ _ h2 o ho

end Goflow.C12Pool
