import Goflow.Producer.Netflow
import Goflow.Gen.C14
import Proofs.C08
import Proofs.C14BitsFull
/-!
  C14 — user-defined mappings: what a mapping statement does to the flow message.

  1. `mapCustom_spec` (+ one lemma per case): MapCustom for the destinations the documentation
     covers — a declared protobuf field (varint / string / bytes), an existing numeric or bytes
     column, an undeclared name.
  2. `mapLayerEntries_spec`, `mapLayerKeys_spec`: the layer mappings of one layer are the left fold,
     in file order, of MapCustom over the bit ranges of the reference `Spec.Bits.extract`.
  3. `convertFields_cons` (`element_mapping_spec`): one step of the per-field loop — custom mapping
     first (last statement with the key wins), then the standard switch, enterprise elements never
     reach the switch; `custom_record_spec`: a record of elements unknown to the switch.
  4. non-vacuity examples at the end.
-/
namespace Goflow.C14Map
open Goflow Goflow.Producer Goflow.Netflow

/-! ## 1. MapCustom -/

/-- the unsigned value of the extracted bytes under the configured endianness -/
def endianVal (little : Bool) (v : Bytes) : Nat := if little then Goflow.leNat v else beNat v

theorem leNat_lt (b : Bytes) : Goflow.leNat b < 256 ^ b.length := by
  induction b with
  | nil => simp [Goflow.leNat]
  | cons x xs ih =>
    have hx : x.toNat < 256 := x.toNat_lt
    simp only [Goflow.leNat, List.length_cons, Nat.pow_succ]
    omega

/-- the little-endian value is the big-endian value of the reversed string (`Spec.Bits.leNat`) -/
theorem leNat_eq_beNat_reverse (b : Bytes) : Goflow.leNat b = Goflow.Spec.Bits.leNat b := by
  unfold Goflow.Spec.Bits.leNat
  induction b with
  | nil => rfl
  | cons x xs ih =>
    rw [List.reverse_cons, beNat_append, ← ih]
    simp [Goflow.leNat, beNat, Nat.mul_comm, Nat.add_comm]

theorem endianVal_lt (little : Bool) (v : Bytes) : endianVal little v < 256 ^ v.length := by
  unfold endianVal
  cases little
  · exact beNat_lt v
  · exact leNat_lt v

theorem endianVal_lt64 (little : Bool) (v : Bytes) (h : v.length ≤ 8) : endianVal little v < 2 ^ 64 :=
  calc endianVal little v < 256 ^ v.length := endianVal_lt little v
    _ ≤ 256 ^ 8 := Nat.pow_le_pow_right (by decide) h
    _ = 2 ^ 64 := by decide

theorem endianVal_mod64 (little : Bool) (v : Bytes) (h : v.length ≤ 8) : endianVal little v % 2 ^ 64 = endianVal little v :=
  Nat.mod_eq_of_lt (endianVal_lt64 little v h)

/-- DecodeUNumber / DecodeUNumberLE into a destination of `bits` bits: the value, truncated -/
theorem endianDecode_eq (little : Bool) (bits : Nat) (v : Bytes) (h : v.length ≤ 8) :
    endianDecode little bits v = .ok (endianVal little v % 2 ^ bits) := by
  unfold endianDecode endianVal
  cases little
  · simp [decodeUNumber, Goflow.C08.decodeUNumber_eq v h]
  · simp [decodeUNumberLE, Goflow.C08.decodeUNumberLE_eq v h]

/-- more than 8 bytes are not a number: an error (never a panic) -/
theorem endianDecode_long (little : Bool) (bits : Nat) (v : Bytes) (h : 8 < v.length) :
    endianDecode little bits v = .error .bad := by
  have h1 : ¬ (v.length = 1 ∨ v.length = 2 ∨ v.length = 4 ∨ v.length = 8) := by omega
  have h2 : ¬ v.length < 8 := by omega
  unfold endianDecode
  cases little
  · simp [decodeUNumber, Goflow.C08.decodeUNumber_long v h]
  · simp [decodeUNumberLE, decodeUNumberLERaw, h1, h2]

/-- the destination is no member (exported or not) of the Go message struct -/
def NotMember (dest : String) : Prop :=
  FlowMsg.kindOf dest = none ∧ dest ≠ "sizeCache" ∧ dest ≠ "unknownFields" ∧ dest ≠ "state" ∧
    dest ≠ "formatter" ∧ dest ≠ "skipDelimiter" ∧ dest ≠ "FlowMessage"

instance (dest : String) : Decidable (NotMember dest) := by unfold NotMember; infer_instance

/-- the unknown-section encoding of one value of a declared custom field -/
def customEnc (f : MapField) (v : Bytes) : Bytes :=
  match f.protoType with
  | .varint => appendTag f.protoIndex 0 ++ appendVarint (endianVal f.little v)
  | .string => appendTag f.protoIndex 2 ++ appendVarint v.length ++ v
  | .none => []

/-- declared varint field: tag (index, wire type 0) and the big- / little-endian value, appended -/
theorem mapCustom_custom_varint (m : FlowMsg) (v : Bytes) (f : MapField)
    (hd : NotMember f.destination) (hi : 0 < f.protoIndex) (ht : f.protoType = .varint) (hv : v.length ≤ 8) :
    mapCustom m v f = .ok { m with unk := m.unk ++ appendTag f.protoIndex 0 ++ appendVarint (endianVal f.little v) } := by
  obtain ⟨hk, h1, h2, h3, h4, h5, h6⟩ := hd
  unfold mapCustom
  simp [hk, h1, h2, h3, h4, h5, h6, hi, ht, endianDecode_eq _ _ _ hv, endianVal_mod64 _ _ hv]

/-- … a value of more than 8 bytes is rejected with an error and nothing is written -/
theorem mapCustom_custom_varint_long (m : FlowMsg) (v : Bytes) (f : MapField)
    (hd : NotMember f.destination) (hi : 0 < f.protoIndex) (ht : f.protoType = .varint) (hv : 8 < v.length) :
    mapCustom m v f = .error .bad := by
  obtain ⟨hk, h1, h2, h3, h4, h5, h6⟩ := hd
  unfold mapCustom
  simp [hk, h1, h2, h3, h4, h5, h6, hi, ht, endianDecode_long _ _ _ hv]

/-- declared string / bytes field: tag (index, wire type 2), length, the bytes as extracted -/
theorem mapCustom_custom_bytes (m : FlowMsg) (v : Bytes) (f : MapField)
    (hd : NotMember f.destination) (hi : 0 < f.protoIndex) (ht : f.protoType = .string) :
    mapCustom m v f = .ok { m with unk := m.unk ++ appendTag f.protoIndex 2 ++ appendVarint v.length ++ v } := by
  obtain ⟨hk, h1, h2, h3, h4, h5, h6⟩ := hd
  unfold mapCustom
  simp [hk, h1, h2, h3, h4, h5, h6, hi, ht]

/-- both custom cases at once -/
theorem mapCustom_custom (m : FlowMsg) (v : Bytes) (f : MapField)
    (hd : NotMember f.destination) (hi : 0 < f.protoIndex)
    (ht : f.protoType = .string ∨ (f.protoType = .varint ∧ v.length ≤ 8)) :
    mapCustom m v f = .ok { m with unk := m.unk ++ customEnc f v } := by
  rcases ht with ht | ⟨ht, hv⟩
  · rw [mapCustom_custom_bytes m v f hd hi ht]; simp [customEnc, ht, List.append_assoc]
  · rw [mapCustom_custom_varint m v f hd hi ht hv]; simp [customEnc, ht, List.append_assoc]

/-- neither a column nor a declared field: the statement has no effect -/
theorem mapCustom_undeclared (m : FlowMsg) (v : Bytes) (f : MapField)
    (hd : NotMember f.destination) (hi : f.protoIndex = 0) : mapCustom m v f = .ok m := by
  obtain ⟨hk, h1, h2, h3, h4, h5, h6⟩ := hd
  unfold mapCustom
  simp [hk, h1, h2, h3, h4, h5, h6, hi]

/-- existing 32-bit column (all but the enum `Type`): the value truncated to 32 bits -/
theorem mapCustom_col_u32 (m : FlowMsg) (v : Bytes) (f : MapField)
    (hk : FlowMsg.kindOf f.destination = some "u32") (hT : f.destination ≠ "Type") (hv : v.length ≤ 8) :
    mapCustom m v f = .ok (m.setNum f.destination (endianVal f.little v % 2 ^ 32)) := by
  unfold mapCustom
  simp [hk, hT, endianDecode_eq _ _ _ hv]

/-- existing 64-bit column: the value (8 bytes at most, so nothing is cut) -/
theorem mapCustom_col_u64 (m : FlowMsg) (v : Bytes) (f : MapField)
    (hk : FlowMsg.kindOf f.destination = some "u64") (hv : v.length ≤ 8) :
    mapCustom m v f = .ok (m.setNum f.destination (endianVal f.little v % 2 ^ 64)) := by
  have hT : f.destination ≠ "Type" := by
    intro h; rw [h] at hk; exact absurd hk (by decide)
  unfold mapCustom
  simp [hk, hT, endianDecode_eq _ _ _ hv]

/-- existing bytes column: the bytes as extracted, whatever their number -/
theorem mapCustom_col_bytes (m : FlowMsg) (v : Bytes) (f : MapField)
    (hk : FlowMsg.kindOf f.destination = some "bytes") :
    mapCustom m v f = .ok (m.setBytes f.destination v) := by
  unfold mapCustom
  simp [hk]

/-! ### the setters touch one column -/

theorem setNum_unk (m : FlowMsg) (c : String) (x : Nat) : (m.setNum c x).unk = m.unk := by
  unfold FlowMsg.setNum; split <;> rfl

theorem setNum_getNum_self (m : FlowMsg) (c : String) (x : Nat)
    (h : FlowMsg.kindOf c = some "u32" ∨ FlowMsg.kindOf c = some "u64") : (m.setNum c x).getNum c = some x := by
  unfold FlowMsg.kindOf at h
  split at h <;> first | rfl | (simp at h)

theorem setNum_getNum_ne (m : FlowMsg) (c c' : String) (x : Nat) (h : c' ≠ c) :
    (m.setNum c x).getNum c' = m.getNum c' := by
  unfold FlowMsg.setNum; split <;> (unfold FlowMsg.getNum; split <;> first | rfl | (exact absurd rfl h))

theorem setNum_getBytes (m : FlowMsg) (c c' : String) (x : Nat) : (m.setNum c x).getBytes c' = m.getBytes c' := by
  unfold FlowMsg.setNum; split <;> (unfold FlowMsg.getBytes; split <;> rfl)

theorem setNum_getNums (m : FlowMsg) (c c' : String) (x : Nat) : (m.setNum c x).getNums c' = m.getNums c' := by
  unfold FlowMsg.setNum; split <;> (unfold FlowMsg.getNums; split <;> rfl)

theorem setNum_getBytess (m : FlowMsg) (c c' : String) (x : Nat) : (m.setNum c x).getBytess c' = m.getBytess c' := by
  unfold FlowMsg.setNum; split <;> (unfold FlowMsg.getBytess; split <;> rfl)

theorem setBytes_unk (m : FlowMsg) (c : String) (x : Bytes) : (m.setBytes c x).unk = m.unk := by
  unfold FlowMsg.setBytes; split <;> rfl

theorem setBytes_getBytes_self (m : FlowMsg) (c : String) (x : Bytes)
    (h : FlowMsg.kindOf c = some "bytes") : (m.setBytes c x).getBytes c = some x := by
  unfold FlowMsg.kindOf at h
  split at h <;> first | rfl | (simp at h)

theorem setBytes_getBytes_ne (m : FlowMsg) (c c' : String) (x : Bytes) (h : c' ≠ c) :
    (m.setBytes c x).getBytes c' = m.getBytes c' := by
  unfold FlowMsg.setBytes; split <;> (unfold FlowMsg.getBytes; split <;> first | rfl | (exact absurd rfl h))

theorem setBytes_getNum (m : FlowMsg) (c c' : String) (x : Bytes) : (m.setBytes c x).getNum c' = m.getNum c' := by
  unfold FlowMsg.setBytes; split <;> (unfold FlowMsg.getNum; split <;> rfl)

theorem setBytes_getNums (m : FlowMsg) (c c' : String) (x : Bytes) : (m.setBytes c x).getNums c' = m.getNums c' := by
  unfold FlowMsg.setBytes; split <;> (unfold FlowMsg.getNums; split <;> rfl)

theorem setBytes_getBytess (m : FlowMsg) (c c' : String) (x : Bytes) : (m.setBytes c x).getBytess c' = m.getBytess c' := by
  unfold FlowMsg.setBytes; split <;> (unfold FlowMsg.getBytess; split <;> rfl)

/-- two messages agree on every column but `c` (all four kinds of getters) and on the unknown section -/
def SameExcept (c : String) (m m' : FlowMsg) : Prop :=
  m'.unk = m.unk ∧ (∀ c', c' ≠ c → m'.getNum c' = m.getNum c') ∧ (∀ c', c' ≠ c → m'.getBytes c' = m.getBytes c') ∧
    (∀ c', m'.getNums c' = m.getNums c') ∧ (∀ c', m'.getBytess c' = m.getBytess c')

theorem setNum_sameExcept (m : FlowMsg) (c : String) (x : Nat) : SameExcept c m (m.setNum c x) :=
  ⟨setNum_unk m c x, fun c' h => setNum_getNum_ne m c c' x h, fun c' _ => setNum_getBytes m c c' x,
   fun c' => setNum_getNums m c c' x, fun c' => setNum_getBytess m c c' x⟩

theorem setBytes_sameExcept (m : FlowMsg) (c : String) (x : Bytes) : SameExcept c m (m.setBytes c x) :=
  ⟨setBytes_unk m c x, fun c' _ => setBytes_getNum m c c' x, fun c' h => setBytes_getBytes_ne m c c' x h,
   fun c' => setBytes_getNums m c c' x, fun c' => setBytes_getBytess m c c' x⟩

/-- numeric column, in terms of readers: the column holds the truncated value, nothing else moved -/
theorem mapCustom_col_num_frame (m : FlowMsg) (v : Bytes) (f : MapField) (bits : Nat)
    (hk : (bits = 32 ∧ FlowMsg.kindOf f.destination = some "u32" ∧ f.destination ≠ "Type") ∨
          (bits = 64 ∧ FlowMsg.kindOf f.destination = some "u64")) (hv : v.length ≤ 8) :
    ∃ m', mapCustom m v f = .ok m' ∧ m'.getNum f.destination = some (endianVal f.little v % 2 ^ bits) ∧
      SameExcept f.destination m m' := by
  rcases hk with ⟨rfl, hk, hT⟩ | ⟨rfl, hk⟩
  · exact ⟨_, mapCustom_col_u32 m v f hk hT hv, setNum_getNum_self _ _ _ (Or.inl hk), setNum_sameExcept _ _ _⟩
  · exact ⟨_, mapCustom_col_u64 m v f hk hv, setNum_getNum_self _ _ _ (Or.inr hk), setNum_sameExcept _ _ _⟩

theorem mapCustom_col_bytes_frame (m : FlowMsg) (v : Bytes) (f : MapField)
    (hk : FlowMsg.kindOf f.destination = some "bytes") :
    ∃ m', mapCustom m v f = .ok m' ∧ m'.getBytes f.destination = some v ∧ SameExcept f.destination m m' :=
  ⟨_, mapCustom_col_bytes m v f hk, setBytes_getBytes_self _ _ _ hk, setBytes_sameExcept _ _ _⟩

/-! ### summary -/

/-- the documented effect of one mapped value -/
def mapCustomRef (m : FlowMsg) (v : Bytes) (f : MapField) : FlowMsg :=
  if FlowMsg.kindOf f.destination = some "bytes" then m.setBytes f.destination v
  else if FlowMsg.kindOf f.destination = some "u32" then m.setNum f.destination (endianVal f.little v % 2 ^ 32)
  else if FlowMsg.kindOf f.destination = some "u64" then m.setNum f.destination (endianVal f.little v % 2 ^ 64)
  else if 0 < f.protoIndex then { m with unk := m.unk ++ customEnc f v }
  else m

/-- the destinations and values the documentation covers: a bytes column; a numeric column (not the
    enum `Type`) with at most 8 bytes; a name outside the message struct that is undeclared, or
    declared as string / bytes, or declared as varint with at most 8 bytes -/
def Sane (f : MapField) (v : Bytes) : Prop :=
  FlowMsg.kindOf f.destination = some "bytes" ∨
  ((FlowMsg.kindOf f.destination = some "u32" ∨ FlowMsg.kindOf f.destination = some "u64") ∧
     f.destination ≠ "Type" ∧ v.length ≤ 8) ∨
  (NotMember f.destination ∧ (f.protoIndex = 0 ∨ f.protoType = .string ∨ (f.protoType = .varint ∧ v.length ≤ 8)))

instance (f : MapField) (v : Bytes) : Decidable (Sane f v) := by unfold Sane; infer_instance

theorem mapCustom_spec (m : FlowMsg) (v : Bytes) (f : MapField) (h : Sane f v) :
    mapCustom m v f = .ok (mapCustomRef m v f) := by
  rcases h with hk | ⟨hk | hk, hT, hv⟩ | ⟨hd, hc⟩
  · rw [mapCustom_col_bytes m v f hk]; simp [mapCustomRef, hk]
  · rw [mapCustom_col_u32 m v f hk hT hv]; simp [mapCustomRef, hk]
  · rw [mapCustom_col_u64 m v f hk hv]; simp [mapCustomRef, hk]
  · have hk := hd.1
    rcases Nat.eq_zero_or_pos f.protoIndex with hi | hi
    · rw [mapCustom_undeclared m v f hd hi]; simp [mapCustomRef, hk, hi]
    · have ht : f.protoType = .string ∨ (f.protoType = .varint ∧ v.length ≤ 8) := by
        rcases hc with h0 | h1 | h2
        · omega
        · exact Or.inl h1
        · exact Or.inr h2
      rw [mapCustom_custom m v f hd hi ht]; simp [mapCustomRef, hk, hi]

/-! ## 2. layer mappings -/

open Goflow.Spec.Bits in
/-- the bits one layer statement selects: `offset` bytes into the frame is where the layer starts -/
def entryBits (data : Bytes) (offset : Nat) (e : LayerMapEntry) : Bytes :=
  (extract data (8 * offset + e.offset.toNat) e.length.toNat true).getD []

/-- apply the statements `es` (all of them) in order -/
def applyEntries (data : Bytes) (offset : Nat) (es : List LayerMapEntry) (m : FlowMsg) : Res FlowMsg :=
  es.foldlM (fun m e => mapCustom m (entryBits data offset e) e.field) m

theorem applyEntries_nil (data : Bytes) (offset : Nat) (m : FlowMsg) : applyEntries data offset [] m = .ok m := rfl

theorem applyEntries_cons (data : Bytes) (offset : Nat) (e : LayerMapEntry) (es : List LayerMapEntry) (m : FlowMsg) :
    applyEntries data offset (e :: es) m =
      match mapCustom m (entryBits data offset e) e.field with
      | .error err => .error err
      | .ok m' => applyEntries data offset es m' := by
  unfold applyEntries
  rw [List.foldlM_cons]
  cases mapCustom m (entryBits data offset e) e.field <;> rfl

theorem applyEntries_append (data : Bytes) (offset : Nat) (es es' : List LayerMapEntry) (m : FlowMsg) :
    applyEntries data offset (es ++ es') m =
      match applyEntries data offset es m with
      | .error err => .error err
      | .ok m' => applyEntries data offset es' m' := by
  induction es generalizing m with
  | nil => rfl
  | cons e es ih =>
    rw [List.cons_append, applyEntries_cons, applyEntries_cons]
    cases mapCustom m (entryBits data offset e) e.field with
    | error err => rfl
    | ok m' => exact ih m'

/-- GetBytes on the Go ints of a statement with non-negative offset and length -/
theorem getBytes_entry (data : Bytes) (offset : Nat) (e : LayerMapEntry) (h : 0 ≤ e.offset ∧ 0 ≤ e.length) :
    getBytes data ((offset : Int) * 8 + e.offset) e.length true = .ok (entryBits data offset e) := by
  have h1 : (offset : Int) * 8 + e.offset = ((8 * offset + e.offset.toNat : Nat) : Int) := by omega
  have h2 : e.length = ((e.length.toNat : Nat) : Int) := by omega
  rw [h1, h2, Goflow.C14.getBytes_eq_extract]
  simp [entryBits]

theorem mapLayerEntries_apply (data : Bytes) (offset : Nat) (encap : Bool) (entries : List LayerMapEntry) (m : FlowMsg)
    (h : ∀ e ∈ entries, e.encap = encap → 0 ≤ e.offset ∧ 0 ≤ e.length) :
    mapLayerEntries data offset encap entries m =
      applyEntries data offset (entries.filter (fun e => e.encap == encap)) m := by
  induction entries generalizing m with
  | nil => rfl
  | cons e es ih =>
    have ih' := fun m => ih m (fun e' he' => h e' (List.mem_cons_of_mem _ he'))
    unfold mapLayerEntries
    by_cases he : e.encap = encap
    · have hb : (e.encap != encap) = false := by simp [he]
      have hf : (e.encap == encap) = true := by simp [he]
      simp only [hb, Bool.false_eq_true, if_false, List.filter_cons, hf, if_true]
      rw [getBytes_entry data offset e (h e (List.mem_cons_self) he), applyEntries_cons]
      dsimp only
      cases mapCustom m (entryBits data offset e) e.field with
      | error err => rfl
      | ok m' => exact ih' m'
    · have hb : (e.encap != encap) = true := by simp [he]
      have hf : (e.encap == encap) = false := by simp [he]
      simp only [hb, if_true, List.filter_cons, hf, Bool.false_eq_true, if_false]
      exact ih' m

theorem mapLayerKeys_apply (cfg : Config) (data : Bytes) (offset : Nat) (encap : Bool) (keys : List String) (m : FlowMsg)
    (h : ∀ k ∈ keys, ∀ e ∈ lookupLayer cfg.layers k, e.encap = encap → 0 ≤ e.offset ∧ 0 ≤ e.length) :
    mapLayerKeys cfg data offset encap keys m =
      applyEntries data offset ((keys.flatMap (lookupLayer cfg.layers)).filter (fun e => e.encap == encap)) m := by
  induction keys generalizing m with
  | nil => rfl
  | cons k ks ih =>
    have ih' := fun m => ih m (fun k' hk' => h k' (List.mem_cons_of_mem _ hk'))
    unfold mapLayerKeys
    rw [List.flatMap_cons, List.filter_append, applyEntries_append,
      mapLayerEntries_apply data offset encap _ m (h k List.mem_cons_self)]
    cases applyEntries data offset (List.filter (fun e => e.encap == encap) (lookupLayer cfg.layers k)) m with
    | error err => rfl
    | ok m' => exact ih' m'

/-- the statements of one key at one layer: those whose `encap` flag equals the layer's state, in
    file order, each applied to the bits `extract data (8*offset + e.offset) e.length true` -/
theorem mapLayerEntries_spec (data : Bytes) (offset : Nat) (encap : Bool) (entries : List LayerMapEntry) (m : FlowMsg)
    (h : ∀ e ∈ entries, e.encap = encap → 0 ≤ e.offset ∧ 0 ≤ e.length) :
    mapLayerEntries data offset encap entries m =
      (entries.filter (fun e => e.encap == encap)).foldlM
        (fun m e => mapCustom m ((Goflow.Spec.Bits.extract data (8 * offset + e.offset.toNat) e.length.toNat true).getD []) e.field) m :=
  mapLayerEntries_apply data offset encap entries m h

/-- all keys of a layer (`ConfigKeyList`, in order): for every key its statements (`lookupLayer`:
    the entries with that layer name, in file order) -/
theorem mapLayerKeys_spec (cfg : Config) (data : Bytes) (offset : Nat) (encap : Bool) (keys : List String) (m : FlowMsg)
    (h : ∀ k ∈ keys, ∀ e ∈ lookupLayer cfg.layers k, e.encap = encap → 0 ≤ e.offset ∧ 0 ≤ e.length) :
    mapLayerKeys cfg data offset encap keys m =
      ((keys.flatMap (lookupLayer cfg.layers)).filter (fun e => e.encap == encap)).foldlM
        (fun m e => mapCustom m ((Goflow.Spec.Bits.extract data (8 * offset + e.offset.toNat) e.length.toNat true).getD []) e.field) m :=
  mapLayerKeys_apply cfg data offset encap keys m h

/-- the selection written the way the test generator enumerates it: for every key, for every
    statement with `layer = key` and `encap = enc` -/
theorem selection_eq (layers : List LayerMapEntry) (keys : List String) (encap : Bool) :
    (keys.flatMap (lookupLayer layers)).filter (fun e => e.encap == encap) =
      keys.flatMap (fun k => layers.filter (fun e => e.layer == k && e.encap == encap)) := by
  induction keys with
  | nil => rfl
  | cons k ks ih =>
    rw [List.flatMap_cons, List.flatMap_cons, List.filter_append, ih]
    congr 1
    unfold lookupLayer
    rw [List.filter_filter]
    congr 1
    funext e
    exact Bool.and_comm _ _

/-- where the dissector applies them: one iteration of the ParsePacket loop runs the parser of the
    layer on `data[offset:]` and then the statements of all of the layer's keys on the whole frame
    with the layer's start offset and encapsulation state -/
theorem parseLoop_step (cfg : Config) (data : Bytes) (fuel : Nat) (next : Next) (offset : Nat) (encap : Bool)
    (encapIndex : Nat) (calls : List (Nat × Nat)) (m : FlowMsg) (hc : next.callable = true) (ho : offset ≤ data.length) :
    parseLoop cfg data (fuel + 1) next offset encap encapIndex calls m =
      let r := runParser next.parser m (data.drop offset) ⟨encap, (calls.lookup next.parserIndex).getD 0, cfg.ports⟩
      -- the layer statements apply to a layer the parser recognised (it added an entry to the layer stack)
      let recognised := decide (m.layerStack.length < r.msg.layerStack.length)
      match (if recognised then mapLayerKeys cfg data offset encap next.keys r.msg else .ok r.msg) with
      | .error e => .error e
      | .ok m1 =>
        let idx := encapIdx encapIndex next.encapSkip next.layerIndex
        parseLoop cfg data fuel r.next (offset + r.size)
          (encap || encapTrig idx r.next.encapSkip r.next.layerIndex) idx (bump calls next.parserIndex)
          (if recognised then { m1 with layerSize := m1.layerSize ++ [r.size % 2 ^ 32] } else m1) := by
  rw [parseLoop, if_pos ⟨hc, ho⟩]
  rfl

/-! ## 3. element mappings -/

/-- the mapping list of the protocol version: `ipfix.mapping` for version 10, `netflowv9.mapping` otherwise -/
def mapperOf (cfg : Config) (version : Nat) : List NetflowMapEntry := if version = 10 then cfg.ipfix else cfg.v9

/-- the key of a statement -/
def keyMatch (penProvided : Bool) (pen type : Nat) (e : NetflowMapEntry) : Bool :=
  e.penProvided == penProvided && e.pen == pen && e.type == type

/-- the last statement with the key wins -/
theorem lookupNetflow_last (a b : List NetflowMapEntry) (e : NetflowMapEntry) (pp : Bool) (pen type : Nat)
    (he : keyMatch pp pen type e = true) (hb : ∀ e' ∈ b, keyMatch pp pen type e' = false) :
    lookupNetflow (a ++ e :: b) pp pen type = some e.field := by
  unfold lookupNetflow
  have hfb : b.filter (keyMatch pp pen type) = [] := by
    rw [List.filter_eq_nil_iff]; intro e' he'; simp [hb e' he']
  have : (a ++ e :: b).filter (fun e => e.penProvided == pp && e.pen == pen && e.type == type) =
      a.filter (keyMatch pp pen type) ++ [e] := by
    show (a ++ e :: b).filter (keyMatch pp pen type) = _
    rw [List.filter_append, List.filter_cons, he, if_pos rfl, hfb]
  rw [this, List.getLast?_append]
  rfl

theorem lookupNetflow_none_iff (es : List NetflowMapEntry) (pp : Bool) (pen type : Nat) :
    lookupNetflow es pp pen type = none ↔ ∀ e ∈ es, keyMatch pp pen type e = false := by
  unfold lookupNetflow
  show (match (es.filter (keyMatch pp pen type)).getLast? with | some e => some e.field | none => none) = none ↔ _
  constructor
  · intro h
    have : (es.filter (keyMatch pp pen type)).getLast? = none := by
      cases hq : (es.filter (keyMatch pp pen type)).getLast? with
      | none => rfl
      | some e => rw [hq] at h; cases h
    rw [List.getLast?_eq_none_iff, List.filter_eq_nil_iff] at this
    intro e he
    simpa using this e he
  · intro h
    have : es.filter (keyMatch pp pen type) = [] := by
      rw [List.filter_eq_nil_iff]; intro e he; simp [h e he]
    rw [this]; rfl

theorem lookupNetflow_some_mem (es : List NetflowMapEntry) (pp : Bool) (pen type : Nat) (f : MapField)
    (h : lookupNetflow es pp pen type = some f) : ∃ e ∈ es, keyMatch pp pen type e = true ∧ e.field = f := by
  unfold lookupNetflow at h
  change (match (es.filter (keyMatch pp pen type)).getLast? with | some e => some e.field | none => none) = some f at h
  cases hq : (es.filter (keyMatch pp pen type)).getLast? with
  | none => rw [hq] at h; cases h
  | some e =>
    rw [hq] at h
    have hm := List.mem_of_getLast? hq
    rw [List.mem_filter] at hm
    exact ⟨e, hm.1, hm.2, by simpa using h⟩

/-- the custom-mapping part of one field: only when a statement with the field's key exists -/
def customStep (mapper : List NetflowMapEntry) (df : DataField) (v : Bytes) (m : FlowMsg) : Res FlowMsg :=
  match lookupNetflow mapper df.penProvided df.pen df.type with
  | some f => mapCustom m v f
  | none => .ok m

/-- the standard part of one field: never for enterprise-specific elements; otherwise the `case` of the element id -/
def standardStep (cfg : Option Config) (version baseTimeNs uptime : Nat) (df : DataField) (v : Bytes) (m : FlowMsg) : Res FlowMsg :=
  if df.penProvided then .ok m
  else
    match lookupAction version df.type with
    | none => .ok m
    | some a => applyAction cfg baseTimeNs uptime m v a

/-- `element_mapping_spec`: one step of the per-field loop. The custom mapping of the field (statement
    looked up by (penProvided, pen, type) in the version's list) runs on the message first, the
    standard conversion of the same field on its result, then the remaining fields. -/
theorem element_mapping_spec (cfg : Config) (version baseTimeNs uptime : Nat) (df : DataField) (rest : List DataField)
    (m : FlowMsg) (v : Bytes) (hv : df.value = some v) :
    convertFields (some cfg) version baseTimeNs uptime (df :: rest) m =
      match customStep (mapperOf cfg version) df v m with
      | .error e => .error e
      | .ok m1 =>
        match standardStep (some cfg) version baseTimeNs uptime df v m1 with
        | .error e => .error e
        | .ok m2 => convertFields (some cfg) version baseTimeNs uptime rest m2 := by
  rw [convertFields.eq_def]
  simp only [hv]
  change (match customStep (mapperOf cfg version) df v m with | Except.error e => Except.error e | Except.ok m1 => _) = _
  cases customStep (mapperOf cfg version) df v m with
  | error e => rfl
  | ok m1 =>
    simp only [standardStep]
    cases hp : df.penProvided with
    | true => simp
    | false =>
      simp only [Bool.false_eq_true, if_false]
      cases lookupAction version df.type with
      | none => rfl
      | some a => rfl

/-- a field without a value (not a byte string) is skipped altogether -/
theorem convertFields_cons_none (cfg : Option Config) (version baseTimeNs uptime : Nat) (df : DataField)
    (rest : List DataField) (m : FlowMsg) (hv : df.value = none) :
    convertFields cfg version baseTimeNs uptime (df :: rest) m = convertFields cfg version baseTimeNs uptime rest m := by
  rw [convertFields.eq_def]; simp only [hv]

/-- no statement with the field's key: MapCustom is not called -/
theorem customStep_unmapped (mapper : List NetflowMapEntry) (df : DataField) (v : Bytes) (m : FlowMsg)
    (h : ∀ e ∈ mapper, keyMatch df.penProvided df.pen df.type e = false) : customStep mapper df v m = .ok m := by
  unfold customStep
  rw [(lookupNetflow_none_iff _ _ _ _).2 h]

/-- statements with the field's key: MapCustom with the destination of the last of them -/
theorem customStep_mapped (a b : List NetflowMapEntry) (e : NetflowMapEntry) (df : DataField) (v : Bytes) (m : FlowMsg)
    (he : keyMatch df.penProvided df.pen df.type e = true) (hb : ∀ e' ∈ b, keyMatch df.penProvided df.pen df.type e' = false) :
    customStep (a ++ e :: b) df v m = mapCustom m v e.field := by
  unfold customStep
  rw [lookupNetflow_last a b e _ _ _ he hb]

/-- enterprise-specific elements never reach the standard switch -/
theorem standardStep_enterprise (cfg : Option Config) (version baseTimeNs uptime : Nat) (df : DataField) (v : Bytes) (m : FlowMsg)
    (h : df.penProvided = true) : standardStep cfg version baseTimeNs uptime df v m = .ok m := by
  simp [standardStep, h]

/-- element ids the switch has no case for -/
theorem lookupAction_none_of_gt (version id : Nat) (h : 315 < id) : lookupAction version id = none := by
  have hall : ∀ e ∈ caseTable, ∀ k ∈ e.2.1, k ≤ 315 := by decide
  have hf : ∀ (p : Nat × List Nat × Action → Bool), (∀ e, p e = true → e.2.1.contains id = true) → caseTable.find? p = none := by
    intro p hp
    rw [List.find?_eq_none]
    intro e he hpe
    have hc := hp e hpe
    rw [List.contains_iff_mem] at hc
    have := hall e he id hc
    omega
  unfold lookupAction
  rw [hf _ (by intro e he; simp at he; simp [he.2]), hf _ (by intro e he; simp at he; simp [he.2])]

/-- a statement into a declared custom field whose value MapCustom accepts -/
def CustomOK (f : MapField) (v : Bytes) : Prop :=
  NotMember f.destination ∧ 0 < f.protoIndex ∧ (f.protoType = .string ∨ (f.protoType = .varint ∧ v.length ≤ 8))

instance (f : MapField) (v : Bytes) : Decidable (CustomOK f v) := by unfold CustomOK; infer_instance

/-- a field that only the custom mappings can see: no value at all, or an element the switch has no
    case for (enterprise-specific, or an unknown id) that is unmapped or mapped to a custom field -/
def ElemOK (mapper : List NetflowMapEntry) (version : Nat) (df : DataField) : Prop :=
  ∀ v ∈ df.value,
    (df.penProvided = true ∨ lookupAction version df.type = none) ∧
    ∀ f ∈ lookupNetflow mapper df.penProvided df.pen df.type, CustomOK f v

instance (mapper : List NetflowMapEntry) (version : Nat) (df : DataField) : Decidable (ElemOK mapper version df) := by
  unfold ElemOK; infer_instance

/-- what the field adds to the unknown section -/
def elemEnc (mapper : List NetflowMapEntry) (df : DataField) : Bytes :=
  match df.value, lookupNetflow mapper df.penProvided df.pen df.type with
  | some v, some f => customEnc f v
  | _, _ => []

theorem convertFields_custom (cfg : Config) (version baseTimeNs uptime : Nat) (record : List DataField) (m : FlowMsg)
    (h : ∀ df ∈ record, ElemOK (mapperOf cfg version) version df) :
    convertFields (some cfg) version baseTimeNs uptime record m =
      .ok { m with unk := m.unk ++ record.flatMap (elemEnc (mapperOf cfg version)) } := by
  induction record generalizing m with
  | nil => simp [convertFields]
  | cons df rest ih =>
    have ih' := fun m => ih m (fun d hd => h d (List.mem_cons_of_mem _ hd))
    have hdf := h df List.mem_cons_self
    cases hv : df.value with
    | none =>
      rw [convertFields_cons_none _ _ _ _ _ _ _ hv, ih']
      simp [elemEnc, hv]
    | some v =>
      obtain ⟨hstd, hmap⟩ := hdf v hv
      have hs : ∀ m1, standardStep (some cfg) version baseTimeNs uptime df v m1 = .ok m1 := by
        intro m1
        rcases hstd with hp | hn
        · exact standardStep_enterprise _ _ _ _ _ _ _ hp
        · unfold standardStep; rw [hn]; split <;> rfl
      rw [element_mapping_spec cfg version baseTimeNs uptime df rest m v hv]
      unfold customStep
      cases hl : lookupNetflow (mapperOf cfg version) df.penProvided df.pen df.type with
      | none =>
        simp only [hs]
        rw [ih']
        simp [elemEnc, hv, hl]
      | some f =>
        have hmap := hmap f hl
        simp only [mapCustom_custom m v f hmap.1 hmap.2.1 hmap.2.2, hs]
        rw [ih']
        simp [elemEnc, hv, hl, List.append_assoc]

/-- a record whose elements are all unknown to the standard switch: the unknown section is the
    concatenation, in record order, of the encodings of the mapped values; the columns are those of
    every NetFlow / IPFIX record (type, the default times) -/
theorem custom_record_spec (cfg : Config) (version baseTime uptime : Nat) (record : List DataField)
    (h : ∀ df ∈ record, ElemOK (mapperOf cfg version) version df) :
    convertNetFlowDataSet (some cfg) version baseTime uptime record =
      .ok { FlowMsg.empty with
              timeFlowStartNs := baseTime * 1000000000, timeFlowEndNs := baseTime * 1000000000,
              type_ := if version = 9 then 3 else if version = 10 then 4 else 0,
              unk := record.flatMap (elemEnc (mapperOf cfg version)) } := by
  unfold convertNetFlowDataSet
  simp only
  rw [convertFields_custom cfg version _ uptime record _ h]
  simp [FlowMsg.empty]

/-! ## the test generator's reference (`Gen.C14.effectOf`) in these terms -/

section Generator
open Goflow.Gen.C14 Goflow.Format

theorem decodeEndian_eq (endian : String) (v : Bytes) : decodeEndian endian v = endianVal (endian == "little") v := by
  unfold decodeEndian endianVal
  by_cases h : endian = "little" <;> simp [h]

/-- a declared field: the expected unknown-section bytes are `customEnc` of the finalized statement
    (`finalizeDest`: destination = the declared name, index and wire type of the declaration) -/
theorem effectOf_custom (p : PbField) (t : ProtoType) (endian : String) (v : Bytes) (ht : protoTypeOf p.type = some t) :
    effectOf (customDest p) endian v = .unk (customEnc ⟨p.name, endian == "little", p.index, t, p.array⟩ v) := by
  have hcases : (p.type = "varint" ∧ t = .varint) ∨ (p.type ≠ "varint" ∧ t = .string) := by
    unfold protoTypeOf at ht
    by_cases h2 : p.type = "string" ∨ p.type = "bytes"
    · rw [if_pos h2] at ht
      refine Or.inr ⟨?_, (Option.some.inj ht).symm⟩
      rcases h2 with h | h <;> (rw [h]; decide)
    · rw [if_neg h2] at ht
      by_cases h1 : p.type = "varint"
      · rw [if_pos h1] at ht; exact Or.inl ⟨h1, (Option.some.inj ht).symm⟩
      · rw [if_neg h1] at ht; cases ht
  rcases hcases with ⟨h1, rfl⟩ | ⟨h1, rfl⟩
  · simp [effectOf, customDest, customEnc, h1, decodeEndian_eq]
  · simp [effectOf, customDest, customEnc, h1]

/-- an existing numeric column: the expected column value is the endian value (the generator only
    sends values that fit the column) -/
theorem effectOf_numeric (d : Dest) (endian : String) (v : Bytes) (hp : d.pb = none) (hk : d.kind ≠ "bytes") :
    effectOf d endian v = .col d.goName (toString (endianVal (endian == "little") v)) := by
  unfold effectOf
  simp [hp, hk, decodeEndian_eq]

end Generator

/-! ## 4. the hypotheses are satisfiable: concrete configurations and traffic -/

namespace Examples

def msg0 : FlowMsg := { FlowMsg.empty with unk := [0x08, 0x01], inIf := 7 }

/-- declared fields 1000 (varint) and 1001 (string), the columns InIf / Bytes / NextHop, an undeclared name -/
def fVar : MapField := ⟨"flowid", false, 1000, .varint, false⟩
def fVarLE : MapField := ⟨"flowid", true, 1000, .varint, false⟩
def fStr : MapField := ⟨"vendor_str", false, 1001, .string, false⟩
def fInIf : MapField := ⟨"InIf", false, 0, .none, false⟩
def fBytes : MapField := ⟨"Bytes", true, 0, .none, false⟩
def fHop : MapField := ⟨"NextHop", false, 0, .none, false⟩
def fNone : MapField := ⟨"no_such_field", false, 0, .none, false⟩

example : Sane fVar [1, 2, 3] ∧ Sane fVarLE [1, 2, 3] ∧ Sane fStr [1, 2, 3, 4, 5, 6, 7, 8, 9] ∧ Sane fInIf [1, 2, 3, 4, 5] ∧
    Sane fBytes [1, 2, 3, 4, 5, 6, 7, 8] ∧ Sane fHop [10, 0, 0, 1] ∧ Sane fNone [1] := by decide

example : mapCustom msg0 [1, 2, 3] fVar = .ok { msg0 with unk := [0x08, 0x01] ++ appendTag 1000 0 ++ appendVarint 0x010203 } := by decide
example : mapCustom msg0 [1, 2, 3] fVarLE = .ok { msg0 with unk := [0x08, 0x01] ++ appendTag 1000 0 ++ appendVarint 0x030201 } := by decide
example : mapCustom msg0 [1, 2, 3, 4, 5, 6, 7, 8, 9] fStr =
    .ok { msg0 with unk := [0x08, 0x01] ++ appendTag 1001 2 ++ [9] ++ [1, 2, 3, 4, 5, 6, 7, 8, 9] } := by decide
/-- five bytes into a 32-bit column: the low 32 bits -/
example : mapCustom msg0 [1, 2, 3, 4, 5] fInIf = .ok { msg0 with inIf := 0x02030405 } := by decide
example : mapCustom msg0 [1, 2, 3, 4, 5, 6, 7, 8] fBytes = .ok { msg0 with bytes := 0x0807060504030201 } := by decide
example : mapCustom msg0 [10, 0, 0, 1] fHop = .ok { msg0 with nextHop := [10, 0, 0, 1] } := by decide
example : mapCustom msg0 [1] fNone = .ok msg0 := by decide
/-- outside the hypotheses: nine bytes for a varint field are an error -/
example : ¬ Sane fVar [1, 2, 3, 4, 5, 6, 7, 8, 9] ∧ mapCustom msg0 [1, 2, 3, 4, 5, 6, 7, 8, 9] fVar = .error .bad := by decide

/-- layer statements: two for `ipv4` (one of them only inside an encapsulation), one for the alias `ip`,
    one for `udp` — the IPv4 TTL byte, the protocol byte, and 12 bits from the TTL byte on: the bytes
    `40 01` (the trailing 4 bits right-aligned in a byte of their own), read little-endian -/
def layerCfg : Config :=
  { layers := [⟨"ipv4", false, 64, 8, fVar⟩, ⟨"ipv4", true, 0, 4, fVar⟩, ⟨"udp", false, 0, 16, fStr⟩,
               ⟨"ip", false, 64, 12, fVarLE⟩, ⟨"ipv4", false, 72, 8, fInIf⟩],
    present := true }

/-- an IPv4 header (TTL 0x40, protocol 0x11) behind 2 bytes of something else -/
def frame : Bytes := [0xee, 0xee, 0x45, 0, 0, 28, 0, 1, 0, 0, 0x40, 0x11, 0, 0, 10, 0, 0, 1, 10, 0, 0, 2]

example : ∀ k ∈ Parser.ipv4.keys, ∀ e ∈ lookupLayer layerCfg.layers k, e.encap = false → 0 ≤ e.offset ∧ 0 ≤ e.length := by decide

/-- the selection for the IPv4 layer (keys ipv4, ip, 3), not encapsulated: file order within a key, keys in order -/
example : (Parser.ipv4.keys.flatMap (lookupLayer layerCfg.layers)).filter (fun e => e.encap == false) =
    [⟨"ipv4", false, 64, 8, fVar⟩, ⟨"ipv4", false, 72, 8, fInIf⟩, ⟨"ip", false, 64, 12, fVarLE⟩] := by decide

example : mapLayerKeys layerCfg frame 2 false Parser.ipv4.keys msg0 =
    .ok { msg0 with inIf := 0x11,
                    unk := [0x08, 0x01] ++ appendTag 1000 0 ++ appendVarint 0x40 ++ appendTag 1000 0 ++ appendVarint 0x0140 } := by decide

/-- element statements: id 400 twice (the last one wins), an enterprise element, id 401 into a string field -/
def elemCfg : Config :=
  { ipfix := [⟨false, 0, 400, fStr⟩, ⟨true, 9, 100, fVarLE⟩, ⟨false, 0, 401, fStr⟩, ⟨false, 0, 400, fVar⟩],
    v9 := [⟨false, 0, 400, fStr⟩], present := true }

def record : List DataField :=
  [⟨false, 401, 0, some [0x61, 0x62]⟩, ⟨false, 400, 0, some [1, 2]⟩, ⟨true, 100, 9, some [1, 2]⟩,
   ⟨true, 100, 10, some [5]⟩, ⟨false, 430, 0, some [7, 7]⟩, ⟨false, 402, 0, none⟩, ⟨false, 400, 0, some [3]⟩]

example : ∀ df ∈ record, ElemOK (mapperOf elemCfg 10) 10 df := by decide
example : ∀ df ∈ record, ElemOK (mapperOf elemCfg 9) 9 df := by decide

example : lookupNetflow elemCfg.ipfix false 0 400 = some fVar := by decide

example : convertNetFlowDataSet (some elemCfg) 10 1700000000 0 record =
    .ok { FlowMsg.empty with
            timeFlowStartNs := 1700000000000000000, timeFlowEndNs := 1700000000000000000, type_ := 4,
            unk := appendTag 1001 2 ++ [2, 0x61, 0x62] ++ (appendTag 1000 0 ++ appendVarint 0x0102) ++
                   (appendTag 1000 0 ++ appendVarint 0x0201) ++ (appendTag 1000 0 ++ appendVarint 3) } := by decide

/-- the same record as NetFlow v9: the other list applies (400 into the string field) -/
example : convertNetFlowDataSet (some elemCfg) 9 1700000000 0 record =
    .ok { FlowMsg.empty with
            timeFlowStartNs := 1700000000000000000, timeFlowEndNs := 1700000000000000000, type_ := 3,
            unk := appendTag 1001 2 ++ [2, 1, 2] ++ (appendTag 1001 2 ++ [1, 3]) } := by decide

/-- order of custom mapping and standard conversion on one field: element 10 (ingress interface)
    mapped into the column InIf little-endian is overwritten by the standard big-endian conversion;
    mapped into another column both effects stay -/
example : convertFields (some { ipfix := [⟨false, 0, 10, ⟨"InIf", true, 0, .none, false⟩⟩] }) 10 0 0 [⟨false, 10, 0, some [1, 2]⟩] FlowMsg.empty =
    .ok { FlowMsg.empty with inIf := 0x0102 } := by decide
example : convertFields (some { ipfix := [⟨false, 0, 10, ⟨"OutIf", true, 0, .none, false⟩⟩] }) 10 0 0 [⟨false, 10, 0, some [1, 2]⟩] FlowMsg.empty =
    .ok { FlowMsg.empty with inIf := 0x0102, outIf := 0x0201 } := by decide
/-- an enterprise element with the id of a standard one is not converted by the switch -/
example : convertFields (some {}) 10 0 0 [⟨true, 10, 9, some [1, 2]⟩] FlowMsg.empty = .ok FlowMsg.empty := by decide

end Examples

end Goflow.C14Map
