import Goflow.Spec.Sflow
import Goflow.Producer.Sflow
import Proofs.C04Roundtrip
/-!
  C09 (padding) — the dissector never sees the XDR padding of a raw header record.

  The sFlow decoder keeps the sampled header as it is on the wire, padded to four bytes (`expData`:
  `.raw [p, fl, st, h.length] (h ++ pad h.length)`); the announced length is the fourth word of the record.
  `ParseSampledHeaderConfig` cuts the header data to the announced length before it dissects
  (`if n := int(OriginalLength); n < len(data) { data = data[:n] }`, model: `hd.take (vals.getD 3 0)`), so for every
  encoded raw header record what is dissected is the captured header `h`, byte for byte — a capture cut in the middle of a
  field is not completed with zero bytes.
-/
namespace Goflow.C09Pad
open Goflow Goflow.Sflow Goflow.Spec.Sflow

/-- cutting the padded header to its announced length gives the header back -/
theorem take_append_pad (h : Bytes) : (h ++ pad h.length).take h.length = h := by
  simp

/-- … whatever follows the header -/
theorem take_append_length (h rest : Bytes) : (h ++ rest).take h.length = h := by
  simp

/-- the expected record of an encoded raw header: the dissector is handed the captured header `h` itself -/
theorem expRecord_dissects_capture (cfg : Option Producer.Config) (m : FlowMsg) (p fl st : Nat) (h : Bytes) :
    Producer.applyRecord cfg m (expRecord (.rawHeader p fl st h)) =
      if p = 1 then Producer.parsePacket (cfg.getD {}) { m with bytes := fl } h else .ok { m with bytes := fl } := by
  simp only [Producer.applyRecord, expRecord, expData, List.getD_cons_zero, List.getD_cons_succ, take_append_pad]

/-- the record that the decoder produces for an encoded raw header record with header `h` (its body: the four words
    protocol, frame length, stripped, `h.length`, then `h` XDR-padded to four bytes) is dissected as exactly `h`:
    the frame length goes to `bytes`, and for header protocol 1 (Ethernet) the dissector runs on `h` — not on
    `h ++ pad h.length`, which is what the decoder keeps in `HeaderData` -/
theorem raw_header_dissects_capture (cfg : Option Producer.Config) (m : FlowMsg) (p fl st : Nat) (h : Bytes)
    (hw : C04.RecordFieldsWF (.rawHeader p fl st h)) (len : Nat) :
    ∃ r, decodeFlowRecord 1 len (recBody (.rawHeader p fl st h)) = .ok r ∧
      r.data = .raw [p, fl, st, h.length] (h ++ pad h.length) ∧
      Producer.applyRecord cfg m r =
        if p = 1 then Producer.parsePacket (cfg.getD {}) { m with bytes := fl } h else .ok { m with bytes := fl } := by
  refine ⟨_, C04.rawHeader_roundtrip p fl st h hw len, rfl, ?_⟩
  simp only [Producer.applyRecord, expData, List.getD_cons_zero, List.getD_cons_succ, take_append_pad]

/-- the same for the record handed exactly its body, as the record loop of the decoder does -/
theorem raw_header_record_dissects_capture (cfg : Option Producer.Config) (m : FlowMsg) (p fl st : Nat) (h : Bytes)
    (hw : C04.RecordFieldsWF (.rawHeader p fl st h)) :
    ∃ r, decodeFlowRecord (recFormat (.rawHeader p fl st h)) (recBody (.rawHeader p fl st h)).length
          (recBody (.rawHeader p fl st h)) = .ok r ∧
      Producer.applyRecord cfg m r =
        if p = 1 then Producer.parsePacket (cfg.getD {}) { m with bytes := fl } h else .ok { m with bytes := fl } :=
  ⟨_, C04.flowRecord_roundtrip _ hw, expRecord_dissects_capture cfg m p fl st h⟩

/-- a record that announces less than it carries (a sloppy agent, or a four-byte-aligned capture announced shorter):
    only the announced bytes are dissected -/
theorem short_announced_length (cfg : Option Producer.Config) (m : FlowMsg) (fmt len fl st n : Nat) (hd : Bytes) :
    Producer.applyRecord cfg m ⟨fmt, len, .raw [1, fl, st, n] hd⟩ =
      Producer.parsePacket (cfg.getD {}) { m with bytes := fl } (hd.take n) := by
  simp [Producer.applyRecord]

/-- a record that announces at least what it carries is dissected whole (Go: `n < len(data)` is false) -/
theorem long_announced_length (cfg : Option Producer.Config) (m : FlowMsg) (fmt len fl st n : Nat) (hd : Bytes)
    (hn : hd.length ≤ n) :
    Producer.applyRecord cfg m ⟨fmt, len, .raw [1, fl, st, n] hd⟩ =
      Producer.parsePacket (cfg.getD {}) { m with bytes := fl } hd := by
  simp [Producer.applyRecord, List.take_of_length_le hn]

end Goflow.C09Pad
