import Goflow.Generated.ParsersT
import Proofs.Lemmas.GoPrims
/-!
  C10 (translation tie) — the layer parsers of producer/proto/producer_packet.go, regenerated into Lean on
  every run by extract/translate.go (Goflow/Generated/ParsersT.lean), are equal to the hand-written model
  of Goflow/Producer/Packet.lean: for every message, byte string and parse configuration the translated
  Go body does not panic (no index / slice out of range under its own guards), returns no error, leaves
  its loops within their fuel, and computes exactly the model's result.
  An edit of a parser body in Go changes the definition on the left-hand side; the kernel re-checks the equation.
-/
set_option linter.unusedSimpArgs false
namespace Goflow.C10Trans
open Goflow Goflow.Producer Goflow.Generated Goflow.Go

/-- the rewriting that turns a translated loop-free body into the model's: guards discharge the bounds of every
    index / slice / BigEndian read (side conditions by `omega`), fixed-width arithmetic becomes Nat arithmetic -/
macro "go_simp" " [" ls:Lean.Parser.Tactic.simpLemma,* "]" : tactic =>
  `(tactic| simp (disch := omega) [idx_ok, slice_ok, beU16_sl, beU32_sl, beU64_sl, beU64_pad2, beU32_pad1,
      nextParserEtype_sl, Go.ret, Go.BaseLayer, Go.AddLayer, Go.NextParserProto, Go.NextParserPort,
      be_mod16, be_mod32, be_mod64, u8_lt, be2_lt, be4_lt, be6_lt,
      shr8_toNat, shr32_toNat, and_240_shr_4, and_4080_shr_4, and_1, and_7, and_15, and_63, and_255, and_8191, and_1048575, tooShort, $ls,*])

theorem parseEthernet_eq (m : FlowMsg) (d : Bytes) (pc : PC) : T.ParseEthernet m d pc = .ok (parseEthernet m d pc) := by
  unfold T.ParseEthernet parseEthernet
  by_cases h : d.length < 14
  · go_simp [h]
  · rcases pc with ⟨enc, calls, ports⟩
    cases enc <;> go_simp [h]

theorem parse8021Q_eq (m : FlowMsg) (d : Bytes) (pc : PC) : T.Parse8021Q m d pc = .ok (parse8021Q m d pc) := by
  unfold T.Parse8021Q parse8021Q
  by_cases h : d.length < 4
  · go_simp [h]
  · rcases pc with ⟨enc, calls, ports⟩
    cases enc <;> go_simp [h]

theorem parseIPv4_eq (m : FlowMsg) (d : Bytes) (pc : PC) : T.ParseIPv4 m d pc = .ok (parseIPv4 m d pc) := by
  unfold T.ParseIPv4 parseIPv4
  by_cases h : d.length < 20
  · go_simp [h]
  · rcases pc with ⟨enc, calls, ports⟩
    cases enc <;> go_simp [h]

theorem parseIPv6_eq (m : FlowMsg) (d : Bytes) (pc : PC) : T.ParseIPv6 m d pc = .ok (parseIPv6 m d pc) := by
  unfold T.ParseIPv6 parseIPv6
  by_cases h : d.length < 40
  · go_simp [h]
  · rcases pc with ⟨enc, calls, ports⟩
    cases enc <;> go_simp [h]
    have := be2_lt d 0
    omega

theorem parseIPv6HeaderFragment_eq (m : FlowMsg) (d : Bytes) (pc : PC) :
    T.ParseIPv6HeaderFragment m d pc = .ok (parseIPv6HeaderFragment m d pc) := by
  unfold T.ParseIPv6HeaderFragment parseIPv6HeaderFragment
  by_cases h : d.length < 8
  · go_simp [h]
  · rcases pc with ⟨enc, calls, ports⟩
    cases enc <;> go_simp [h]

theorem parseTCP_eq (m : FlowMsg) (d : Bytes) (pc : PC) : T.ParseTCP m d pc = .ok (parseTCP m d pc) := by
  unfold T.ParseTCP parseTCP
  by_cases h : d.length < 20
  · go_simp [h]
  · rcases pc with ⟨enc, calls, ports⟩
    by_cases hs : u8 d 12 / 16 * 4 < 20
    · have hm : max 20 (u8 d 12 / 16 * 4) = 20 := by omega
      cases enc <;> go_simp [h, hs, hm]
    · have hm : max 20 (u8 d 12 / 16 * 4) = u8 d 12 / 16 * 4 := by omega
      cases enc <;> go_simp [h, hs, hm]

theorem parseUDP_eq (m : FlowMsg) (d : Bytes) (pc : PC) : T.ParseUDP m d pc = .ok (parseUDP m d pc) := by
  unfold T.ParseUDP parseUDP
  by_cases h : d.length < 8
  · go_simp [h]
  · rcases pc with ⟨enc, calls, ports⟩
    cases enc <;> go_simp [h]

theorem parseGRE_eq (m : FlowMsg) (d : Bytes) (pc : PC) : T.ParseGRE m d pc = .ok (parseGRE m d pc) := by
  unfold T.ParseGRE parseGRE
  by_cases h : d.length < 4
  · go_simp [h]
  · go_simp [h]

/-- the `ParserInfo` literals as the model names them -/
theorem parserInfo_eq {name : String} {keys : List String} {p : Parser}
    (hn : parserByName name = some p) (hk : keys = p.keys) : Go.parserInfo name keys = ⟨p, p.keys, false⟩ := by
  simp [Go.parserInfo, hn, hk]

theorem parserIPv6_eq : T.parserIPv6 = ⟨.ipv6, Parser.ipv6.keys, false⟩ :=
  parserInfo_eq (by decide +kernel) (by decide +kernel)

theorem parseTeredoDst_eq (m : FlowMsg) (d : Bytes) (pc : PC) : T.ParseTeredoDst m d pc = .ok (parseTeredoDst m d pc) := by
  unfold T.ParseTeredoDst parseTeredoDst
  go_simp [parserIPv6_eq]

theorem parseGeneve_eq (m : FlowMsg) (d : Bytes) (pc : PC) : T.ParseGeneve m d pc = .ok (parseGeneve m d pc) := by
  unfold T.ParseGeneve parseGeneve
  by_cases h : d.length < 8
  · go_simp [h]
  · go_simp [h]

theorem parseICMP_eq (m : FlowMsg) (d : Bytes) (pc : PC) : T.ParseICMP m d pc = .ok (parseICMP m d pc) := by
  unfold T.ParseICMP parseICMP
  by_cases h : d.length < 2
  · go_simp [h]
  · by_cases hc : pc.calls = 0 <;> go_simp [h, hc]

theorem parseICMPv6_eq (m : FlowMsg) (d : Bytes) (pc : PC) : T.ParseICMPv6 m d pc = .ok (parseICMPv6 m d pc) := by
  unfold T.ParseICMPv6 parseICMPv6
  by_cases h : d.length < 2
  · go_simp [h]
  · by_cases hc : pc.calls = 0 <;> go_simp [h, hc]

/-! ### ParseIPv6HeaderRouting: the segment-list loop -/

/-- the loop-carried `offset`, `entry` when the segment loop of ParseIPv6HeaderRouting ends (dead after the loop) -/
def srv6End (d : Bytes) (size lastEntry : Nat) : Nat → Nat → Nat → Nat × Nat
  | 0, off, entry => (off, entry)
  | fuel + 1, off, entry =>
    if 8 + off < size ∧ 8 + off + 16 ≤ d.length ∧ entry ≤ lastEntry then srv6End d size lastEntry fuel (off + 16) (entry + 1)
    else (off, entry)

theorem srv6_loop (d : Bytes) (res : Go.ParseResult) (le : UInt8) :
    ∀ (f f' : Nat) (m : FlowMsg) (off entry : Nat),
      d.length < 8 + off + 16 + 16 * f → d.length < 8 + off + 16 * f' →
      T.ParseIPv6HeaderRouting_loop1 d res le (f + 1) m off entry =
        .ok ({ m with ipv6RoutingHeaderAddresses :=
                srv6Loop d res.Size le.toNat f' off entry m.ipv6RoutingHeaderAddresses },
             srv6End d res.Size le.toNat f' off entry) := by
  intro f
  induction f with
  | zero =>
    intro f' m off entry h1 h2
    have hc : ¬ (8 + off + 16 ≤ d.length) := by omega
    rw [T.ParseIPv6HeaderRouting_loop1]
    cases f' <;> simp [srv6Loop, srv6End, hc]
  | succ f ih =>
    intro f' m off entry h1 h2
    by_cases hc : (8 + off < res.Size ∧ 8 + off + 16 ≤ d.length) ∧ entry ≤ le.toNat
    · cases f' with
      | zero => omega
      | succ f' =>
        have h := ih f' { m with ipv6RoutingHeaderAddresses := m.ipv6RoutingHeaderAddresses ++ [sl d (8 + off) (8 + off + 16)] }
          (off + 16) (entry + 1) (by omega) (by omega)
        rw [T.ParseIPv6HeaderRouting_loop1]
        have hc' : 8 + off < res.Size ∧ 8 + off + 16 ≤ d.length ∧ entry ≤ le.toNat := ⟨hc.1.1, hc.1.2, hc.2⟩
        simp (disch := omega) [hc, hc', slice_ok, srv6Loop, srv6End, h]
    · rw [T.ParseIPv6HeaderRouting_loop1]
      have hc' : ¬ (8 + off < res.Size ∧ 8 + off + 16 ≤ d.length ∧ entry ≤ le.toNat) := fun h => hc ⟨⟨h.1, h.2.1⟩, h.2.2⟩
      cases f' <;> simp [srv6Loop, srv6End, hc, hc']

theorem parseIPv6HeaderRouting_eq (m : FlowMsg) (d : Bytes) (pc : PC) :
    T.ParseIPv6HeaderRouting m d pc = .ok (parseIPv6HeaderRouting m d pc) := by
  unfold T.ParseIPv6HeaderRouting parseIPv6HeaderRouting
  by_cases h : d.length < 8
  · go_simp [h]
  · have key := fun res le m => srv6_loop d res le d.length (d.length / 16 + 1) m 0 0 (by omega) (by omega)
    rcases pc with ⟨enc, calls, ports⟩
    cases enc
    · by_cases h4 : u8 d 2 = 4
      · go_simp [h, h4, Go.loopFuel, key, ofNat_u8_eq]
      · go_simp [h, h4, Go.loopFuel, key, ofNat_u8_eq]
    · go_simp [h]

/-! ### ParseMPLS: the label-stack loop -/

def mLabel (d : Bytes) (off : Nat) : UInt32 := Go.shr32 (UInt32.ofNat (be d off 3)) 4
def mTtl (d : Bytes) (off : Nat) : UInt32 := (UInt8.ofNat (u8 d (off + 3))).toUInt32
def mPeek (d : Bytes) (o : Nat) : Bytes :=
  if d.length > o then (if u8 d o / 16 = 4 then [8, 0] else if u8 d o / 16 = 6 then [0x86, 0xdd] else []) else []

theorem mpls_step (d : Bytes) (n off : Nat) (ls ts : List UInt32) (h : off + 4 ≤ d.length) :
    T.ParseMPLS_loop1 d (n + 1) [] ls ts true off =
      if (u8 d (off + 2) % 2 = 1 ∨ be d off 3 / 16 ≤ 15 ∨ off + 4 > d.length) then
        T.ParseMPLS_loop1 d n (mPeek d (off + 4)) (ls ++ [mLabel d off]) (ts ++ [mTtl d off]) false (off + 4)
      else T.ParseMPLS_loop1 d n [] (ls ++ [mLabel d off]) (ts ++ [mTtl d off]) true (off + 4) := by
  rw [T.ParseMPLS_loop1]
  have hA : ¬ d.length < off + 4 := by omega
  by_cases hP : off + 4 < d.length
  · by_cases h4 : u8 d (off + 4) / 16 = 4
    · simp (disch := omega) [hA, hP, h4, idx_ok, slice_ok, beU32_pad1, u8_and1_eq, shr8_and240_eq, shr32_be3_le, mLabel, mTtl, mPeek]
    · by_cases h6 : u8 d (off + 4) / 16 = 6
      · simp (disch := omega) [hA, hP, h4, h6, idx_ok, slice_ok, beU32_pad1, u8_and1_eq, shr8_and240_eq, shr32_be3_le, mLabel, mTtl, mPeek]
      · simp (disch := omega) [hA, hP, h4, h6, idx_ok, slice_ok, beU32_pad1, u8_and1_eq, shr8_and240_eq, shr32_be3_le, mLabel, mTtl, mPeek]
  · simp (disch := omega) [hA, hP, idx_ok, slice_ok, beU32_pad1, u8_and1_eq, shr8_and240_eq, shr32_be3_le, mLabel, mTtl, mPeek]

theorem mpls_stop (d : Bytes) (n off : Nat) (e : Bytes) (ls ts : List UInt32) :
    T.ParseMPLS_loop1 d (n + 1) e ls ts false off = .ok (e, ls, ts, false, off) := by
  rw [T.ParseMPLS_loop1]; simp

theorem mpls_short (d : Bytes) (n off : Nat) (e : Bytes) (ls ts : List UInt32) (h : d.length < off + 4) :
    T.ParseMPLS_loop1 d (n + 1) e ls ts true off = .ok (e, ls, ts, true, off) := by
  rw [T.ParseMPLS_loop1]; simp [h]

def etBytes : Option (Nat × Nat) → Bytes
  | none => []
  | some (a, b) => [UInt8.ofNat a, UInt8.ofNat b]

theorem mLabel_toNat (d : Bytes) (off : Nat) : (mLabel d off).toNat = be d off 3 / 16 := by
  rw [mLabel, shr32_toNat, toNat_ofNat_be32 d off (by omega)]
theorem mTtl_toNat (d : Bytes) (off : Nat) : (mTtl d off).toNat = u8 d (off + 3) := by
  simp [mTtl]


def mPeekO (d : Bytes) (o : Nat) : Option (Nat × Nat) :=
  if d.length > o then (if u8 d o / 16 = 4 then some (0x08, 0x00) else if u8 d o / 16 = 6 then some (0x86, 0xdd) else none) else none

theorem etBytes_mPeekO (d : Bytes) (o : Nat) : etBytes (mPeekO d o) = mPeek d o := by
  unfold mPeekO mPeek
  by_cases h : d.length > o <;> by_cases h4 : u8 d o / 16 = 4 <;> by_cases h6 : u8 d o / 16 = 6 <;> simp [h, h4, h6, etBytes]

theorem mPeekO_cases (d : Bytes) (o : Nat) : mPeekO d o = none ∨ mPeekO d o = some (8, 0) ∨ mPeekO d o = some (134, 221) := by
  unfold mPeekO
  by_cases h : d.length > o <;> by_cases h4 : u8 d o / 16 = 4 <;> by_cases h6 : u8 d o / 16 = 6 <;> simp [h, h4, h6]

theorem mplsLoop_step (d : Bytes) (f' off : Nat) (ls ts : List Nat) (h : off + 4 ≤ d.length) :
    mplsLoop d (f' + 1) off ls ts =
      if (u8 d (off + 2) % 2 = 1 ∨ be d off 3 / 16 ≤ 15 ∨ off + 4 > d.length) then
        (ls ++ [be d off 3 / 16], ts ++ [u8 d (off + 3)], off + 4, mPeekO d (off + 4))
      else mplsLoop d f' (off + 4) (ls ++ [be d off 3 / 16]) (ts ++ [u8 d (off + 3)]) := by
  rw [mplsLoop, if_neg (by omega)]
  rfl

theorem mplsLoop_short (d : Bytes) (f' off : Nat) (ls ts : List Nat) (h : d.length < off + 4) :
    mplsLoop d f' off ls ts = (ls, ts, off, none) := by
  cases f' <;> simp [mplsLoop, h]

theorem mpls_loop (d : Bytes) : ∀ (n f' off : Nat) (ls ts : List UInt32),
    d.length < off + 4 * n + 4 → d.length < off + 4 * f' + 4 →
    ∃ (L Tt : List UInt32) (it : Bool),
      T.ParseMPLS_loop1 d (n + 1) [] ls ts true off =
        .ok (etBytes (mplsLoop d f' off (ls.map UInt32.toNat) (ts.map UInt32.toNat)).2.2.2, L, Tt, it,
             (mplsLoop d f' off (ls.map UInt32.toNat) (ts.map UInt32.toNat)).2.2.1) ∧
      L.map UInt32.toNat = (mplsLoop d f' off (ls.map UInt32.toNat) (ts.map UInt32.toNat)).1 ∧
      Tt.map UInt32.toNat = (mplsLoop d f' off (ls.map UInt32.toNat) (ts.map UInt32.toNat)).2.1 ∧
      ((mplsLoop d f' off (ls.map UInt32.toNat) (ts.map UInt32.toNat)).2.2.2 = none ∨
       (mplsLoop d f' off (ls.map UInt32.toNat) (ts.map UInt32.toNat)).2.2.2 = some (8, 0) ∨
       (mplsLoop d f' off (ls.map UInt32.toNat) (ts.map UInt32.toNat)).2.2.2 = some (134, 221)) := by
  intro n
  induction n with
  | zero =>
    intro f' off ls ts h1 h2
    have hA : d.length < off + 4 := by omega
    exact ⟨ls, ts, true, by simp [mpls_short, mplsLoop_short, hA, etBytes]⟩
  | succ n ih =>
    intro f' off ls ts h1 h2
    by_cases hA : d.length < off + 4
    · exact ⟨ls, ts, true, by simp [mpls_short, mplsLoop_short, hA, etBytes]⟩
    · cases f' with
      | zero => omega
      | succ f' =>
        by_cases hB : (u8 d (off + 2) % 2 = 1 ∨ be d off 3 / 16 ≤ 15 ∨ off + 4 > d.length)
        · refine ⟨ls ++ [mLabel d off], ts ++ [mTtl d off], false, ?_⟩
          rw [mpls_step d (n + 1) off ls ts (by omega), if_pos hB, mpls_stop, mplsLoop_step d f' off _ _ (by omega), if_pos hB]
          simp [etBytes_mPeekO, mLabel_toNat, mTtl_toNat, mPeekO_cases]
        · obtain ⟨L, Tt, it, e1, e2, e3, e4⟩ := ih f' (off + 4) (ls ++ [mLabel d off]) (ts ++ [mTtl d off]) (by omega) (by omega)
          refine ⟨L, Tt, it, ?_⟩
          rw [mpls_step d (n + 1) off ls ts (by omega), if_neg hB, mplsLoop_step d f' off _ _ (by omega), if_neg hB]
          simp only [List.map_append, List.map_cons, List.map_nil, mLabel_toNat, mTtl_toNat] at e1 e2 e3 e4
          exact ⟨e1, e2, e3, e4⟩

theorem parseMPLS_eq (m : FlowMsg) (d : Bytes) (pc : PC) : T.ParseMPLS m d pc = .ok (parseMPLS m d pc) := by
  unfold T.ParseMPLS parseMPLS
  by_cases h : d.length < 4
  · go_simp [h]
  · obtain ⟨L, Tt, it, e1, e2, e3, e4⟩ := mpls_loop d d.length (d.length / 4 + 1) 0 [] [] (by omega) (by omega)
    simp only [List.map_nil] at e1 e2 e3 e4
    generalize mplsLoop d (d.length / 4 + 1) 0 [] [] = r at e1 e2 e3 e4
    rcases r with ⟨ls, ts, off, et⟩
    simp only at e1 e2 e3 e4
    rcases pc with ⟨enc, calls, ports⟩
    rcases e4 with rfl | rfl | rfl <;> cases enc <;>
      go_simp [h, Go.loopFuel, e1, e2, e3, etBytes, Go.beU16, Go.NextParserEtype, beNat]

/-! ### the ParserInfo literals and the dispatchers NextParserEtype / NextParserProto -/

theorem parserNone_eq : T.parserNone = ⟨.none, [], false⟩ := by
  have : parserByName "none" = none := by decide +kernel
  simp [T.parserNone, Go.parserInfo, this]
theorem parserEthernet_eq : T.parserEthernet = ⟨.ethernet, Parser.ethernet.keys, false⟩ := parserInfo_eq (by decide +kernel) (by decide +kernel)
theorem parser8021Q_eq : T.parser8021Q = ⟨.dot1q, Parser.dot1q.keys, false⟩ := parserInfo_eq (by decide +kernel) (by decide +kernel)
theorem parserMPLS_eq : T.parserMPLS = ⟨.mpls, Parser.mpls.keys, false⟩ := parserInfo_eq (by decide +kernel) (by decide +kernel)
theorem parserIPv4_eq : T.parserIPv4 = ⟨.ipv4, Parser.ipv4.keys, false⟩ := parserInfo_eq (by decide +kernel) (by decide +kernel)
theorem parserIPv6HeaderRouting_eq : T.parserIPv6HeaderRouting = ⟨.ipv6route, Parser.ipv6route.keys, false⟩ := parserInfo_eq (by decide +kernel) (by decide +kernel)
theorem parserIPv6HeaderFragment_eq : T.parserIPv6HeaderFragment = ⟨.ipv6frag, Parser.ipv6frag.keys, false⟩ := parserInfo_eq (by decide +kernel) (by decide +kernel)
theorem parserTCP_eq : T.parserTCP = ⟨.tcp, Parser.tcp.keys, false⟩ := parserInfo_eq (by decide +kernel) (by decide +kernel)
theorem parserUDP_eq : T.parserUDP = ⟨.udp, Parser.udp.keys, false⟩ := parserInfo_eq (by decide +kernel) (by decide +kernel)
theorem parserICMP_eq : T.parserICMP = ⟨.icmp, Parser.icmp.keys, false⟩ := parserInfo_eq (by decide +kernel) (by decide +kernel)
theorem parserICMPv6_eq : T.parserICMPv6 = ⟨.icmpv6, Parser.icmpv6.keys, false⟩ := parserInfo_eq (by decide +kernel) (by decide +kernel)
theorem parserGRE_eq : T.parserGRE = ⟨.gre, Parser.gre.keys, false⟩ := parserInfo_eq (by decide +kernel) (by decide +kernel)
theorem parserTeredoDst_eq : T.parserTeredoDst = ⟨.teredo, Parser.teredo.keys, false⟩ := parserInfo_eq (by decide +kernel) (by decide +kernel)
theorem parserGeneve_eq : T.parserGeneve = ⟨.geneve, Parser.geneve.keys, false⟩ := parserInfo_eq (by decide +kernel) (by decide +kernel)

theorem nextParserProto_eq (pc : PC) (b : UInt8) : T.NextParserProto b = Go.NextParserProto pc b := by
  unfold T.NextParserProto T.innerNextParserProto Go.NextParserProto nextParserProto
  simp only [Go.customProtoLoad, u8_eq_iff b]
  generalize b.toNat = n
  simp [parserNone_eq, parserIPv4_eq, parserIPv6_eq, parserIPv6HeaderRouting_eq, parserIPv6HeaderFragment_eq, parserTCP_eq, parserUDP_eq,
    parserICMP_eq, parserICMPv6_eq, parserGRE_eq, Go.fmtD]
  have hk : Parser.none.keys = [] := rfl
  by_cases h1 : n = 1; · simp [h1]
  by_cases h4 : n = 4; · simp [h4]
  by_cases h6 : n = 6; · simp [h6]
  by_cases h17 : n = 17; · simp [h17]
  by_cases h41 : n = 41; · simp [h41]
  by_cases h43 : n = 43; · simp [h43]
  by_cases h44 : n = 44; · simp [h44]
  by_cases h47 : n = 47; · simp [h47]
  by_cases h58 : n = 58; · simp [h58]
  simp [h1, h4, h6, h17, h41, h43, h44, h47, h58, hk]

theorem nextParserEtype_eq (pc : PC) (e : Bytes) : T.NextParserEtype e = Go.NextParserEtype pc e := by
  unfold T.NextParserEtype T.innerNextParserEtype
  match e with
  | [] => simp [Go.NextParserEtype, Go.idx]
  | [_] => simp [Go.NextParserEtype, Go.idx]
  | a :: b :: c :: r => simp [Go.NextParserEtype, Go.idx, parserNone_eq, etype_or, Go.fmtD, Go.fmtX4]
  | [a, b] =>
    simp only [u16_eq_iff (Go.shl16 _ 8 ||| _)]
    simp [Go.NextParserEtype, Go.idx, parserNone_eq, etype_or, etype_toNat, Go.fmtD, Go.fmtX4, Go.customEtypeLoad, nextParserEtype,
      parserEthernet_eq, parser8021Q_eq, parserMPLS_eq, parserIPv4_eq, parserIPv6_eq]
    generalize a.toNat * 256 + b.toNat = n
    have hk : Parser.none.keys = [] := rfl
    by_cases h1 : n = 6558; · simp [h1]
    by_cases h2 : n = 25944; · simp [h2]
    by_cases h3 : n = 34887; · simp [h3]
    by_cases h4 : n = 33024; · simp [h4]
    by_cases h5 : n = 2048; · simp [h5]
    by_cases h6 : n = 34525; · simp [h6]
    simp [h1, h2, h3, h4, h5, h6, hk]

/-- every parser of the table: the regenerated Go body is the model's `runParser` -/
theorem translated_parsers_eq (m : FlowMsg) (d : Bytes) (pc : PC) :
    T.ParseEthernet m d pc = .ok (runParser .ethernet m d pc) ∧
    T.Parse8021Q m d pc = .ok (runParser .dot1q m d pc) ∧
    T.ParseMPLS m d pc = .ok (runParser .mpls m d pc) ∧
    T.ParseIPv4 m d pc = .ok (runParser .ipv4 m d pc) ∧
    T.ParseIPv6 m d pc = .ok (runParser .ipv6 m d pc) ∧
    T.ParseIPv6HeaderRouting m d pc = .ok (runParser .ipv6route m d pc) ∧
    T.ParseIPv6HeaderFragment m d pc = .ok (runParser .ipv6frag m d pc) ∧
    T.ParseTCP m d pc = .ok (runParser .tcp m d pc) ∧
    T.ParseUDP m d pc = .ok (runParser .udp m d pc) ∧
    T.ParseICMP m d pc = .ok (runParser .icmp m d pc) ∧
    T.ParseICMPv6 m d pc = .ok (runParser .icmpv6 m d pc) ∧
    T.ParseGRE m d pc = .ok (runParser .gre m d pc) ∧
    T.ParseTeredoDst m d pc = .ok (runParser .teredo m d pc) ∧
    T.ParseGeneve m d pc = .ok (runParser .geneve m d pc) :=
  ⟨parseEthernet_eq m d pc, parse8021Q_eq m d pc, parseMPLS_eq m d pc, parseIPv4_eq m d pc, parseIPv6_eq m d pc,
   parseIPv6HeaderRouting_eq m d pc, parseIPv6HeaderFragment_eq m d pc, parseTCP_eq m d pc, parseUDP_eq m d pc,
   parseICMP_eq m d pc, parseICMPv6_eq m d pc, parseGRE_eq m d pc, parseTeredoDst_eq m d pc, parseGeneve_eq m d pc⟩

end Goflow.C10Trans
