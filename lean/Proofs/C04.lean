import Goflow.Spec.Sflow
