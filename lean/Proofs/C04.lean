import Goflow.Spec.Sflow
import Proofs.Lemmas.Fields
/-!
  C04 — sFlow v5 wire decoding is exact.
-/
namespace Goflow.C04
open Goflow Goflow.Sflow Goflow.Spec.Sflow

private theorem pad_length (n : Nat) : (pad n).length = padLen n := by simp [pad]

/-- XDR strings / opaques: length, bytes and the padding to a multiple of four are consumed, so the
    field that follows is read from the right place -/
theorem xdrString_roundtrip (d rest : Bytes) (h : d.length < 2 ^ 32) :
    readString (xdrOpaque d ++ rest) = .ok (d, rest) := by
  unfold readString xdrOpaque u32
  simp only [List.append_assoc]
  rw [readU_enc _ (by simpa using h)]
  simp only
  rw [takeN_append d _ rfl]
  simp only
  congr 2
  have : (4 - d.length % 4) % 4 = (pad d.length).length := by simp [pad, padLen]
  rw [this]
  simp

/-- an agent / next-hop address (type + 4 or 16 bytes) -/
theorem ip_roundtrip (ip rest : Bytes) (h : ip.length = 4 ∨ ip.length = 16) :
    decodeIP (xdrAddr ip ++ rest) = .ok (ipv ip, ip, rest) := by
  unfold decodeIP xdrAddr u32 ipv
  rcases h with h | h
  · simp only [h, if_true, List.append_assoc]
    rw [readU_enc _ (by decide)]
    simp [h]
  · have : ¬ ip.length = 4 := by omega
    simp only [this, if_false, List.append_assoc]
    rw [readU_enc _ (by decide)]
    simp [h]

/-- Records of unknown type are skipped by their declared length: the loop hands exactly `len`
    bytes to the record decoder and continues behind them, so the records that follow decode as if
    the unknown one were not there. -/
theorem unknown_record_skipped {α} (dec : Nat → Nat → Bytes → Res α) (n fmt : Nat) (body rest : Bytes)
    (hf : fmt < 2 ^ 32) (hl : body.length < 2 ^ 32) (r : α) (hdec : dec fmt body.length body = .ok r) :
    recordLoop dec (n + 1) (u32 fmt ++ u32 body.length ++ body ++ rest) =
      match recordLoop dec n rest with
      | .error e => .error e
      | .ok rs => .ok (r :: rs) := by
  conv => lhs; unfold recordLoop
  have hlen : 8 ≤ (u32 fmt ++ u32 body.length ++ body ++ rest).length := by simp [u32]; omega
  simp only [hlen, if_true]
  have hfit : Fits [4, 4] [fmt, body.length] := by simp only [Fits, Nat.reducePow, and_true] at *; omega
  have := readFields_enc [4, 4] [fmt, body.length] (body ++ rest) hfit
  simp only [encFields, List.append_nil, List.append_assoc] at this
  simp only [u32, List.append_assoc]
  rw [this]
  have hle : ¬ body.length > (body ++ rest).length := by simp
  simp only [hle, if_false]
  simp only [List.take_left', List.drop_left', hdec]
  rfl

/-- the unknown flow-record formats decode to a raw record holding exactly the declared bytes -/
theorem unknown_flow_record (fmt len : Nat) (b : Bytes)
    (h : fmt ∉ [1, 2, 3, 4, 1001, 1002, 1003, 1036, 1037, 1038]) :
    decodeFlowRecord fmt len b = .ok ⟨fmt, len, .unknown b⟩ := by
  simp only [List.mem_cons, List.not_mem_nil, or_false, not_or] at h
  obtain ⟨h1, h2, h3, h4, h5, h6, h7, h8, h9, h10⟩ := h
  unfold decodeFlowRecord layoutOf
  simp [h1, h2, h3, h4, h5, h6, h7, h8, h9, h10]

end Goflow.C04
