import Goflow.Pipe
import Goflow.Generated.Commit
/-!
  C12 — the messages of a datagram go back to the pool exactly once.

  The pool model (Goflow/Pool.lean, Proofs/C12Pool.lean) puts the messages of a datagram back in one step when
  DecodeFlow is over (`put` after `take`s), whatever the outcome: production failed half-way, the format or the
  transport refused a message, everything was sent. A message put back twice would be handed out to two records
  at once later on (a seeded change of round 8 did that on the path where the format refuses a message), which
  the pool model cannot express. `commit_once` ties that shape to the source: the only calls of `Commit` outside
  the wrapper that forwards it are the two `defer p.producer.Commit(flowMessageSet)` placed right behind the
  production step of the two pipes, outside every loop and function literal — a deferred call runs once on every
  way out of the function.

  `refuseAt_*`: what a refusal by the format or transport changes in the model of DecodeFlow — the delivered
  messages become a prefix, the state is what production left (the differential run covers it with `failat`).
-/
namespace Goflow.C12Commit
open Goflow Goflow.Pipe

open Goflow.Generated in
theorem commit_once :
    commitSites.map (fun s => (s.1, s.2.1, s.2.2.1, s.2.2.2.1, s.2.2.2.2.1)) =
      [("utils/pipe.go:SFlowPipe.DecodeFlow", "p.producer.Commit(flowMessageSet)", true, 0, 0),
       ("utils/pipe.go:NetFlowPipe.DecodeFlow", "p.producer.Commit(flowMessageSet)", true, 0, 0),
       ("utils/debug/producer.go:PanicProducerWrapper.Commit", "p.wrapped.Commit(flowMessageSet)", false, 0, 0)] ∧
    (commitSites.take 2).map (fun s => ("flowMessageSet, err := p.producer.Produce(".toList.isPrefixOf s.2.2.2.2.2.toList,
        "switch version { case 5: flowMessageSet, err = p.producer.Produce(".toList.isPrefixOf s.2.2.2.2.2.toList)) =
      [(true, false), (false, true)] := by
  decide +kernel

theorem refuseAt_state (k : Nat) (o : Out) : (refuseAt k o).state = o.state := by
  unfold refuseAt; split <;> rfl

theorem refuseAt_prefix (k : Nat) (o : Out) : (refuseAt k o).msgs <+: o.msgs := by
  unfold refuseAt; split
  · exact List.take_prefix _ _
  · exact List.prefix_refl _

theorem refuseAt_zero (o : Out) : refuseAt 0 o = o := by
  unfold refuseAt; simp

theorem refuseAt_refused (k : Nat) (o : Out) (h1 : 1 ≤ k) (h2 : k ≤ o.msgs.length) :
    (refuseAt k o).msgs.length = k - 1 ∧ (refuseAt k o).err = some .bad := by
  unfold refuseAt; simp [h1, h2]; omega

end Goflow.C12Commit
