import Goflow.Pipe
import Proofs.C05
import Proofs.Lemmas.Netflow
/-!
  C07 — One flow message per flow record, in order; none lost, duplicated or invented.
-/
namespace Goflow.C07
open Goflow Goflow.Producer

/-- NetFlow v5: exactly one message per decoded record, in record order -/
theorem produce_order_v5 (p : V5.Packet) :
    processLegacy p = p.records.map (fun r =>
      { convertLegacyRecord (p.header.unixSecs * 1000000000 + p.header.unixNSecs) p.header.sysUptime r with
        sequenceNum := p.header.flowSequence, samplingRate := p.header.samplingInterval % 16384 }) := by
  simp [processLegacy, List.map_map, Function.comp_def]

theorem produce_length_v5 (p : V5.Packet) : (processLegacy p).length = p.records.length := by
  simp [processLegacy]

/-- NetFlow v5, any bytes: never more messages than complete 48-byte records lie behind the 24-byte header -/
theorem count_any_bytes_v5 (b : Bytes) (p : V5.Packet) (h : V5.decodeMessageVersion b = .ok p) :
    24 + 48 * (processLegacy p).length ≤ b.length := by
  rw [produce_length_v5]
  exact (C05.records_le_present b p h).1

private theorem convertRecords_length (cfg : Option Config) (v bt up : Nat) (rs : List Netflow.DataRecord) (ms : List FlowMsg)
    (h : convertRecords cfg v bt up rs = .ok ms) : ms.length = rs.length := by
  induction rs generalizing ms with
  | nil => simp [convertRecords] at h; subst h; rfl
  | cons r rs ih =>
    unfold convertRecords at h
    split at h
    · cases h
    · split at h
      · cases h
      · rename_i ms' hms
        cases h
        simp [ih _ hms]

/-- NetFlow v9 / IPFIX: when production succeeds there is exactly one message per data record of the
    data sets (templates, options templates, options data and raw sets contribute none) -/
theorem produce_length_netflow (cfg : Option Config) (p : Netflow.Packet) (rates : Rates)
    (h : (processNetflow cfg p rates).err = none) :
    (processNetflow cfg p rates).msgs.length = (dataRecordsOf p.flowSets).length := by
  unfold processNetflow at h ⊢
  cases hm : convertRecords cfg p.version p.baseTime p.uptime (dataRecordsOf p.flowSets) with
  | error e => simp [hm] at h
  | ok msgs =>
    cases hf : searchSamplingRate (optionRecordsOf p.flowSets) with
    | error e => simp [hm, hf] at h
    | ok found =>
      simp only [List.length_map]
      exact convertRecords_length _ _ _ _ _ _ hm

/-- v9 / IPFIX, any bytes: a data set never decodes to more records than complete records are
    physically present in its payload (record size > 0 is enforced by the decoder) -/
theorem count_any_bytes_netflow (fs : List Netflow.Field) (fuel : Nat) (b : Bytes) (rs : List Netflow.DataRecord)
    (h : Netflow.decodeDataSet fs fuel b = .ok rs) :
    0 < Netflow.templateSize fs ∧ rs.length * Netflow.templateSize fs ≤ b.length := by
  unfold Netflow.decodeDataSet at h
  split at h
  · cases h
  · rename_i hz
    exact ⟨Nat.pos_of_ne_zero hz, Netflow.decodeDataSetLoop_bound _ _ _ _ h⟩

private theorem convertSamples_length (cfg : Option Config) (ss : List Sflow.Sample) (ms : List FlowMsg)
    (h : convertSamples cfg ss = .ok ms) :
    ms.length = (ss.filter fun s => match s with | .flow .. => true | .expFlow .. => true | _ => false).length := by
  induction ss generalizing ms with
  | nil => simp [convertSamples] at h; subst h; rfl
  | cons s ss ih =>
    unfold convertSamples at h
    cases s with
    | flow hd vals recs =>
      simp only [convertSample] at h
      generalize applyRecords cfg recs _ = r at h
      cases r with
      | error e => simp at h
      | ok m =>
        cases hss : convertSamples cfg ss with
        | error e => simp [hss] at h
        | ok ms' => simp [hss] at h; subst h; simp [ih _ hss]
    | expFlow hd vals recs =>
      simp only [convertSample] at h
      generalize applyRecords cfg recs _ = r at h
      cases r with
      | error e => simp at h
      | ok m =>
        cases hss : convertSamples cfg ss with
        | error e => simp [hss] at h
        | ok ms' => simp [hss] at h; subst h; simp [ih _ hss]
    | counter hd c recs => simp only [convertSample] at h; simp [ih _ h]
    | drop hd vals recs => simp only [convertSample] at h; simp [ih _ h]
    | none => simp only [convertSample] at h; simp [ih _ h]

/-- sFlow: one message per flow / expanded flow sample; counter samples, drop samples and empty
    slots contribute none -/
theorem produce_length_sflow (cfg : Option Config) (p : Sflow.Packet) (ms : List FlowMsg)
    (h : processSflow cfg p = .ok ms) :
    ms.length = (p.samples.filter fun s => match s with | .flow .. => true | .expFlow .. => true | _ => false).length := by
  unfold processSflow at h
  cases hms : convertSamples cfg p.samples with
  | error e => simp [hms] at h
  | ok ms' =>
    simp [hms] at h
    subst h
    simp [convertSamples_length _ _ _ hms]

/-- the pipe emits nothing when the datagram fails to decode or to convert (no partial, no invented output) -/
theorem no_output_on_fatal_error (cfg : Config) (st : Pipe.State) (src : Pipe.Src) (recv : Nat) (d : Bytes)
    (e : Err) (he : (Pipe.netflowPipe cfg st src recv d).err = some e) (hne : e ≠ .tnf) :
    (Pipe.netflowPipe cfg st src recv d).msgs = [] := by
  revert he
  unfold Pipe.netflowPipe
  simp only
  cases hrd : readU 2 d with
  | error e' => intro _; rfl
  | ok vb =>
    obtain ⟨version, b⟩ := vb
    simp only
    by_cases h5 : version = 5
    · simp only [h5, if_true]
      cases V5.decodeMessage b with
      | error e' => intro _; rfl
      | ok p => intro he; simp at he
    · simp only [h5, if_false]
      by_cases h910 : version = 9 ∨ version = 10
      · simp only [h910, if_true]
        generalize (if version = 9 then Netflow.decodeMessageNetFlow (st.templatesOf src) b
          else Netflow.decodeMessageIPFIX (st.templatesOf src) b) = o
        cases ho : o.err with
        | some e' => intro _; rfl
        | none =>
          simp only
          generalize processNetflow _ _ _ = r
          cases hr : r.err with
          | some e' => intro _; rfl
          | none =>
            simp only
            intro he
            split at he
            · simp at he; exact absurd he.symm hne
            · simp at he
      · simp [h910]

end Goflow.C07
