import Goflow.Spec.SflowMap
