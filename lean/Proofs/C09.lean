import Goflow.Generated.Conversions
import Goflow.Producer.SourceSnapshot
import Goflow.Spec.SflowMap
import Goflow.Producer.Sflow
import Goflow.Pipe
/-!
  C09 — sFlow samples map to the flow message as documented.
  The producer's conversion of the *decoded* sample (model of producer_sf.go applied to what C04
  says the decoder returns) equals the reference mapping written from the abstract sample.
-/
namespace Goflow.C09
open Goflow Goflow.Spec.Sflow Goflow.Spec.SflowMap

/-- records that do not carry a raw Ethernet header (those are C10's subject) -/
def NoEthernetHeader (r : SRecord) : Prop :=
  match r with
  | .rawHeader p _ _ _ => p ≠ 1
  | _ => True

/-- one record: every record type of the property, and "records of other header protocols leave the
    message otherwise intact" (only `bytes` = sampled frame length is set) -/
theorem record_eq_ref (cfg : Option Producer.Config) (m : FlowMsg) (r : SRecord) (h : NoEthernetHeader r) :
    Producer.applyRecord cfg m (expRecord r) = .ok (applyRecord m (r, none)) := by
  cases r with
  | rawHeader p fl st hd =>
    simp only [NoEthernetHeader] at h
    simp [Producer.applyRecord, expRecord, expData, applyRecord, h]
  | ethernet l s d t => simp [Producer.applyRecord, expRecord, expData, applyRecord, recFormat]
  | ipv4 l p s d sp dp f t =>
    simp [Producer.applyRecord, expRecord, expData, applyRecord, recFormat, Producer.vNat, Producer.vBytes, Sflow.V.nat, Sflow.V.bytes]
  | ipv6 l p s d sp dp f t =>
    simp [Producer.applyRecord, expRecord, expData, applyRecord, recFormat, Producer.vNat, Producer.vBytes, Sflow.V.nat, Sflow.V.bytes]
  | extSwitch a b c d =>
    simp [Producer.applyRecord, expRecord, expData, applyRecord, recFormat, Producer.vNat, Sflow.V.nat]
  | extRouter nh s d => simp [Producer.applyRecord, expRecord, expData, applyRecord]
  | extGateway nh a sa spa path comm lp =>
    cases path with
    | none => by_cases hsa : 0 < sa <;> simp [Producer.applyRecord, expRecord, expData, applyRecord, hsa]
    | some p =>
      obtain ⟨t, asns⟩ := p
      simp only [Producer.applyRecord, expRecord, expData, applyRecord, List.getD_cons_zero, List.getD_cons_succ]
      by_cases hsa : 0 < sa <;> cases h2 : asns.getLast? <;> simp [h2, hsa]
  | egressQueue q => simp [Producer.applyRecord, expRecord, expData, applyRecord, recFormat]
  | acl n name d => simp [Producer.applyRecord, expRecord, expData, applyRecord]
  | function s => simp [Producer.applyRecord, expRecord, expData, applyRecord]
  | unknown f d => simp [Producer.applyRecord, expRecord, expData, applyRecord]

/-- all records of a sample, in order (later records of the same kind win — on both sides) -/
theorem records_eq_ref (cfg : Option Producer.Config) (m : FlowMsg) (rs : List SRecord)
    (h : ∀ r ∈ rs, NoEthernetHeader r) :
    Producer.applyRecords cfg (rs.map expRecord) m =
      .ok ((rs.zip (List.replicate rs.length (none : Option Spec.Frame.Frame))).foldl applyRecord m) := by
  induction rs generalizing m with
  | nil => rfl
  | cons r rs ih =>
    simp only [List.map_cons, Producer.applyRecords, List.length_cons, List.replicate_succ, List.zip_cons_cons, List.foldl_cons]
    rw [record_eq_ref cfg m r (h r (by simp))]
    simp only
    exact ih _ (fun q hq => h q (by simp [hq]))

/-- a flow sample: sampling rate, interfaces, packets = 1 and the content of its records -/
theorem sample_eq_ref (cfg : Option Producer.Config) (seq st sv : Nat) (vals : List Nat) (rs : List SRecord)
    (hv : vals.length = 5) (h : ∀ r ∈ rs, NoEthernetHeader r) (agent : Bytes) (dgSeq recv : Nat) :
    (Producer.convertSample cfg (expSample (.flow seq st sv vals rs))).map
        (fun r => r.map fun m => Pipe.stampSflow recv { m with samplerAddress := agent, sequenceNum := dgSeq }) =
      (refSample agent dgSeq recv (.flow seq st sv vals rs) (List.replicate rs.length none)).map Except.ok := by
  match vals, hv with
  | [a, b, c, d, e], _ =>
    simp only [expSample, Producer.convertSample, Option.map_some, refSample]
    rw [records_eq_ref cfg _ rs h]
    simp [Except.map, Pipe.stampSflow, FlowMsg.empty, Producer.sampleBase]

/-- an expanded flow sample: the interface *values* of the expanded encoding -/
theorem expanded_sample_eq_ref (cfg : Option Producer.Config) (seq st sv : Nat) (vals : List Nat) (rs : List SRecord)
    (hv : vals.length = 7) (h : ∀ r ∈ rs, NoEthernetHeader r) (agent : Bytes) (dgSeq recv : Nat) :
    (Producer.convertSample cfg (expSample (.expFlow seq st sv vals rs))).map
        (fun r => r.map fun m => Pipe.stampSflow recv { m with samplerAddress := agent, sequenceNum := dgSeq }) =
      (refSample agent dgSeq recv (.expFlow seq st sv vals rs) (List.replicate rs.length none)).map Except.ok := by
  match vals, hv with
  | [a, b, c, d, e, f, g], _ =>
    simp only [expSample, Producer.convertSample, Option.map_some, refSample]
    rw [records_eq_ref cfg _ rs h]
    simp [Except.map, Pipe.stampSflow, FlowMsg.empty, Producer.sampleBase]

/-- counter samples, expanded counter samples and drop samples yield no flow message -/
theorem non_flow_samples_yield_nothing (cfg : Option Producer.Config) (s : SSample)
    (h : match s with | .flow .. => False | .expFlow .. => False | _ => True) :
    Producer.convertSample cfg (expSample s) = none := by
  cases s <;> simp_all [expSample, Producer.convertSample]

/-- AS rules: destination AS = last AS of the path, next-hop AS = first; source AS falls back to the router's AS -/
theorem as_rules (m : FlowMsg) (nh : Bytes) (a spa t : Nat) (first : Nat) (mid : List Nat) (last : Nat) (comm : List Nat) (lp : Nat) :
    let m' := applyRecord m (.extGateway nh a 0 spa (some (t, first :: (mid ++ [last]))) comm lp, none)
    m'.dstAs = last ∧ m'.nextHopAs = first ∧ m'.srcAs = a := by
  have hl : (first :: (mid ++ [last])).getLast? = some last := by
    have : first :: (mid ++ [last]) = (first :: mid) ++ [last] := by simp
    rw [this, List.getLast?_append]
    simp
  simp [applyRecord, hl]

/-- The statements of the sFlow conversion — sample-level assignments, one `case` body per record type, the per-message
    stamps, the raw-header dispatch, the selection of flow samples — are, in the source now, the statements the model of
    `Goflow/Producer/Sflow.lean` was written from (regenerated on every run, compared with the frozen text). -/
theorem conversion_source_matches :
    Goflow.Generated.sflowSampleStmts = Goflow.Snapshot.sflowSampleStmts ∧
    Goflow.Generated.sflowSampleCases = Goflow.Snapshot.sflowSampleCases ∧
    Goflow.Generated.sflowMessageStmts = Goflow.Snapshot.sflowMessageStmts ∧
    Goflow.Generated.sflowHeaderStmts = Goflow.Snapshot.sflowHeaderStmts ∧
    Goflow.Generated.sflowSamplesStmts = Goflow.Snapshot.sflowSamplesStmts ∧
    Goflow.Generated.sflowSamplesCases = Goflow.Snapshot.sflowSamplesCases := by
  decide +kernel

end Goflow.C09
