import Proofs.Lemmas.Bytes
import Goflow.Producer.Numbers
/-! the shift loops of DecodeUNumber / DecodeUNumberLE compute the big- / little-endian value -/
namespace Goflow.Producer

theorem shiftLoopBE_eq (l : Nat) (xs : Bytes) (iter P : Nat) (h : iter + xs.length = l) :
    shiftLoopBE l xs iter (P * 2 ^ (8 * xs.length)) = P * 256 ^ xs.length + beNat xs := by
  induction xs generalizing iter P with
  | nil => simp [shiftLoopBE, beNat]
  | cons x xs ih =>
    simp only [List.length_cons] at h
    unfold shiftLoopBE
    have hk : l - iter - 1 = xs.length := by omega
    rw [hk]
    have hx : x.toNat <<< (8 * xs.length) < 2 ^ (8 * (xs.length + 1)) := by
      rw [Nat.shiftLeft_eq]
      have : x.toNat < 256 := x.toNat_lt
      calc x.toNat * 2 ^ (8 * xs.length) < 256 * 2 ^ (8 * xs.length) :=
            Nat.mul_lt_mul_of_pos_right this (Nat.two_pow_pos _)
        _ = 2 ^ (8 * (xs.length + 1)) := by
            rw [show 8 * (xs.length + 1) = 8 + 8 * xs.length by omega, Nat.pow_add]
    have hor : P * 2 ^ (8 * (xs.length + 1)) ||| x.toNat <<< (8 * xs.length)
        = (P * 256 + x.toNat) * 2 ^ (8 * xs.length) := by
      rw [← Nat.shiftLeft_eq P, ← Nat.shiftLeft_add_eq_or_of_lt hx, Nat.shiftLeft_eq, Nat.shiftLeft_eq]
      rw [show 8 * (xs.length + 1) = 8 + 8 * xs.length by omega, Nat.pow_add, Nat.add_mul]
      rw [show (2:Nat) ^ 8 = 256 by rfl, Nat.mul_assoc]
    simp only [List.length_cons]
    rw [hor, ih (iter + 1) (P * 256 + x.toNat) (by omega)]
    rw [beNat_cons, Nat.pow_succ]
    have : (256:Nat) ^ xs.length = 256 ^ xs.length := rfl
    rw [Nat.add_mul, Nat.mul_assoc, Nat.mul_comm 256 (256 ^ xs.length)]
    omega

theorem shiftLoopBE_beNat (xs : Bytes) : shiftLoopBE xs.length xs 0 0 = beNat xs := by
  have := shiftLoopBE_eq xs.length xs 0 0 (by omega)
  simpa using this

theorem shiftLoopLE_eq (xs : Bytes) (iter o : Nat) (ho : o < 2 ^ (8 * iter)) :
    shiftLoopLE xs iter o = o + leNat xs * 2 ^ (8 * iter) := by
  induction xs generalizing iter o with
  | nil => simp [shiftLoopLE, leNat]
  | cons x xs ih =>
    unfold shiftLoopLE
    have hor : o ||| x.toNat <<< (8 * iter) = x.toNat * 2 ^ (8 * iter) + o := by
      rw [Nat.or_comm, ← Nat.shiftLeft_add_eq_or_of_lt ho, Nat.shiftLeft_eq]
    have hlt : x.toNat * 2 ^ (8 * iter) + o < 2 ^ (8 * (iter + 1)) := by
      have hx : x.toNat < 256 := x.toNat_lt
      have : x.toNat * 2 ^ (8 * iter) + 2 ^ (8 * iter) ≤ 256 * 2 ^ (8 * iter) := by
        have := Nat.mul_le_mul_right (2 ^ (8 * iter)) (show x.toNat + 1 ≤ 256 by omega)
        simpa [Nat.add_mul] using this
      rw [show 8 * (iter + 1) = 8 + 8 * iter by omega, Nat.pow_add, show (2:Nat) ^ 8 = 256 by rfl]
      omega
    rw [hor, ih (iter + 1) _ hlt]
    have hA : 2 ^ (8 * (iter + 1)) = 256 * 2 ^ (8 * iter) := by
      rw [show 8 * (iter + 1) = 8 + 8 * iter by omega, Nat.pow_add]
    simp only [leNat]
    rw [hA, Nat.add_mul, Nat.mul_left_comm (leNat xs) 256, Nat.mul_assoc 256 (leNat xs)]
    omega

theorem shiftLoopLE_leNat (xs : Bytes) : shiftLoopLE xs 0 0 = leNat xs := by
  have := shiftLoopLE_eq xs 0 0 (by simp)
  simpa using this

end Goflow.Producer
