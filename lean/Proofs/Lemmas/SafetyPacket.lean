import Proofs.Lemmas.SafetySflow
import Goflow.Producer.Packet
/-! The parser chain of ParsePacket terminates: every parser except Teredo consumes at least one
    byte when it hands over to another parser, and Teredo hands over to IPv6. -/
namespace Goflow.Producer

/-- remaining work: twice the bytes left, plus one if the next parser is the zero-size Teredo parser -/
def mu (len : Nat) (next : Next) (offset : Nat) : Nat :=
  if next.callable then 2 * (len + 1 - offset) + (if next.parser = .teredo then 1 else 0) else 0

private theorem mplsLoop_off (d : Bytes) (fuel off : Nat) (ls ts : List Nat) (hd : off + 4 ≤ d.length) (hf : 0 < fuel) :
    off + 4 ≤ (mplsLoop d fuel off ls ts).2.2.1 := by
  induction fuel generalizing off ls ts with
  | zero => omega
  | succ fuel ih =>
    unfold mplsLoop
    have : ¬ d.length < off + 4 := by omega
    simp only [this, if_false]
    split
    · simp
    · by_cases hf0 : 0 < fuel
      · by_cases hd2 : off + 4 + 4 ≤ d.length
        · have := ih (off + 4) (ls ++ [be d off 3 / 16]) (ts ++ [u8 d (off + 3)]) hd2 hf0
          omega
        · cases fuel with
          | zero => omega
          | succ f =>
            unfold mplsLoop
            have : d.length < off + 4 + 4 := by omega
            simp [this]
      · have : fuel = 0 := by omega
        subst this
        simp [mplsLoop]

/-- a parser that selects a callable successor consumed at least one byte — unless it is Teredo,
    whose successor is IPv6 -/
theorem runParser_progress (p : Parser) (m : FlowMsg) (d : Bytes) (pc : PC)
    (hc : (runParser p m d pc).next.callable = true) :
    (1 ≤ (runParser p m d pc).size) ∨ (p = .teredo ∧ (runParser p m d pc).next.parser = .ipv6) := by
  cases p <;> simp only [runParser] at hc ⊢
  · simp [tooShort, Next.none, Next.callable] at hc
  · unfold parseEthernet at hc ⊢
    by_cases h : d.length < 14
    · simp [h, tooShort, Next.none, Next.callable] at hc
    · simp [h]
  · unfold parse8021Q at hc ⊢
    by_cases h : d.length < 4
    · simp [h, tooShort, Next.none, Next.callable] at hc
    · simp [h]
  · unfold parseMPLS at hc ⊢
    split at hc
    · simp [tooShort, Next.none, Next.callable] at hc
    · rename_i h4
      have h4' : 0 + 4 ≤ d.length := by omega
      have := mplsLoop_off d (d.length / 4 + 1) 0 [] [] h4' (by omega)
      simp only [h4, if_false]
      generalize mplsLoop d (d.length / 4 + 1) 0 [] [] = r at *
      obtain ⟨ls, ts, off, et⟩ := r
      simp only at this hc ⊢
      cases et with
      | none => simp [Next.none, Next.callable] at hc
      | some e => obtain ⟨a, b⟩ := e; left; simp only; omega
  · unfold parseIPv4 at hc ⊢
    by_cases h : d.length < 20
    · simp [h, tooShort, Next.none, Next.callable] at hc
    · simp [h]
  · unfold parseIPv6 at hc ⊢
    by_cases h : d.length < 40
    · simp [h, tooShort, Next.none, Next.callable] at hc
    · simp [h]
  · unfold parseIPv6HeaderRouting at hc ⊢
    by_cases h : d.length < 8
    · simp [h, tooShort, Next.none, Next.callable] at hc
    · left; simp only [h, if_false]; omega
  · unfold parseIPv6HeaderFragment at hc ⊢
    by_cases h : d.length < 8
    · simp [h, tooShort, Next.none, Next.callable] at hc
    · simp [h]
  · unfold parseTCP at hc ⊢
    by_cases h : d.length < 20
    · simp [h, tooShort, Next.none, Next.callable] at hc
    · left; simp only [h, if_false]; omega
  · unfold parseUDP at hc ⊢
    by_cases h : d.length < 8
    · simp [h, tooShort, Next.none, Next.callable] at hc
    · simp [h]
  · unfold parseICMP at hc; split at hc <;> simp [tooShort, Next.none, Next.callable] at hc
  · unfold parseICMPv6 at hc; split at hc <;> simp [tooShort, Next.none, Next.callable] at hc
  · unfold parseGRE at hc ⊢
    by_cases h : d.length < 4
    · simp [h, tooShort, Next.none, Next.callable] at hc
    · simp [h]
  · right; simp [parseTeredoDst]
  · unfold parseGeneve at hc ⊢
    by_cases h : d.length < 8
    · simp [h, tooShort, Next.none, Next.callable] at hc
    · left; simp only [h, if_false]; omega

/-- without layer mappings ParsePacket never fails: no error, no panic, and the loop ends within
    2·|data| + 3 iterations -/
theorem parseLoop_safe (cfg : Config) (hcfg : cfg.layers = []) (data : Bytes) (fuel : Nat) (next : Next) (offset : Nat)
    (encap : Bool) (encapIndex : Nat) (calls : List (Nat × Nat)) (m : FlowMsg) (hf : mu data.length next offset + 1 ≤ fuel) :
    ∃ m', parseLoop cfg data fuel next offset encap encapIndex calls m = .ok m' := by
  induction fuel generalizing next offset encap encapIndex calls m with
  | zero => omega
  | succ fuel ih =>
    unfold parseLoop
    by_cases hc : next.callable = true ∧ offset ≤ data.length
    · simp only [hc, and_self, if_true]
      have hmap : ∀ (ks : List String) (mm : FlowMsg), mapLayerKeys cfg data offset encap ks mm = .ok mm := by
        intro ks
        induction ks with
        | nil => intro mm; rfl
        | cons k ks ihk => intro mm; simp [mapLayerKeys, lookupLayer, hcfg, mapLayerEntries, ihk]
      -- whether or not the layer was recognised, the mapping step returns its input (no layer mappings)
      have hstep : ∀ (b : Bool) (mm : FlowMsg), (if b = true then mapLayerKeys cfg data offset encap next.keys mm else Except.ok mm) = .ok mm := by
        intro b mm; cases b <;> simp [hmap]
      rw [hstep]
      simp only
      apply ih
      -- the measure decreases
      have hprog := runParser_progress next.parser m (data.drop offset)
        ⟨encap, (calls.lookup next.parserIndex).getD 0, cfg.ports⟩
      generalize runParser next.parser m (data.drop offset) ⟨encap, (calls.lookup next.parserIndex).getD 0, cfg.ports⟩ = r at *
      unfold mu at hf ⊢
      simp only [hc.1, if_true] at hf
      by_cases hc' : r.next.callable = true
      · simp only [hc', if_true]
        rcases hprog hc' with h1 | ⟨h1, h2⟩
        · split <;> split at hf <;> omega
        · simp only [h1, if_true] at hf
          simp only [h2, show (Parser.ipv6 = Parser.teredo) = False by simp, if_false]
          omega
      · have hc'' : r.next.callable = false := by simpa using hc'
        simp only [hc'', Bool.false_eq_true, if_false]
        split at hf <;> omega
    · simp only [hc, if_false]
      exact ⟨m, rfl⟩

theorem parsePacket_safe (cfg : Config) (hcfg : cfg.layers = []) (m : FlowMsg) (data : Bytes) :
    ∃ m', parsePacket cfg m data = .ok m' := by
  unfold parsePacket
  apply parseLoop_safe cfg hcfg
  unfold mu
  split <;> simp <;> omega

end Goflow.Producer
