/-! counting lemmas for `filterMap` over `List.set` / append / pop, used by the receiver invariants -/
namespace Goflow

theorem count_filterMap_set {α} (f : α → Option Nat) (l : List α) (i : Nat) (a old : α)
    (h : l[i]? = some old) (d : Nat) :
    ((l.set i a).filterMap f).count d + (f old).toList.count d =
      (l.filterMap f).count d + (f a).toList.count d := by
  induction l generalizing i with
  | nil => simp at h
  | cons x xs ih =>
    cases i with
    | zero =>
      simp only [List.getElem?_cons_zero, Option.some.injEq] at h
      subst h
      simp only [List.set_cons_zero, List.filterMap_cons]
      cases hx : f x <;> cases ha : f a <;> simp [List.count_cons] <;> omega
    | succ i =>
      simp only [List.getElem?_cons_succ] at h
      have := ih i h
      simp only [List.set_cons_succ, List.filterMap_cons]
      cases hx : f x <;> simp [List.count_cons] <;> omega

theorem count_filterMap_append_one {α} (f : α → Option Nat) (l : List α) (a : α) (d : Nat) :
    ((l ++ [a]).filterMap f).count d = (l.filterMap f).count d + (f a).toList.count d := by
  simp only [List.filterMap_append, List.count_append, List.filterMap_cons, List.filterMap_nil]
  cases f a <;> simp

theorem count_filterMap_cons {α} (f : α → Option Nat) (l : List α) (a : α) (d : Nat) :
    ((a :: l).filterMap f).count d = (f a).toList.count d + (l.filterMap f).count d := by
  simp only [List.filterMap_cons]
  cases f a <;> simp [List.count_cons] <;> omega

end Goflow
