import Proofs.Lemmas.Netflow
/-! Safety lemmas for the NetFlow v9 / IPFIX decoder model: with the fuel the callers pass, no loop
    runs out of fuel (`diverge`) and no panic point is reachable; every error is a returned error. -/
namespace Goflow

/-- outcome classes that are *returned* errors -/
def Err.Returned (e : Err) : Prop := e = .eof ∨ e = .bad ∨ e = .tnf

theorem Err.Returned.ne_panic {e : Err} (h : e.Returned) : e ≠ .panic ∧ e ≠ .diverge := by
  rcases h with rfl | rfl | rfl <;> exact ⟨by decide, by decide⟩

theorem readFields_length {ws : List Nat} {b b' : Bytes} {vs : List Nat} (h : readFields ws b = .ok (vs, b')) :
    vs.length = ws.length ∧ b'.length + sumW ws = b.length := by
  by_cases hn : sumW ws ≤ b.length
  · obtain ⟨vs', h1, h2, _⟩ := readFields_ok_of_le ws b hn
    rw [h1] at h
    simp only [Except.ok.injEq, Prod.mk.injEq] at h
    obtain ⟨rfl, rfl⟩ := h
    exact ⟨h2, by simp; omega⟩
  · rw [readFields_err_of_lt _ _ (Nat.lt_of_not_le hn)] at h; cases h

theorem readFields2_shape {b b' : Bytes} {vs : List Nat} (h : readFields [2, 2] b = .ok (vs, b')) :
    ∃ x y, vs = [x, y] ∧ b'.length + 4 = b.length := by
  obtain ⟨h1, h2⟩ := readFields_length h
  match vs, h1 with
  | [x, y], _ => exact ⟨x, y, rfl, by simpa [sumW] using h2⟩

theorem readFields3_shape {b b' : Bytes} {vs : List Nat} (h : readFields [2, 2, 2] b = .ok (vs, b')) :
    ∃ x y z, vs = [x, y, z] ∧ b'.length + 6 = b.length := by
  obtain ⟨h1, h2⟩ := readFields_length h
  match vs, h1 with
  | [x, y, z], _ => exact ⟨x, y, z, rfl, by simpa [sumW] using h2⟩

theorem readU_ok_length {n : Nat} {b b' : Bytes} {v : Nat} (h : readU n b = .ok (v, b')) : b'.length + n = b.length := by
  by_cases hn : n ≤ b.length
  · rw [readU_ok hn] at h
    simp only [Except.ok.injEq, Prod.mk.injEq] at h
    rw [← h.2]; simp; omega
  · rw [readU_short (Nat.lt_of_not_le hn)] at h; cases h

theorem list_len4 {vs : List Nat} (h : vs.length = 4) : ∃ a b c d, vs = [a, b, c, d] := by
  match vs, h with
  | [a, b, c, d], _ => exact ⟨a, b, c, d, rfl⟩

theorem list_len5 {vs : List Nat} (h : vs.length = 5) : ∃ a b c d e, vs = [a, b, c, d, e] := by
  match vs, h with
  | [a, b, c, d, e], _ => exact ⟨a, b, c, d, e, rfl⟩

namespace Netflow

/-- DecodeTemplateSet's field loop: errors are short reads, the cursor only moves forward -/
theorem decodeTemplateFields_safe (version n : Nat) (b : Bytes) :
    (∀ e, decodeTemplateFields version n b = .error e → e = .eof) ∧
    (∀ fs b', decodeTemplateFields version n b = .ok (fs, b') → b'.length ≤ b.length) := by
  induction n generalizing b with
  | zero => simp [decodeTemplateFields]
  | succ n ih =>
    unfold decodeTemplateFields
    cases hr : readFields [2, 2] b with
    | error e => exact ⟨fun e' h => (by cases h; exact readFields_err hr), fun _ _ h => by cases h⟩
    | ok p =>
      obtain ⟨vs, b1⟩ := p
      obtain ⟨x, y, rfl, hl⟩ := readFields2_shape hr
      simp only
      split
      · cases hp : readU 4 b1 with
        | error e => exact ⟨fun e' h => (by cases h; exact readU_err hp), fun _ _ h => by cases h⟩
        | ok q =>
          obtain ⟨pen, b2⟩ := q
          have hl2 := readU_ok_length hp
          obtain ⟨i1, i2⟩ := ih b2
          simp only
          cases hd : decodeTemplateFields version n b2 with
          | error e => exact ⟨fun e' h => (by cases h; exact i1 e hd), fun _ _ h => by cases h⟩
          | ok r =>
            obtain ⟨fs, b3⟩ := r
            refine ⟨fun _ h => (by cases h), fun _ _ h => ?_⟩
            cases h
            have := i2 fs _ hd
            omega
      · obtain ⟨i1, i2⟩ := ih b1
        cases hd : decodeTemplateFields version n b1 with
        | error e => exact ⟨fun e' h => (by cases h; exact i1 e hd), fun _ _ h => by cases h⟩
        | ok r =>
          obtain ⟨fs, b3⟩ := r
          refine ⟨fun _ h => (by cases h), fun _ _ h => ?_⟩
          cases h
          have := i2 fs _ hd
          omega

/-- DecodeTemplateSet terminates within |payload|/4 + 1 iterations and only returns short-read errors -/
theorem decodeTemplateSet_safe (version fuel : Nat) (b : Bytes) (hf : b.length < fuel) :
    ∀ e, decodeTemplateSet version fuel b = .error e → e = .eof := by
  induction fuel generalizing b with
  | zero => omega
  | succ fuel ih =>
    intro e h
    unfold decodeTemplateSet at h
    by_cases h4 : 4 ≤ b.length
    · simp only [h4, if_true] at h
      cases hr : readFields [2, 2] b with
      | error e' => rw [hr] at h; cases h; exact readFields_err hr
      | ok p =>
        obtain ⟨vs, b1⟩ := p
        obtain ⟨x, y, rfl, hl⟩ := readFields2_shape hr
        rw [hr] at h
        simp only at h
        obtain ⟨s1, s2⟩ := decodeTemplateFields_safe version y b1
        cases hd : decodeTemplateFields version y b1 with
        | error e' => rw [hd] at h; cases h; exact s1 _ hd
        | ok r =>
          obtain ⟨fs, b2⟩ := r
          rw [hd] at h
          simp only at h
          have := s2 fs b2 hd
          cases hrec : decodeTemplateSet version fuel b2 with
          | error e' => rw [hrec] at h; cases h; exact ih b2 (by omega) _ hrec
          | ok rs => rw [hrec] at h; cases h
    · simp [h4] at h

theorem decodeField_safe (pen : Bool) (b : Bytes) :
    (∀ e, decodeField pen b = .error e → e = .eof) ∧
    (∀ f b', decodeField pen b = .ok (f, b') → b'.length + 4 ≤ b.length) := by
  unfold decodeField
  cases hr : readFields [2, 2] b with
  | error e => exact ⟨fun e' h => (by cases h; exact readFields_err hr), fun _ _ h => by cases h⟩
  | ok p =>
    obtain ⟨vs, b1⟩ := p
    obtain ⟨x, y, rfl, hl⟩ := readFields2_shape hr
    simp only
    split
    · cases hp : readU 4 b1 with
      | error e => exact ⟨fun e' h => (by cases h; exact readU_err hp), fun _ _ h => by cases h⟩
      | ok q =>
        obtain ⟨p', b2⟩ := q
        have := readU_ok_length hp
        exact ⟨fun _ h => (by cases h), fun _ _ h => by cases h; omega⟩
    · exact ⟨fun _ h => (by cases h), fun _ _ h => by cases h; omega⟩

theorem decodeFieldsN_safe (pen : Bool) (n : Nat) (b : Bytes) :
    (∀ e, decodeFieldsN pen n b = .error e → e = .eof) ∧
    (∀ fs b', decodeFieldsN pen n b = .ok (fs, b') → b'.length ≤ b.length) := by
  induction n generalizing b with
  | zero => simp [decodeFieldsN]
  | succ n ih =>
    unfold decodeFieldsN
    obtain ⟨f1, f2⟩ := decodeField_safe pen b
    cases hd : decodeField pen b with
    | error e => exact ⟨fun e' h => (by cases h; exact f1 _ hd), fun _ _ h => by cases h⟩
    | ok p =>
      obtain ⟨f, b1⟩ := p
      have := f2 f b1 hd
      obtain ⟨i1, i2⟩ := ih b1
      simp only
      cases hr : decodeFieldsN pen n b1 with
      | error e => exact ⟨fun e' h => (by cases h; exact i1 _ hr), fun _ _ h => by cases h⟩
      | ok q =>
        obtain ⟨fs, b2⟩ := q
        have := i2 fs b2 hr
        exact ⟨fun _ h => (by cases h), fun _ _ h => by cases h; omega⟩

theorem decodeNFv9OptionsTemplateSet_safe (fuel : Nat) (b : Bytes) (hf : b.length < fuel) :
    ∀ e, decodeNFv9OptionsTemplateSet fuel b = .error e → e = .eof := by
  induction fuel generalizing b with
  | zero => omega
  | succ fuel ih =>
    intro e h
    unfold decodeNFv9OptionsTemplateSet at h
    by_cases h4 : 4 ≤ b.length
    · simp only [h4, if_true] at h
      cases hr : readFields [2, 2, 2] b with
      | error e' => rw [hr] at h; cases h; exact readFields_err hr
      | ok p =>
        obtain ⟨vs, b1⟩ := p
        obtain ⟨x, y, z, rfl, hl⟩ := readFields3_shape hr
        rw [hr] at h
        simp only at h
        obtain ⟨s1, s2⟩ := decodeFieldsN_safe false (y / 4) b1
        cases hd : decodeFieldsN false (y / 4) b1 with
        | error e' => rw [hd] at h; cases h; exact s1 _ hd
        | ok r =>
          obtain ⟨sc, b2⟩ := r
          rw [hd] at h
          simp only at h
          have := s2 sc b2 hd
          obtain ⟨t1, t2⟩ := decodeFieldsN_safe false (z / 4) b2
          cases hd2 : decodeFieldsN false (z / 4) b2 with
          | error e' => rw [hd2] at h; cases h; exact t1 _ hd2
          | ok r2 =>
            obtain ⟨op, b3⟩ := r2
            rw [hd2] at h
            simp only at h
            have := t2 op b3 hd2
            cases hrec : decodeNFv9OptionsTemplateSet fuel b3 with
            | error e' => rw [hrec] at h; cases h; exact ih b3 (by omega) _ hrec
            | ok rs => rw [hrec] at h; cases h
    · simp [h4] at h

theorem decodeIPFIXOptionsTemplateSet_safe (fuel : Nat) (b : Bytes) (hf : b.length < fuel) :
    ∀ e, decodeIPFIXOptionsTemplateSet fuel b = .error e → e = .eof ∨ e = .bad := by
  induction fuel generalizing b with
  | zero => omega
  | succ fuel ih =>
    intro e h
    unfold decodeIPFIXOptionsTemplateSet at h
    by_cases h4 : 4 ≤ b.length
    · simp only [h4, if_true] at h
      cases hr : readFields [2, 2, 2] b with
      | error e' => rw [hr] at h; cases h; left; exact readFields_err hr
      | ok p =>
        obtain ⟨vs, b1⟩ := p
        obtain ⟨x, y, z, rfl, hl⟩ := readFields3_shape hr
        rw [hr] at h
        simp only at h
        obtain ⟨s1, s2⟩ := decodeFieldsN_safe true z b1
        cases hd : decodeFieldsN true z b1 with
        | error e' => rw [hd] at h; cases h; left; exact s1 _ hd
        | ok r =>
          obtain ⟨sc, b2⟩ := r
          rw [hd] at h
          simp only at h
          have := s2 sc b2 hd
          split at h
          · cases h; right; rfl
          · obtain ⟨t1, t2⟩ := decodeFieldsN_safe true (y - z) b2
            cases hd2 : decodeFieldsN true (y - z) b2 with
            | error e' => rw [hd2] at h; cases h; left; exact t1 _ hd2
            | ok r2 =>
              obtain ⟨op, b3⟩ := r2
              rw [hd2] at h
              simp only at h
              have := t2 op b3 hd2
              cases hrec : decodeIPFIXOptionsTemplateSet fuel b3 with
              | error e' => rw [hrec] at h; cases h; exact ih b3 (by omega) _ hrec
              | ok rs => rw [hrec] at h; cases h
    · simp [h4] at h

theorem decodeDataSetUsingFields_safe (fs : List Field) (b : Bytes) :
    (∀ e, decodeDataSetUsingFields fs b = .error e → e = .eof) ∧
    (∀ vs b', decodeDataSetUsingFields fs b = .ok (vs, b') →
        b'.length ≤ b.length ∧ (templateSize fs ≤ b.length → b'.length ≤ b.length - templateSize fs)) := by
  unfold decodeDataSetUsingFields
  by_cases h : templateSize fs ≤ b.length
  · simp only [h, if_true]
    refine ⟨fun e he => decodeFieldValues_err _ _ _ he, fun vs b' he => ?_⟩
    have := (decodeFieldValues_consumes _ _ _ _ he).1
    exact ⟨by omega, fun _ => this⟩
  · simp only [h, if_false]
    exact ⟨fun e he => (by cases he), fun vs b' he => (by cases he; exact ⟨Nat.le_refl _, fun h' => h'.elim⟩)⟩

theorem decodeDataSetLoop_safe (fs : List Field) (hpos : 0 < templateSize fs) (fuel : Nat) (b : Bytes)
    (hf : b.length < fuel) : ∀ e, decodeDataSetLoop fs fuel b = .error e → e = .eof := by
  induction fuel generalizing b with
  | zero => omega
  | succ fuel ih =>
    intro e h
    unfold decodeDataSetLoop at h
    by_cases hsz : templateSize fs ≤ b.length
    · simp only [hsz, if_true] at h
      obtain ⟨s1, s2⟩ := decodeDataSetUsingFields_safe fs b
      cases hd : decodeDataSetUsingFields fs b with
      | error e' => rw [hd] at h; cases h; exact s1 _ hd
      | ok r =>
        obtain ⟨vs, b1⟩ := r
        rw [hd] at h
        simp only at h
        have := (s2 vs b1 hd).2 hsz
        cases hrec : decodeDataSetLoop fs fuel b1 with
        | error e' => rw [hrec] at h; cases h; exact ih b1 (by omega) _ hrec
        | ok rs => rw [hrec] at h; cases h
    · simp [hsz] at h

theorem decodeDataSet_safe (fs : List Field) (fuel : Nat) (b : Bytes) (hf : b.length < fuel) :
    ∀ e, decodeDataSet fs fuel b = .error e → e = .eof ∨ e = .bad := by
  intro e h
  unfold decodeDataSet at h
  split at h
  · cases h; right; rfl
  · rename_i hz
    left; exact decodeDataSetLoop_safe fs (Nat.pos_of_ne_zero hz) fuel b hf e h

theorem decodeOptionsDataSetLoop_safe (sc op : List Field) (hpos : 0 < templateSize sc + templateSize op)
    (fuel : Nat) (b : Bytes) (hf : b.length < fuel) :
    ∀ e, decodeOptionsDataSetLoop sc op fuel b = .error e → e = .eof := by
  induction fuel generalizing b with
  | zero => omega
  | succ fuel ih =>
    intro e h
    unfold decodeOptionsDataSetLoop at h
    by_cases hsz : templateSize sc + templateSize op ≤ b.length
    · simp only [hsz, if_true] at h
      obtain ⟨s1, s2⟩ := decodeDataSetUsingFields_safe sc b
      cases hd : decodeDataSetUsingFields sc b with
      | error e' => rw [hd] at h; cases h; exact s1 _ hd
      | ok r =>
        obtain ⟨sv, b1⟩ := r
        rw [hd] at h
        simp only at h
        obtain ⟨a1, a2⟩ := s2 sv b1 hd
        have a2' := a2 (by omega)
        obtain ⟨t1, t2⟩ := decodeDataSetUsingFields_safe op b1
        cases hd2 : decodeDataSetUsingFields op b1 with
        | error e' => rw [hd2] at h; cases h; exact t1 _ hd2
        | ok r2 =>
          obtain ⟨ov, b2⟩ := r2
          rw [hd2] at h
          simp only at h
          obtain ⟨c1, c2⟩ := t2 ov b2 hd2
          have hprog : b2.length < b.length := by
            by_cases hs0 : templateSize sc = 0
            · by_cases heq : b1.length = b.length
              · have := c2 (by omega); omega
              · omega
            · omega
          cases hrec : decodeOptionsDataSetLoop sc op fuel b2 with
          | error e' => rw [hrec] at h; cases h; exact ih b2 (by omega) _ hrec
          | ok rs => rw [hrec] at h; cases h
    · simp [hsz] at h

theorem decodeOptionsDataSet_safe (sc op : List Field) (fuel : Nat) (b : Bytes) (hf : b.length < fuel) :
    ∀ e, decodeOptionsDataSet sc op fuel b = .error e → e = .eof ∨ e = .bad := by
  intro e h
  unfold decodeOptionsDataSet at h
  split at h
  · cases h; right; rfl
  · rename_i hz
    left; exact decodeOptionsDataSetLoop_safe sc op (Nat.pos_of_ne_zero hz) fuel b hf e h

/-- DecodeMessageCommonFlowSet: every error is a returned error, and on success at least the 4-byte
    set header is consumed -/
theorem decodeFlowSet_safe (fuel version dom : Nat) (s : Store) (b : Bytes) (hf : b.length < fuel) :
    (∀ e, decodeFlowSet fuel version dom s b = .error e → e = .eof ∨ e = .bad) ∧
    (∀ o, decodeFlowSet fuel version dom s b = .ok o → o.rest.length + 4 ≤ b.length) := by
  unfold decodeFlowSet
  cases hr : readFields [2, 2] b with
  | error e => exact ⟨fun e' h => (by cases h; left; exact readFields_err hr), fun _ h => (by cases h)⟩
  | ok p =>
    obtain ⟨vs, b1⟩ := p
    obtain ⟨id, len, rfl, hl⟩ := readFields2_shape hr
    simp only
    by_cases h4 : len < 4
    · simp only [h4, if_true]
      exact ⟨fun e' h => (by cases h; right; rfl), fun _ h => (by cases h)⟩
    · simp only [h4, if_false, nextN]
      have hbody : (b1.take (len - 4)).length < fuel := by simp; omega
      have hrest : (b1.drop (len - 4)).length + 4 ≤ b.length := by simp; omega
      split
      · cases hd : decodeTemplateSet version fuel (b1.take (len - 4)) with
        | error e => exact ⟨fun e' h => (by cases h; left; exact decodeTemplateSet_safe _ _ _ hbody _ hd), fun _ h => (by cases h)⟩
        | ok rs => exact ⟨fun _ h => (by cases h), fun o h => (by cases h; exact hrest)⟩
      · split
        · cases hd : decodeNFv9OptionsTemplateSet fuel (b1.take (len - 4)) with
          | error e => exact ⟨fun e' h => (by cases h; left; exact decodeNFv9OptionsTemplateSet_safe _ _ hbody _ hd), fun _ h => (by cases h)⟩
          | ok rs => exact ⟨fun _ h => (by cases h), fun o h => (by cases h; exact hrest)⟩
        · split
          · cases hd : decodeIPFIXOptionsTemplateSet fuel (b1.take (len - 4)) with
            | error e => exact ⟨fun e' h => (by cases h; exact decodeIPFIXOptionsTemplateSet_safe _ _ hbody _ hd), fun _ h => (by cases h)⟩
            | ok rs => exact ⟨fun _ h => (by cases h), fun o h => (by cases h; exact hrest)⟩
          · split
            · cases hg : s.get (templateKey version dom id) with
              | none => exact ⟨fun _ h => (by cases h), fun o h => (by cases h; exact hrest)⟩
              | some t =>
                cases t with
                | data t =>
                  simp only
                  cases hd : decodeDataSet t.fields fuel (b1.take (len - 4)) with
                  | error e => exact ⟨fun e' h => (by cases h; exact decodeDataSet_safe _ _ _ hbody _ hd), fun _ h => (by cases h)⟩
                  | ok rs => exact ⟨fun _ h => (by cases h), fun o h => (by cases h; exact hrest)⟩
                | ipfixopts t =>
                  simp only
                  cases hd : decodeOptionsDataSet t.scopes t.options fuel (b1.take (len - 4)) with
                  | error e => exact ⟨fun e' h => (by cases h; exact decodeOptionsDataSet_safe _ _ _ _ hbody _ hd), fun _ h => (by cases h)⟩
                  | ok rs => exact ⟨fun _ h => (by cases h), fun o h => (by cases h; exact hrest)⟩
                | v9opts t =>
                  simp only
                  cases hd : decodeOptionsDataSet t.scopes t.options fuel (b1.take (len - 4)) with
                  | error e => exact ⟨fun e' h => (by cases h; exact decodeOptionsDataSet_safe _ _ _ _ hbody _ hd), fun _ h => (by cases h)⟩
                  | ok rs => exact ⟨fun _ h => (by cases h), fun o h => (by cases h; exact hrest)⟩
            · exact ⟨fun e' h => (by cases h; right; rfl), fun _ h => (by cases h)⟩

/-- DecodeMessageCommon: the set loop never runs out of fuel and never reaches a panic point -/
theorem decodeSets_safe (version dom size startLen : Nat) (fuel i : Nat) (s : Store) (b : Bytes) (hf : b.length < fuel) :
    ∀ e, (decodeSets version dom size startLen fuel i s b).err = some e → e = .eof ∨ e = .bad := by
  induction fuel generalizing i s b with
  | zero => omega
  | succ fuel ih =>
    intro e h
    unfold decodeSets at h
    simp only at h
    split at h
    · obtain ⟨f1, f2⟩ := decodeFlowSet_safe (b.length + 2) version dom s b (by omega)
      cases hd : decodeFlowSet (b.length + 2) version dom s b with
      | error e' => rw [hd] at h; simp at h; subst h; exact f1 _ hd
      | ok o =>
        rw [hd] at h
        simp only at h
        have := f2 o hd
        exact ih (i + 1) o.store o.rest (by omega) e h
    · simp at h

theorem decodeMessageVersion_safe (s : Store) (b : Bytes) :
    ∀ e, (decodeMessageVersion s b).err = some e → e = .eof ∨ e = .bad := by
  intro e h
  unfold decodeMessageVersion at h
  cases hr : readU 2 b with
  | error e' => rw [hr] at h; simp at h; subst h; left; exact readU_err hr
  | ok p =>
    obtain ⟨v, b1⟩ := p
    rw [hr] at h
    simp only at h
    split at h
    · unfold decodeMessageNetFlow at h
      cases hh : readFields [2, 4, 4, 4, 4] b1 with
      | error e' => rw [hh] at h; simp at h; subst h; left; exact readFields_err hh
      | ok q =>
        obtain ⟨vs, b2⟩ := q
        rw [hh] at h
        obtain ⟨hlen, _⟩ := readFields_length hh
        obtain ⟨c, u, t, sq, sid, rfl⟩ := list_len5 hlen
        simp only at h
        exact decodeSets_safe 9 sid c b2.length (b2.length + 2) 0 s b2 (by omega) e h
    · split at h
      · unfold decodeMessageIPFIX at h
        cases hh : readFields [2, 4, 4, 4] b1 with
        | error e' => rw [hh] at h; simp at h; subst h; left; exact readFields_err hh
        | ok q =>
          obtain ⟨vs, b2⟩ := q
          rw [hh] at h
          obtain ⟨hlen, _⟩ := readFields_length hh
          obtain ⟨l, t, sq, dom, rfl⟩ := list_len4 hlen
          simp only at h
          exact decodeSets_safe 10 dom _ b2.length (b2.length + 2) 0 s b2 (by omega) e h
      · simp at h; subst h; right; rfl

end Netflow
end Goflow
