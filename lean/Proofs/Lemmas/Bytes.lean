import Goflow.Basic.Bytes
/-! Helper lemmas about big-endian numbers and the reader. -/
namespace Goflow

theorem beNat_foldl (bs : Bytes) (a : Nat) :
    bs.foldl (fun a b => a * 256 + b.toNat) a = a * 256 ^ bs.length + beNat bs := by
  induction bs generalizing a with
  | nil => simp [beNat]
  | cons b bs ih =>
    simp only [List.foldl_cons, List.length_cons, beNat]
    rw [ih, ih (0 * 256 + b.toNat)]
    simp [Nat.pow_succ, Nat.add_mul, Nat.mul_assoc, Nat.mul_comm 256, Nat.add_assoc]

theorem beNat_nil : beNat [] = 0 := rfl

theorem beNat_cons (b : UInt8) (bs : Bytes) :
    beNat (b :: bs) = b.toNat * 256 ^ bs.length + beNat bs := by
  simp only [beNat, List.foldl_cons]
  rw [beNat_foldl]; simp [beNat]

theorem beNat_append (a b : Bytes) :
    beNat (a ++ b) = beNat a * 256 ^ b.length + beNat b := by
  simp only [beNat, List.foldl_append]
  rw [beNat_foldl]; simp [beNat]

theorem beNat_lt (b : Bytes) : beNat b < 256 ^ b.length := by
  induction b with
  | nil => simp [beNat]
  | cons x xs ih =>
    rw [beNat_cons, List.length_cons, Nat.pow_succ]
    have hx : x.toNat < 256 := x.toNat_lt
    have : x.toNat * 256 ^ xs.length + 256 ^ xs.length ≤ 256 * 256 ^ xs.length := by
      have : (x.toNat + 1) * 256 ^ xs.length ≤ 256 * 256 ^ xs.length :=
        Nat.mul_le_mul_right _ (by omega)
      simpa [Nat.add_mul] using this
    rw [Nat.mul_comm (256 ^ xs.length) 256]; omega

@[simp] theorem encBE_length (n v : Nat) : (encBE n v).length = n := by
  induction n generalizing v with
  | zero => simp [encBE]
  | succ n ih => simp [encBE, ih]

theorem beNat_encBE (n v : Nat) : beNat (encBE n v) = v % 256 ^ n := by
  induction n generalizing v with
  | zero => simp [encBE, beNat, Nat.mod_one]
  | succ n ih =>
    simp only [encBE]
    rw [beNat_append, ih]
    simp only [List.length_singleton, Nat.pow_one]
    have h1 : beNat [UInt8.ofNat (v % 256)] = v % 256 := by
      simp [beNat, UInt8.toNat_ofNat']
    rw [h1, Nat.pow_succ, Nat.mul_comm (256 ^ n) 256, Nat.mod_mul]
    omega

theorem beNat_encBE_of_lt {n v : Nat} (h : v < 256 ^ n) : beNat (encBE n v) = v := by
  rw [beNat_encBE, Nat.mod_eq_of_lt h]

theorem takeN_append {n : Nat} (x r : Bytes) (h : x.length = n) :
    takeN n (x ++ r) = .ok (x, r) := by
  subst h; simp [takeN]

theorem takeN_ok_iff {n : Nat} {b x r : Bytes} :
    takeN n b = .ok (x, r) ↔ n ≤ b.length ∧ x = b.take n ∧ r = b.drop n := by
  unfold takeN
  by_cases h : n ≤ b.length
  · simp only [h, if_true, Except.ok.injEq, Prod.mk.injEq, true_and]
    constructor
    · rintro ⟨h1, h2⟩; exact ⟨h1.symm, h2.symm⟩
    · rintro ⟨h1, h2⟩; exact ⟨h1.symm, h2.symm⟩
  · simp [h]

theorem readU_enc {n v : Nat} (r : Bytes) (h : v < 256 ^ n) :
    readU n (encBE n v ++ r) = .ok (v, r) := by
  simp [readU, takeN_append _ _ (encBE_length n v), beNat_encBE_of_lt h]

theorem readU_append {n : Nat} (x r : Bytes) (h : x.length = n) :
    readU n (x ++ r) = .ok (beNat x, r) := by
  simp [readU, takeN_append _ _ h]

theorem readU_short {n : Nat} {b : Bytes} (h : b.length < n) : readU n b = .error .eof := by
  have : ¬ n ≤ b.length := by omega
  simp [readU, takeN, this]

theorem readU_ok {n : Nat} {b : Bytes} (h : n ≤ b.length) :
    readU n b = .ok (beNat (b.take n), b.drop n) := by
  simp [readU, takeN, h]

theorem readU_err {n : Nat} {b : Bytes} {e : Err} (h : readU n b = .error e) : e = .eof := by
  by_cases hn : n ≤ b.length
  · rw [readU_ok hn] at h; cases h
  · rw [readU_short (Nat.lt_of_not_le hn)] at h; cases h; rfl

end Goflow
