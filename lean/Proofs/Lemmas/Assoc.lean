/-! association lists used as Go maps: lookup after "filter out the key, then cons" -/
namespace Goflow

theorem lookup_filter_ne {α β} [BEq α] [LawfulBEq α] (s : List (α × β)) (k k' : α) (h : k' ≠ k) :
    List.lookup k' (s.filter (fun e => e.1 != k)) = List.lookup k' s := by
  induction s with
  | nil => rfl
  | cons e s ih =>
    obtain ⟨a, t⟩ := e
    by_cases hak : a = k
    · subst hak
      have h1 : ((a, t).1 != a) = false := by simp
      have h2 : (k' == a) = false := by simpa using h
      simp [List.filter, h1, List.lookup, h2, ih]
    · have h1 : ((a, t).1 != k) = true := by simpa using hak
      simp only [List.filter, h1, List.lookup]
      split <;> simp_all

theorem lookup_cons_filter {α β} [BEq α] [LawfulBEq α] (s : List (α × β)) (k k' : α) (v : β) :
    List.lookup k' ((k, v) :: s.filter (fun e => e.1 != k)) = if (k' == k) = true then some v else List.lookup k' s := by
  by_cases h : k' = k
  · subst h; simp [List.lookup]
  · have h2 : (k' == k) = false := by simpa using h
    simp only [List.lookup, h2]
    simpa using lookup_filter_ne s k k' h

end Goflow
