import Proofs.Lemmas.Bytes
import Goflow.Basic.Fields
namespace Goflow

theorem readFields_enc (ws vs : List Nat) (r : Bytes) (h : Fits ws vs) :
    readFields ws (encFields ws vs ++ r) = .ok (vs, r) := by
  induction ws generalizing vs with
  | nil => cases vs <;> simp_all [Fits, readFields, encFields]
  | cons w ws ih =>
    cases vs with
    | nil => simp [Fits] at h
    | cons v vs =>
      obtain ⟨hv, hf⟩ := h
      simp only [encFields, readFields, List.append_assoc]
      rw [readU_enc _ hv]
      simp only
      rw [ih vs hf]

theorem encFields_length (ws vs : List Nat) (h : ws.length = vs.length) :
    (encFields ws vs).length = sumW ws := by
  induction ws generalizing vs with
  | nil => simp [encFields, sumW]
  | cons w ws ih =>
    cases vs with
    | nil => simp at h
    | cons v vs =>
      simp only [List.length_cons, Nat.add_right_cancel_iff] at h
      simp [encFields, sumW, ih vs h]

theorem Fits.length_eq {ws vs : List Nat} (h : Fits ws vs) : ws.length = vs.length := by
  induction ws generalizing vs with
  | nil => cases vs <;> simp_all [Fits]
  | cons w ws ih => cases vs with
    | nil => simp [Fits] at h
    | cons v vs => simp [ih h.2]

/-- readFields succeeds exactly when enough bytes are present, consumes exactly `sumW ws` bytes
    and returns `ws.length` values. -/
theorem readFields_ok_of_le (ws : List Nat) (b : Bytes) (h : sumW ws ≤ b.length) :
    ∃ vs, readFields ws b = .ok (vs, b.drop (sumW ws)) ∧ vs.length = ws.length ∧ Fits ws vs := by
  induction ws generalizing b with
  | nil => exact ⟨[], by simp [readFields, sumW, Fits]⟩
  | cons w ws ih =>
    simp only [sumW, List.foldr_cons] at h
    have hw : w ≤ b.length := by omega
    have h' : sumW ws ≤ (b.drop w).length := by simp [sumW]; omega
    obtain ⟨vs, h1, h2, h3⟩ := ih (b.drop w) h'
    refine ⟨beNat (b.take w) :: vs, ?_, by simp [h2], ?_⟩
    · simp only [readFields, readU_ok hw, h1, List.drop_drop, sumW, List.foldr_cons]
    · refine ⟨?_, h3⟩
      have := beNat_lt (b.take w)
      simpa [List.length_take, Nat.min_eq_left hw] using this

theorem readFields_err_of_lt (ws : List Nat) (b : Bytes) (h : b.length < sumW ws) :
    readFields ws b = .error .eof := by
  induction ws generalizing b with
  | nil => simp [sumW] at h
  | cons w ws ih =>
    simp only [sumW, List.foldr_cons] at h
    by_cases hw : w ≤ b.length
    · have h' : (b.drop w).length < sumW ws := by simp [sumW]; omega
      simp [readFields, readU_ok hw, ih _ h']
    · simp [readFields, readU_short (Nat.lt_of_not_le hw)]

theorem readFields_err {ws : List Nat} {b : Bytes} {e : Err} (h : readFields ws b = .error e) : e = .eof := by
  by_cases hn : sumW ws ≤ b.length
  · obtain ⟨vs, h1, _⟩ := readFields_ok_of_le ws b hn
    rw [h1] at h; cases h
  · rw [readFields_err_of_lt _ _ (Nat.lt_of_not_le hn)] at h; cases h; rfl

end Goflow
