import Goflow.Producer.GoPrims
import Proofs.Lemmas.Bytes
/-!
  Lemmas relating the Go-faithful primitives of Goflow/Producer/GoPrims.lean (fixed-width integers,
  partial indexing / slicing) to the Nat-valued readers `u8`, `be`, `sl` of the hand-written model.
  After rewriting with these the two sides of a `T.ParseX_eq` goal speak about the same opaque atoms
  `u8 d i`, `be d i n`, `sl d i j`, and what is left is arithmetic.
-/
namespace Goflow.Go
open Goflow Goflow.Producer

theorem u8_lt (d : Bytes) (i : Nat) : u8 d i < 256 := (d.getD i 0).toNat_lt

theorem be_lt (d : Bytes) (i n : Nat) : be d i n < 256 ^ n := by
  unfold be
  have h := beNat_lt ((d.drop i).take n)
  have hl : ((d.drop i).take n).length ≤ n := by simp [List.length_take]; omega
  exact Nat.lt_of_lt_of_le h (Nat.pow_le_pow_right (by decide) hl)

/-! ### indexing and slicing under a length guard -/

theorem idx_ok {d : Bytes} {i : Nat} (h : i < d.length) : Go.idx d i = .ok (UInt8.ofNat (u8 d i)) := by
  simp [Go.idx, u8, List.getD_eq_getElem?_getD, List.getElem?_eq_getElem h]

theorem idx_panic {d : Bytes} {i : Nat} (h : d.length ≤ i) : Go.idx d i = .error .panic := by
  simp [Go.idx, List.getElem?_eq_none h]

theorem slice_ok {d : Bytes} {a b : Nat} (h1 : a ≤ b) (h2 : b ≤ d.length) : Go.slice d a b = .ok (sl d a b) := by
  simp [Go.slice, sl, h1, h2]

@[simp] theorem toNat_ofNat_u8 (d : Bytes) (i : Nat) : (UInt8.ofNat (u8 d i)).toNat = u8 d i := by
  rw [UInt8.toNat_ofNat']; exact Nat.mod_eq_of_lt (u8_lt d i)

theorem ofNat_u8_eq (d : Bytes) (i : Nat) (c : UInt8) : UInt8.ofNat (u8 d i) = c ↔ u8 d i = c.toNat := by
  rw [← UInt8.toNat_inj, toNat_ofNat_u8]

theorem sl_length {d : Bytes} {i j : Nat} (h : j ≤ d.length) : (sl d i j).length = j - i := by
  simp [sl, List.length_take, List.length_drop]; omega

theorem beNat_sl {d : Bytes} {i j n : Nat} (hj : j = i + n) : beNat (sl d i j) = be d i n := by
  subst hj; simp [sl, be]

theorem sl_two {d : Bytes} {i j : Nat} (hj : j = i + 2) (h : j ≤ d.length) :
    sl d i j = [UInt8.ofNat (u8 d i), UInt8.ofNat (u8 d (i + 1))] := by
  subst hj
  have h0 : i < d.length := by omega
  have h1 : i + 1 < d.length := by omega
  apply List.ext_getElem
  · simp [sl, List.length_take, List.length_drop]; omega
  · intro k hk1 hk2
    simp only [List.length_cons, List.length_nil] at hk2
    have : k = 0 ∨ k = 1 := by omega
    rcases this with rfl | rfl <;>
      simp [sl, u8, List.getD_eq_getElem?_getD, h0, h1]

/-! ### binary.BigEndian over a slice -/

private theorem take_self {b : Bytes} {n : Nat} (h : b.length = n) : b.take n = b := by
  subst h; simp

theorem beU16_sl {d : Bytes} {i j : Nat} (hj : j = i + 2) (h : j ≤ d.length) :
    Go.beU16 (sl d i j) = .ok (UInt16.ofNat (be d i 2)) := by
  have hl : (sl d i j).length = 2 := by rw [sl_length h]; omega
  simp [Go.beU16, hl, take_self hl, beNat_sl hj]

theorem beU32_sl {d : Bytes} {i j : Nat} (hj : j = i + 4) (h : j ≤ d.length) :
    Go.beU32 (sl d i j) = .ok (UInt32.ofNat (be d i 4)) := by
  have hl : (sl d i j).length = 4 := by rw [sl_length h]; omega
  simp [Go.beU32, hl, take_self hl, beNat_sl hj]

theorem beU64_sl {d : Bytes} {i j : Nat} (hj : j = i + 8) (h : j ≤ d.length) :
    Go.beU64 (sl d i j) = .ok (UInt64.ofNat (be d i 8)) := by
  have hl : (sl d i j).length = 8 := by rw [sl_length h]; omega
  simp [Go.beU64, hl, take_self hl, beNat_sl hj]

/-- `binary.BigEndian.Uint64(append([]byte{0, 0}, data[i:i+6]...))` -/
theorem beU64_pad2 {d : Bytes} {i j : Nat} (hj : j = i + 6) (h : j ≤ d.length) :
    Go.beU64 (0 :: 0 :: sl d i j) = .ok (UInt64.ofNat (be d i 6)) := by
  have hl : (([0, 0] : Bytes) ++ sl d i j).length = 8 := by simp [sl_length h]; omega
  show Go.beU64 (([0, 0] : Bytes) ++ sl d i j) = _
  simp only [Go.beU64, hl, Nat.le_refl, if_true, take_self hl]
  rw [beNat_append, beNat_sl hj]; simp [beNat]

/-- `binary.BigEndian.Uint32(append([]byte{0}, data[i:i+3]...))` -/
theorem beU32_pad1 {d : Bytes} {i j : Nat} (hj : j = i + 3) (h : j ≤ d.length) :
    Go.beU32 (0 :: sl d i j) = .ok (UInt32.ofNat (be d i 3)) := by
  have hl : (([0] : Bytes) ++ sl d i j).length = 4 := by simp [sl_length h]; omega
  show Go.beU32 (([0] : Bytes) ++ sl d i j) = _
  simp only [Go.beU32, hl, Nat.le_refl, if_true, take_self hl]
  rw [beNat_append, beNat_sl hj]; simp [beNat]

theorem toNat_ofNat_be16 (d : Bytes) (i : Nat) {n : Nat} (hn : n ≤ 2) : (UInt16.ofNat (be d i n)).toNat = be d i n := by
  rw [UInt16.toNat_ofNat']; apply Nat.mod_eq_of_lt
  exact Nat.lt_of_lt_of_le (be_lt d i n) (Nat.pow_le_pow_right (by decide) hn)

theorem toNat_ofNat_be32 (d : Bytes) (i : Nat) {n : Nat} (hn : n ≤ 4) : (UInt32.ofNat (be d i n)).toNat = be d i n := by
  rw [UInt32.toNat_ofNat']; apply Nat.mod_eq_of_lt
  exact Nat.lt_of_lt_of_le (be_lt d i n) (Nat.pow_le_pow_right (by decide) hn)

theorem toNat_ofNat_be64 (d : Bytes) (i : Nat) {n : Nat} (hn : n ≤ 8) : (UInt64.ofNat (be d i n)).toNat = be d i n := by
  rw [UInt64.toNat_ofNat']; apply Nat.mod_eq_of_lt
  exact Nat.lt_of_lt_of_le (be_lt d i n) (Nat.pow_le_pow_right (by decide) hn)

/-- simp rewrites `(UIntN.ofNat x).toNat` to `x % 2^N` by itself; these remove the `%` again -/
@[simp] theorem u8_mod (d : Bytes) (i : Nat) : u8 d i % 256 = u8 d i := Nat.mod_eq_of_lt (u8_lt d i)
theorem be_mod16 (d : Bytes) (i : Nat) {n : Nat} (hn : n ≤ 2) : be d i n % 65536 = be d i n :=
  Nat.mod_eq_of_lt (Nat.lt_of_lt_of_le (be_lt d i n) (Nat.pow_le_pow_right (by decide) hn : 256 ^ n ≤ 256 ^ 2))
theorem be_mod32 (d : Bytes) (i : Nat) {n : Nat} (hn : n ≤ 4) : be d i n % 4294967296 = be d i n :=
  Nat.mod_eq_of_lt (Nat.lt_of_lt_of_le (be_lt d i n) (Nat.pow_le_pow_right (by decide) hn : 256 ^ n ≤ 256 ^ 4))
theorem be_mod64 (d : Bytes) (i : Nat) {n : Nat} (hn : n ≤ 8) : be d i n % 18446744073709551616 = be d i n :=
  Nat.mod_eq_of_lt (Nat.lt_of_lt_of_le (be_lt d i n) (Nat.pow_le_pow_right (by decide) hn : 256 ^ n ≤ 256 ^ 8))
theorem be1_lt (d : Bytes) (i : Nat) : be d i 1 < 256 := be_lt d i 1
theorem be2_lt (d : Bytes) (i : Nat) : be d i 2 < 65536 := be_lt d i 2
theorem be3_lt (d : Bytes) (i : Nat) : be d i 3 < 16777216 := be_lt d i 3
theorem be4_lt (d : Bytes) (i : Nat) : be d i 4 < 4294967296 := be_lt d i 4
theorem be6_lt (d : Bytes) (i : Nat) : be d i 6 < 281474976710656 := be_lt d i 6

/-! ### shifts and masks -/

theorem shr8_toNat (x : UInt8) (n : Nat) : (Go.shr8 x n).toNat = x.toNat / 2 ^ n := by
  rw [Go.shr8, UInt8.toNat_ofNat', Nat.shiftRight_eq_div_pow]
  exact Nat.mod_eq_of_lt (Nat.lt_of_le_of_lt (Nat.div_le_self _ _) x.toNat_lt)
theorem shr16_toNat (x : UInt16) (n : Nat) : (Go.shr16 x n).toNat = x.toNat / 2 ^ n := by
  rw [Go.shr16, UInt16.toNat_ofNat', Nat.shiftRight_eq_div_pow]
  exact Nat.mod_eq_of_lt (Nat.lt_of_le_of_lt (Nat.div_le_self _ _) x.toNat_lt)
theorem shr32_toNat (x : UInt32) (n : Nat) : (Go.shr32 x n).toNat = x.toNat / 2 ^ n := by
  rw [Go.shr32, UInt32.toNat_ofNat', Nat.shiftRight_eq_div_pow]
  exact Nat.mod_eq_of_lt (Nat.lt_of_le_of_lt (Nat.div_le_self _ _) x.toNat_lt)
theorem shr64_toNat (x : UInt64) (n : Nat) : (Go.shr64 x n).toNat = x.toNat / 2 ^ n := by
  rw [Go.shr64, UInt64.toNat_ofNat', Nat.shiftRight_eq_div_pow]
  exact Nat.mod_eq_of_lt (Nat.lt_of_le_of_lt (Nat.div_le_self _ _) x.toNat_lt)

theorem shl16_toNat (x : UInt16) (n : Nat) : (Go.shl16 x n).toNat = x.toNat * 2 ^ n % 2 ^ 16 := by
  rw [Go.shl16, UInt16.toNat_ofNat', Nat.shiftLeft_eq]

/-- `x & (2^k - 1)` for the masks of the file -/
theorem and_1 (x : Nat) : x &&& 1 = x % 2 := Nat.and_two_pow_sub_one_eq_mod x 1
theorem and_7 (x : Nat) : x &&& 7 = x % 8 := Nat.and_two_pow_sub_one_eq_mod x 3
theorem and_15 (x : Nat) : x &&& 15 = x % 16 := Nat.and_two_pow_sub_one_eq_mod x 4
theorem and_63 (x : Nat) : x &&& 63 = x % 64 := Nat.and_two_pow_sub_one_eq_mod x 6
theorem and_255 (x : Nat) : x &&& 255 = x % 256 := Nat.and_two_pow_sub_one_eq_mod x 8
theorem and_8191 (x : Nat) : x &&& 8191 = x % 8192 := Nat.and_two_pow_sub_one_eq_mod x 13
theorem and_1048575 (x : Nat) : x &&& 1048575 = x % 1048576 := Nat.and_two_pow_sub_one_eq_mod x 20

/-- `x & 0xf0 >> 4` (Go parses `(x & 0xf0) >> 4`) -/
theorem and_240_shr_4 (x : Nat) : (x &&& 240) / 16 = x / 16 % 16 := by
  have h := @Nat.shiftRight_and_distrib 4 x 240
  simp only [Nat.shiftRight_eq_div_pow] at h
  rw [show (2:Nat) ^ 4 = 16 from rfl, show (240:Nat) / 16 = 15 from rfl, and_15] at h
  exact h

/-- `x & 0x0ff0 >> 4` -/
theorem and_4080_shr_4 (x : Nat) : (x &&& 4080) / 16 = x / 16 % 256 := by
  have h := @Nat.shiftRight_and_distrib 4 x 4080
  simp only [Nat.shiftRight_eq_div_pow] at h
  rw [show (2:Nat) ^ 4 = 16 from rfl, show (4080:Nat) / 16 = 255 from rfl, and_255] at h
  exact h

/-- `uint16(b0)<<8 | uint16(b1)` -/
theorem shl8_or (a b : Nat) (ha : a < 256) (hb : b < 256) : (a * 256 % 65536) ||| b = a * 256 + b := by
  rw [Nat.mod_eq_of_lt (by omega)]
  have := Nat.shiftLeft_add_eq_or_of_lt (i := 8) (b := b) (by omega) a
  rw [Nat.shiftLeft_eq] at this
  exact this.symm

/-! ### comparisons on fixed-width values, as comparisons on their Nat values -/

theorem u8_and1_eq (d : Bytes) (i : Nat) : (UInt8.ofNat (u8 d i) &&& 1 = 1) ↔ u8 d i % 2 = 1 := by
  rw [← UInt8.toNat_inj, UInt8.toNat_and, toNat_ofNat_u8]
  simp

theorem shr8_and240_eq (x c : UInt8) : Go.shr8 (x &&& 240) 4 = c ↔ x.toNat / 16 = c.toNat := by
  rw [← UInt8.toNat_inj, shr8_toNat, UInt8.toNat_and]
  have h : (x.toNat &&& 240) / 16 = x.toNat / 16 % 16 := and_240_shr_4 x.toNat
  have hx := x.toNat_lt
  simp only [show (240 : UInt8).toNat = 240 from rfl, show (2:Nat) ^ 4 = 16 from rfl, h]
  omega

theorem shr32_be3_le (d : Bytes) (i : Nat) (c : UInt32) :
    Go.shr32 (UInt32.ofNat (be d i 3)) 4 ≤ c ↔ be d i 3 / 16 ≤ c.toNat := by
  rw [UInt32.le_iff_toNat_le, shr32_toNat, toNat_ofNat_be32 d i (by omega)]

theorem u8_eq_iff (a b : UInt8) : a = b ↔ a.toNat = b.toNat := UInt8.toNat_inj.symm
theorem u16_eq_iff (a b : UInt16) : a = b ↔ a.toNat = b.toNat := UInt16.toNat_inj.symm

theorem etype_or (a b : UInt8) : (Go.shl16 a.toUInt16 8).toNat ||| b.toNat = a.toNat * 256 + b.toNat := by
  rw [shl16_toNat, UInt8.toNat_toUInt16]
  exact shl8_or a.toNat b.toNat a.toNat_lt b.toNat_lt

theorem etype_toNat (a b : UInt8) : (Go.shl16 a.toUInt16 8 ||| b.toUInt16).toNat = a.toNat * 256 + b.toNat := by
  rw [UInt16.toNat_or, UInt8.toNat_toUInt16, etype_or]

/-! ### the environment of the modelled ParseConfig -/

@[simp] theorem envIsNil_eq (pc : PC) : Go.envIsNil pc = false := rfl

theorem nextParserEtype_sl (pc : PC) {d : Bytes} {i j : Nat} (hj : j = i + 2) (h : j ≤ d.length) :
    Go.NextParserEtype pc (sl d i j) = .ok (nextParserEtype (u8 d i) (u8 d (i + 1)), none) := by
  rw [sl_two hj h]; simp only [Go.NextParserEtype, toNat_ofNat_u8]

/-! ### additions for Proofs/C08Trans.lean and Proofs/C14Trans.lean (NumbersT) -/

theorem idx_getElem {b : Bytes} {i : Nat} (h : i < b.length) : Go.idx b i = .ok b[i] := by
  simp [Go.idx, List.getElem?_eq_getElem h]

theorem shl64_toNat (x : UInt64) (n : Nat) : (Go.shl64 x n).toNat = x.toNat * 2 ^ n % 2 ^ 64 := by
  rw [Go.shl64, UInt64.toNat_ofNat', Nat.shiftLeft_eq]

/-- one byte shifted into a 64-bit accumulator below bit 56 is not truncated -/
theorem shl64_byte (x : UInt8) (k : Nat) (hk : k ≤ 6) :
    (Go.shl64 (UInt64.ofNat x.toNat) (8 * k)).toNat = x.toNat <<< (8 * k) := by
  have hx := x.toNat_lt
  have e0 : x.toNat % 2 ^ 64 = x.toNat := Nat.mod_eq_of_lt (Nat.lt_of_lt_of_le hx (by decide))
  rw [shl64_toNat, Nat.shiftLeft_eq, UInt64.toNat_ofNat', e0]
  apply Nat.mod_eq_of_lt
  have h1 : 2 ^ (8 * k) ≤ 2 ^ 48 := Nat.pow_le_pow_right (by decide) (by omega)
  have h2 : x.toNat * 2 ^ (8 * k) < 256 * 2 ^ 48 := by
    calc x.toNat * 2 ^ (8 * k) ≤ x.toNat * 2 ^ 48 := Nat.mul_le_mul_left _ h1
      _ < 256 * 2 ^ 48 := Nat.mul_lt_mul_of_pos_right hx (by decide)
  exact Nat.lt_of_lt_of_le h2 (by decide)

theorem leNat_lt (b : Bytes) : leNat b < 256 ^ b.length := by
  induction b with
  | nil => simp [leNat]
  | cons x xs ih =>
    have hx := x.toNat_lt
    simp only [leNat, List.length_cons, Nat.pow_succ]
    omega

theorem widen16 {n : Nat} (h : n < 65536) : (UInt16.ofNat n).toUInt64 = UInt64.ofNat n := by
  rw [← UInt64.toNat_inj]; simp [UInt64.toNat_ofNat', UInt16.toNat_ofNat']; omega

theorem widen32 {n : Nat} (h : n < 4294967296) : (UInt32.ofNat n).toUInt64 = UInt64.ofNat n := by
  rw [← UInt64.toNat_inj]; simp [UInt64.toNat_ofNat', UInt32.toNat_ofNat']; omega

theorem trunc8 (v : Nat) : UInt8.ofNat (v % 18446744073709551616) = UInt8.ofNat (v % 256) := by
  rw [← UInt8.toNat_inj]; simp [UInt8.toNat_ofNat']

theorem trunc16 (v : Nat) : UInt16.ofNat (v % 18446744073709551616) = UInt16.ofNat (v % 65536) := by
  rw [← UInt16.toNat_inj]; simp [UInt16.toNat_ofNat']

theorem trunc32 (v : Nat) : UInt32.ofNat (v % 18446744073709551616) = UInt32.ofNat (v % 4294967296) := by
  rw [← UInt32.toNat_inj]; simp [UInt32.toNat_ofNat']

theorem trunc64 (v : Nat) : UInt64.ofNat v = UInt64.ofNat (v % 18446744073709551616) := by
  rw [← UInt64.toNat_inj]; simp [UInt64.toNat_ofNat']

theorem or3 (v o t : Nat) (hv : v < 65536) (ho : o < 4294967296) (ht : t < 65536) :
    (v * 281474976710656 % 18446744073709551616) ||| (o * 65536 % 18446744073709551616) ||| t
      = v * 281474976710656 + o * 65536 + t := by
  have h1 := Nat.shiftLeft_add_eq_or_of_lt (i := 48) (b := o * 65536) (by omega) v
  have h2 := Nat.shiftLeft_add_eq_or_of_lt (i := 16) (b := t) (by omega) (v * 4294967296 + o)
  simp only [Nat.shiftLeft_eq, Nat.reducePow] at h1 h2
  have e1 : v * 281474976710656 % 18446744073709551616 = v * 281474976710656 := Nat.mod_eq_of_lt (by omega)
  have e2 : o * 65536 % 18446744073709551616 = o * 65536 := by
    apply Nat.mod_eq_of_lt; omega
  have e3 : v * 281474976710656 + o * 65536 = (v * 4294967296 + o) * 65536 := by
    rw [Nat.add_mul, Nat.mul_assoc]
  rw [e1, e2, ← h1, e3, ← h2]

theorem shl8_model (x : UInt8) (n : Nat) : Go.shl8 x n = Producer.shl8 x n := by
  rw [← UInt8.toNat_inj]; simp [Go.shl8, Producer.shl8, Nat.shiftLeft_eq, UInt8.toNat_ofNat']

theorem shr8_model (x : UInt8) (n : Nat) : Go.shr8 x n = Producer.shr8 x n := by
  simp [Go.shr8, Producer.shr8, Nat.shiftRight_eq_div_pow]

theorem tmod_nat (m : Nat) : Int.tmod (m : Int) 8 = ((m % 8 : Nat) : Int) := (Int.ofNat_tmod m 8).symm

theorem tdiv_nat (m : Nat) : Int.tdiv (m : Int) 8 = ((m / 8 : Nat) : Int) := (Int.ofNat_tdiv m 8).symm

theorem idxI_nat (d : Bytes) (i : Nat) : Go.idxI d (i : Int) = Go.idx d i := by
  have h : ¬ ((i : Int) < 0) := by omega
  simp [Go.idxI, h]

theorem idxI_nat_succ (d : Bytes) (i : Nat) : Go.idxI d ((i : Int) + 1) = Go.idx d (i + 1) := by
  have h : ¬ ((i : Int) + 1 < 0) := by omega
  have e : ((i : Int) + 1).toNat = i + 1 := by omega
  simp [Go.idxI, h, e]

theorem setIdxI_nat (d : Bytes) (i : Nat) (v : UInt8) : Go.setIdxI d (i : Int) v = Go.setIdx d i v := by
  have h : ¬ ((i : Int) < 0) := by omega
  simp [Go.setIdxI, h]

theorem shl8I_nat (x : UInt8) (s : Nat) : Go.shl8I x (s : Int) = .ok (Producer.shl8 x s) := by
  simp [Go.shl8I, shl8_model]

theorem shr8I_nat (x : UInt8) (s : Nat) : Go.shr8I x (s : Int) = .ok (Producer.shr8 x s) := by
  simp [Go.shr8I, shr8_model]

theorem shr8I_sub (x : UInt8) (s : Nat) (hs : s ≤ 8) : Go.shr8I x (8 - (s : Int)) = .ok (Producer.shr8 x (8 - s)) := by
  have h : ¬ (8 - (s : Int) < 0) := by omega
  have e : (8 - (s : Int)).toNat = 8 - s := by omega
  simp [Go.shr8I, h, e, shr8_model]

theorem tmod_nat_add (a b : Nat) : Int.tmod ((a : Int) + (b : Int)) 8 = (((a + b) % 8 : Nat) : Int) := by
  rw [← Int.natCast_add]; exact tmod_nat _

theorem tdiv_nat_add (a b : Nat) : Int.tdiv ((a : Int) + (b : Int)) 8 = (((a + b) / 8 : Nat) : Int) := by
  rw [← Int.natCast_add]; exact tdiv_nat _

theorem sliceI_nat (d : Bytes) (a b : Nat) (h1 : a ≤ b) (h2 : b ≤ d.length) :
    Go.sliceI d (a : Int) (b : Int) = .ok ((d.take b).drop a) := by
  have h : ¬ ((a : Int) < 0 ∨ (b : Int) < 0) := by omega
  simp [Go.sliceI, h, Go.slice, h1, h2, List.drop_take]

theorem tdiv_tmod_spec (x : Int) :
    x = 8 * Int.tdiv x 8 + Int.tmod x 8 ∧ (0 ≤ x → 0 ≤ Int.tmod x 8 ∧ Int.tmod x 8 < 8) ∧
      (x ≤ 0 → -8 < Int.tmod x 8 ∧ Int.tmod x 8 ≤ 0) := by
  refine ⟨(Int.mul_tdiv_add_tmod x 8).symm, ?_, ?_⟩
  · intro h
    obtain ⟨n, rfl⟩ := Int.eq_ofNat_of_zero_le h
    rw [tmod_nat]; omega
  · intro h
    obtain ⟨n, rfl⟩ := Int.exists_eq_neg_ofNat h
    rw [Int.neg_tmod, tmod_nat]; omega

theorem sliceI_ok_bounds {d : Bytes} {a b : Int} {v : Bytes} (h : Go.sliceI d a b = .ok v) :
    0 ≤ a ∧ 0 ≤ b ∧ a ≤ b ∧ b ≤ (d.length : Int) := by
  unfold Go.sliceI at h
  split at h
  · cases h
  · unfold Go.slice at h
    split at h
    · omega
    · cases h

theorem sliceI_cases (d : Bytes) (a b : Int) : Go.sliceI d a b = .error .panic ∨ ∃ v, Go.sliceI d a b = .ok v := by
  unfold Go.sliceI Go.slice
  split
  · exact Or.inl rfl
  · split
    · exact Or.inr ⟨_, rfl⟩
    · exact Or.inl rfl

theorem sliceI_neg (d : Bytes) (a b : Int) (h : a < 0) : Go.sliceI d a b = .error .panic := by
  simp [Go.sliceI, h]

end Goflow.Go
