import Proofs.Lemmas.Fields
import Goflow.Decoders.Netflow
/-! progress lemmas for the data-set loops of the NetFlow v9 / IPFIX decoder -/
namespace Goflow.Netflow

theorem templateSize_cons (f : Field) (fs : List Field) :
    templateSize (f :: fs) = (if f.length = 0xffff then 1 else f.length) + templateSize fs := by
  simp [templateSize]

/-- the field loop leaves at most `len - templateSize` bytes: every fixed field takes its length
    (or everything that is left), every variable-length field at least its one-byte prefix -/
theorem decodeFieldValues_consumes (fs : List Field) (b b' : Bytes) (dfs : List DataField)
    (h : decodeFieldValues fs b = .ok (dfs, b')) :
    b'.length ≤ b.length - templateSize fs ∧ dfs.length = fs.length := by
  induction fs generalizing b b' dfs with
  | nil =>
    simp only [decodeFieldValues, Except.ok.injEq, Prod.mk.injEq] at h
    obtain ⟨rfl, rfl⟩ := h
    simp [templateSize]
  | cons f fs ih =>
    rw [templateSize_cons]
    unfold decodeFieldValues at h
    by_cases hv : f.length = 0xffff
    · simp only [hv, if_true] at h ⊢
      by_cases h1 : 1 ≤ b.length
      · rw [readU_ok h1] at h
        simp only at h
        by_cases h255 : beNat (b.take 1) = 0xff
        · simp only [h255, if_true] at h
          by_cases h2 : 2 ≤ (b.drop 1).length
          · rw [readU_ok h2] at h
            simp only [nextN] at h
            split at h
            · cases h
            · rename_i dfs' b3 hrec
              cases h
              have := ih _ _ _ hrec
              simp only [List.length_drop] at this h2
              simp only [List.length_cons]
              omega
          · rw [readU_short (Nat.lt_of_not_le h2)] at h
            cases h
        · simp only [h255, if_false, nextN] at h
          split at h
          · cases h
          · rename_i dfs' b3 hrec
            cases h
            have := ih _ _ _ hrec
            simp only [List.length_drop] at this
            simp only [List.length_cons]
            omega
      · rw [readU_short (Nat.lt_of_not_le h1)] at h
        cases h
    · simp only [hv, if_false, nextN] at h ⊢
      split at h
      · cases h
      · rename_i dfs' b3 hrec
        cases h
        have := ih _ _ _ hrec
        simp only [List.length_drop] at this
        simp only [List.length_cons]
        omega

/-- the field loop fails only with a short read -/
theorem decodeFieldValues_err (fs : List Field) (b : Bytes) (e : Err)
    (h : decodeFieldValues fs b = .error e) : e = .eof := by
  induction fs generalizing b with
  | nil => simp [decodeFieldValues] at h
  | cons f fs ih =>
    unfold decodeFieldValues at h
    by_cases hv : f.length = 0xffff
    · simp only [hv, if_true] at h
      by_cases h1 : 1 ≤ b.length
      · rw [readU_ok h1] at h
        simp only at h
        by_cases h255 : beNat (b.take 1) = 0xff
        · simp only [h255, if_true] at h
          by_cases h2 : 2 ≤ (b.drop 1).length
          · rw [readU_ok h2] at h
            simp only [nextN] at h
            split at h
            · rename_i e' hrec; cases h; exact ih _ hrec
            · cases h
          · rw [readU_short (Nat.lt_of_not_le h2)] at h
            cases h; rfl
        · simp only [h255, if_false, nextN] at h
          split at h
          · rename_i e' hrec; cases h; exact ih _ hrec
          · cases h
      · rw [readU_short (Nat.lt_of_not_le h1)] at h
        cases h; rfl
    · simp only [hv, if_false, nextN] at h
      split at h
      · rename_i e' hrec; cases h; exact ih _ hrec
      · cases h

/-- DecodeDataSet never returns more records than fit: |records| · size ≤ |payload| -/
theorem decodeDataSetLoop_bound (fs : List Field) (fuel : Nat) (b : Bytes) (rs : List DataRecord)
    (h : decodeDataSetLoop fs fuel b = .ok rs) : rs.length * templateSize fs ≤ b.length := by
  induction fuel generalizing b rs with
  | zero => simp [decodeDataSetLoop] at h
  | succ fuel ih =>
    unfold decodeDataSetLoop at h
    by_cases hsz : templateSize fs ≤ b.length
    · simp only [hsz, if_true, decodeDataSetUsingFields] at h
      split at h
      · cases h
      · rename_i vs b1 hdec
        split at h
        · cases h
        · rename_i rs' hrec
          cases h
          have h1 := (decodeFieldValues_consumes _ _ _ _ hdec).1
          have h2 := ih _ _ hrec
          simp only [List.length_cons, Nat.add_mul, Nat.one_mul]
          omega
    · simp only [hsz, if_false] at h
      cases h
      simp

/-- with a record size > 0 the loop terminates within `len + 1` iterations: fuel `len + 1` never runs out -/
theorem decodeDataSetLoop_terminates (fs : List Field) (hpos : 0 < templateSize fs) (fuel : Nat) (b : Bytes)
    (hf : b.length < fuel) : decodeDataSetLoop fs fuel b ≠ .error .diverge := by
  induction fuel generalizing b with
  | zero => omega
  | succ fuel ih =>
    unfold decodeDataSetLoop
    by_cases hsz : templateSize fs ≤ b.length
    · simp only [hsz, if_true, decodeDataSetUsingFields]
      split
      · rename_i e hdec
        intro h
        cases h
        have := decodeFieldValues_err _ _ _ hdec
        cases this
      · rename_i vs b1 hdec
        have h1 := (decodeFieldValues_consumes _ _ _ _ hdec).1
        have hlt : b1.length < fuel := by omega
        have := ih b1 hlt
        split
        · rename_i e he
          intro h; cases h; exact this he
        · intro h; cases h
    · simp [hsz]

end Goflow.Netflow
