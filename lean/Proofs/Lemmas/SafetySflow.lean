import Proofs.Lemmas.Safety
import Goflow.Decoders.Sflow
import Goflow.Decoders.NetflowLegacy
/-! Safety lemmas for the sFlow v5 and NetFlow v5 decoder models: every error is `eof` or `bad`. -/
namespace Goflow

def Err.R (e : Err) : Prop := e = .eof ∨ e = .bad

theorem takeN_err {n : Nat} {b : Bytes} {e : Err} (h : takeN n b = .error e) : e = .eof := by
  unfold takeN at h; split at h <;> cases h; rfl

theorem readWords_err {w n : Nat} {b : Bytes} {e : Err} (h : readWords w n b = .error e) : e = .eof := by
  induction n generalizing b with
  | zero => simp [readWords] at h
  | succ n ih =>
    unfold readWords at h
    cases hr : readU w b with
    | error e' => rw [hr] at h; cases h; exact readU_err hr
    | ok p =>
      obtain ⟨v, b1⟩ := p
      rw [hr] at h
      simp only at h
      cases hw : readWords w n b1 with
      | error e' => rw [hw] at h; cases h; exact ih hw
      | ok q => rw [hw] at h; cases h

namespace Sflow

theorem readItems_err {is : List Item} {b : Bytes} {e : Err} (h : readItems is b = .error e) : e = .eof := by
  induction is generalizing b with
  | nil => simp [readItems] at h
  | cons i is ih =>
    cases i with
    | u w =>
      unfold readItems at h
      cases hr : readU w b with
      | error e' => rw [hr] at h; cases h; exact readU_err hr
      | ok p =>
        obtain ⟨v, b1⟩ := p
        rw [hr] at h
        simp only at h
        cases hi : readItems is b1 with
        | error e' => rw [hi] at h; cases h; exact ih hi
        | ok q => rw [hi] at h; cases h
    | b n =>
      unfold readItems at h
      cases hr : takeN n b with
      | error e' => rw [hr] at h; cases h; exact takeN_err hr
      | ok p =>
        obtain ⟨v, b1⟩ := p
        rw [hr] at h
        simp only at h
        cases hi : readItems is b1 with
        | error e' => rw [hi] at h; cases h; exact ih hi
        | ok q => rw [hi] at h; cases h

theorem decodeIP_err {b : Bytes} {e : Err} (h : decodeIP b = .error e) : e.R := by
  unfold decodeIP at h
  cases hr : readU 4 b with
  | error e' => rw [hr] at h; cases h; left; exact readU_err hr
  | ok p =>
    obtain ⟨v, b1⟩ := p
    rw [hr] at h
    simp only at h
    generalize (if v = 1 then 4 else if v = 2 then 16 else 0) = n at h
    by_cases h0 : n = 0
    · simp only [h0, if_true] at h; cases h; right; rfl
    · simp only [h0, if_false] at h
      by_cases hle : n ≤ b1.length
      · simp only [hle, if_true] at h; cases h
      · simp only [hle, if_false] at h; cases h; right; rfl

theorem readString_err {b : Bytes} {e : Err} (h : readString b = .error e) : e = .eof := by
  unfold readString at h
  cases hr : readU 4 b with
  | error e' => rw [hr] at h; cases h; exact readU_err hr
  | ok p =>
    obtain ⟨n, b1⟩ := p
    rw [hr] at h
    simp only at h
    cases ht : takeN n b1 with
    | error e' => rw [ht] at h; cases h; exact takeN_err ht
    | ok q => rw [ht] at h; cases h

theorem readCapped_err {len : Nat} {b : Bytes} {e : Err} (h : readCapped len b = .error e) : e.R := by
  unfold readCapped at h
  split at h
  · cases h; right; rfl
  · split at h
    · cases h; right; rfl
    · left; exact readWords_err h

theorem decodeCounterRecord_err {fmt len : Nat} {b : Bytes} {e : Err} (h : decodeCounterRecord fmt len b = .error e) : e.R := by
  unfold decodeCounterRecord at h
  split at h
  · cases hr : readFields ifCountersW b with
    | error e' => rw [hr] at h; cases h; left; exact readFields_err hr
    | ok p => rw [hr] at h; cases h
  · split at h
    · cases hr : readFields ethCountersW b with
      | error e' => rw [hr] at h; cases h; left; exact readFields_err hr
      | ok p => rw [hr] at h; cases h
    · cases h

theorem decodeFlowRecord_err {fmt len : Nat} {b : Bytes} {e : Err} (h : decodeFlowRecord fmt len b = .error e) : e.R := by
  unfold decodeFlowRecord at h
  split at h
  · -- raw header
    cases hr : readFields [4, 4, 4, 4] b with
    | error e' => rw [hr] at h; cases h; left; exact readFields_err hr
    | ok p => rw [hr] at h; cases h
  · split at h
    · -- extended router
      cases hi : decodeIP b with
      | error e' => rw [hi] at h; cases h; exact decodeIP_err hi
      | ok p =>
        obtain ⟨v, ip, b1⟩ := p
        rw [hi] at h
        simp only at h
        cases hr : readFields [4, 4] b1 with
        | error e' => rw [hr] at h; cases h; left; exact readFields_err hr
        | ok q =>
          obtain ⟨vs, b2⟩ := q
          rw [hr] at h
          obtain ⟨hl, _⟩ := readFields_length hr
          match vs, hl with
          | [x, y], _ => cases h
    · split at h
      · -- extended gateway
        cases hi : decodeIP b with
        | error e' => rw [hi] at h; cases h; exact decodeIP_err hi
        | ok p =>
          obtain ⟨v, ip, b1⟩ := p
          rw [hi] at h
          simp only at h
          cases hr : readFields [4, 4, 4, 4] b1 with
          | error e' => rw [hr] at h; cases h; left; exact readFields_err hr
          | ok q =>
            obtain ⟨hd, b2⟩ := q
            rw [hr] at h
            simp only at h
            -- the AS-path part
            split at h
            · rename_i e' hpath
              cases h
              split at hpath
              · cases hr2 : readFields [4, 4] b2 with
                | error e'' => rw [hr2] at hpath; cases hpath; left; exact readFields_err hr2
                | ok q2 =>
                  obtain ⟨tl, b3⟩ := q2
                  rw [hr2] at hpath
                  obtain ⟨hl, _⟩ := readFields_length hr2
                  match tl, hl with
                  | [pt, pl], _ =>
                    simp only at hpath
                    cases hc : readCapped pl b3 with
                    | error e'' => rw [hc] at hpath; cases hpath; exact readCapped_err hc
                    | ok q3 => rw [hc] at hpath; cases hpath
              · cases hpath
            · rename_i pt pl path b4 hpath
              cases hu : readU 4 b4 with
              | error e' => rw [hu] at h; cases h; left; exact readU_err hu
              | ok q2 =>
                obtain ⟨cl, b5⟩ := q2
                rw [hu] at h
                simp only at h
                cases hc : readCapped cl b5 with
                | error e' => rw [hc] at h; cases h; exact readCapped_err hc
                | ok q3 =>
                  obtain ⟨comm, b6⟩ := q3
                  rw [hc] at h
                  simp only at h
                  cases hu2 : readU 4 b6 with
                  | error e' => rw [hu2] at h; cases h; left; exact readU_err hu2
                  | ok q4 => rw [hu2] at h; cases h
      · split at h
        · -- ACL
          cases hu : readU 4 b with
          | error e' => rw [hu] at h; cases h; left; exact readU_err hu
          | ok q =>
            obtain ⟨num, b1⟩ := q
            rw [hu] at h
            simp only at h
            cases hs : readString b1 with
            | error e' => rw [hs] at h; cases h; left; exact readString_err hs
            | ok q2 =>
              obtain ⟨name, b2⟩ := q2
              rw [hs] at h
              simp only at h
              cases hu2 : readU 4 b2 with
              | error e' => rw [hu2] at h; cases h; left; exact readU_err hu2
              | ok q3 => rw [hu2] at h; cases h
        · split at h
          · cases hs : readString b with
            | error e' => rw [hs] at h; cases h; left; exact readString_err hs
            | ok q2 => rw [hs] at h; cases h
          · split at h
            · rename_i lay _
              cases hi : readItems lay b with
              | error e' => rw [hi] at h; cases h; left; exact readItems_err hi
              | ok q => rw [hi] at h; cases h
            · cases h

/-- the record loop: errors come only from the record header read and from the record decoder -/
theorem recordLoop_err {α} (dec : Nat → Nat → Bytes → Res α)
    (hdec : ∀ f l b e, dec f l b = .error e → e.R) (n : Nat) (b : Bytes) (e : Err)
    (h : recordLoop dec n b = .error e) : e.R := by
  induction n generalizing b with
  | zero => simp [recordLoop] at h
  | succ n ih =>
    unfold recordLoop at h
    split at h
    · cases hr : readFields [4, 4] b with
      | error e' => rw [hr] at h; cases h; left; exact readFields_err hr
      | ok q =>
        obtain ⟨vs, b1⟩ := q
        rw [hr] at h
        obtain ⟨hl, _⟩ := readFields_length hr
        match vs, hl with
        | [fmt, len], _ =>
          simp only at h
          split at h
          · cases h
          · cases hd : dec fmt len (b1.take len) with
            | error e' => rw [hd] at h; cases h; exact hdec _ _ _ _ hd
            | ok r =>
              rw [hd] at h
              simp only at h
              cases hrec : recordLoop dec n (b1.drop len) with
              | error e' => rw [hrec] at h; cases h; exact ih _ hrec
              | ok rs => rw [hrec] at h; cases h
    · cases h

theorem decodeSample_err {fmt len : Nat} {b : Bytes} {e : Err} (h : decodeSample fmt len b = .error e) : e.R := by
  unfold decodeSample at h
  cases hu : readU 4 b with
  | error e' => rw [hu] at h; cases h; left; exact readU_err hu
  | ok q =>
    obtain ⟨seq, b1⟩ := q
    rw [hu] at h
    simp only at h
    split at h
    · rename_i e' hsrc
      cases h
      split at hsrc
      · cases hu2 : readU 4 b1 with
        | error e'' => rw [hu2] at hsrc; cases hsrc; left; exact readU_err hu2
        | ok q2 => rw [hu2] at hsrc; cases hsrc
      · split at hsrc
        · cases hr : readFields [4, 4] b1 with
          | error e'' => rw [hr] at hsrc; cases hsrc; left; exact readFields_err hr
          | ok q2 =>
            obtain ⟨vs, b2⟩ := q2
            rw [hr] at hsrc
            obtain ⟨hl, _⟩ := readFields_length hr
            match vs, hl with
            | [t, v], _ => cases hsrc
        · cases hsrc; right; rfl
    · rename_i st sv b2 hsrc
      split at h
      · cases hr : readFields [4, 4, 4, 4, 4, 4] b2 with
        | error e' => rw [hr] at h; cases h; left; exact readFields_err hr
        | ok q2 =>
          obtain ⟨vs, b3⟩ := q2
          rw [hr] at h
          simp only at h
          split at h
          · cases h; right; rfl
          · cases hl : recordLoop decodeFlowRecord (vs.getD 5 0) b3 with
            | error e' => rw [hl] at h; cases h; exact recordLoop_err _ (fun _ _ _ _ hd => decodeFlowRecord_err hd) _ _ _ hl
            | ok rs => rw [hl] at h; cases h
      · split at h
        · cases hr : readU 4 b2 with
          | error e' => rw [hr] at h; cases h; left; exact readU_err hr
          | ok q2 =>
            obtain ⟨cnt, b3⟩ := q2
            rw [hr] at h
            simp only at h
            split at h
            · cases h; right; rfl
            · cases hl : recordLoop decodeCounterRecord cnt b3 with
              | error e' => rw [hl] at h; cases h; exact recordLoop_err _ (fun _ _ _ _ hd => decodeCounterRecord_err hd) _ _ _ hl
              | ok rs => rw [hl] at h; cases h
        · split at h
          · cases hr : readFields [4, 4, 4, 4, 4, 4, 4, 4] b2 with
            | error e' => rw [hr] at h; cases h; left; exact readFields_err hr
            | ok q2 =>
              obtain ⟨vs, b3⟩ := q2
              rw [hr] at h
              simp only at h
              split at h
              · cases h; right; rfl
              · cases hl : recordLoop decodeFlowRecord (vs.getD 7 0) b3 with
                | error e' => rw [hl] at h; cases h; exact recordLoop_err _ (fun _ _ _ _ hd => decodeFlowRecord_err hd) _ _ _ hl
                | ok rs => rw [hl] at h; cases h
          · cases hr : readFields [4, 4, 4, 4, 4] b2 with
            | error e' => rw [hr] at h; cases h; left; exact readFields_err hr
            | ok q2 =>
              obtain ⟨vs, b3⟩ := q2
              rw [hr] at h
              simp only at h
              split at h
              · cases h; right; rfl
              · cases hl : recordLoop decodeFlowRecord (vs.getD 4 0) b3 with
                | error e' => rw [hl] at h; cases h; exact recordLoop_err _ (fun _ _ _ _ hd => decodeFlowRecord_err hd) _ _ _ hl
                | ok rs => rw [hl] at h; cases h

theorem sampleLoop_err (n : Nat) (b : Bytes) (e : Err) (h : sampleLoop n b = .error e) : e.R := by
  induction n generalizing b with
  | zero => simp [sampleLoop] at h
  | succ n ih =>
    unfold sampleLoop at h
    split at h
    · cases hr : readFields [4, 4] b with
      | error e' => rw [hr] at h; cases h; left; exact readFields_err hr
      | ok q =>
        obtain ⟨vs, b1⟩ := q
        rw [hr] at h
        obtain ⟨hl, _⟩ := readFields_length hr
        match vs, hl with
        | [fmt, len], _ =>
          simp only at h
          split at h
          · cases h
          · cases hd : decodeSample fmt len (b1.take len) with
            | error e' => rw [hd] at h; cases h; exact decodeSample_err hd
            | ok r =>
              rw [hd] at h
              simp only at h
              cases hrec : sampleLoop n (b1.drop len) with
              | error e' => rw [hrec] at h; cases h; exact ih _ hrec
              | ok rs => rw [hrec] at h; cases h
    · cases h

theorem decodeMessageVersion_err {b : Bytes} {e : Err} (h : decodeMessageVersion b = .error e) : e.R := by
  unfold decodeMessageVersion at h
  cases hu : readU 4 b with
  | error e' => rw [hu] at h; cases h; left; exact readU_err hu
  | ok q =>
    obtain ⟨v, b1⟩ := q
    rw [hu] at h
    simp only at h
    split at h
    · cases h; right; rfl
    · unfold decodeMessage at h
      cases hu2 : readU 4 b1 with
      | error e' => rw [hu2] at h; cases h; left; exact readU_err hu2
      | ok q2 =>
        obtain ⟨ipv, b2⟩ := q2
        rw [hu2] at h
        simp only at h
        generalize (if ipv = 1 then 4 else if ipv = 2 then 16 else 0) = n at h
        by_cases h0 : n = 0
        · simp only [h0, if_true] at h; cases h; right; rfl
        · simp only [h0, if_false] at h
          cases ht : takeN n b2 with
          | error e' => rw [ht] at h; cases h; left; exact takeN_err ht
          | ok q3 =>
            obtain ⟨ip, b3⟩ := q3
            rw [ht] at h
            simp only at h
            cases hr : readFields [4, 4, 4, 4] b3 with
            | error e' => rw [hr] at h; cases h; left; exact readFields_err hr
            | ok q4 =>
              obtain ⟨hd, b4⟩ := q4
              rw [hr] at h
              simp only at h
              split at h
              · cases h; right; rfl
              · cases hs : sampleLoop (hd.getD 3 0) b4 with
                | error e' => rw [hs] at h; cases h; exact sampleLoop_err _ _ _ hs
                | ok ss => rw [hs] at h; cases h

end Sflow

namespace V5

theorem decodeMessageVersion_err {b : Bytes} {e : Err} (h : decodeMessageVersion b = .error e) : e.R := by
  unfold decodeMessageVersion at h
  cases hu : readU 2 b with
  | error e' => rw [hu] at h; cases h; left; exact readU_err hu
  | ok q =>
    obtain ⟨v, b1⟩ := q
    rw [hu] at h
    simp only at h
    split at h
    · cases h; right; rfl
    · unfold decodeMessage at h
      cases hr : readFields Header.widths b1 with
      | error e' => rw [hr] at h; cases h; left; exact readFields_err hr
      | ok q2 =>
        obtain ⟨vs, b2⟩ := q2
        rw [hr] at h
        obtain ⟨hl, _⟩ := readFields_length hr
        simp only at h
        have hsome : ∃ hdr, Header.ofList vs = some hdr := by
          match vs, hl with
          | [a, b, c, d, e, f, g, h], _ => exact ⟨_, rfl⟩
        obtain ⟨hdr, hh⟩ := hsome
        rw [hh] at h
        simp only at h
        -- the record loop
        have loop : ∀ (n : Nat) (b : Bytes) (e : Err), readRecords n b = .error e → e.R := by
          intro n
          induction n with
          | zero => intro b e h; simp [readRecords] at h
          | succ n ih =>
            intro b e h
            unfold readRecords at h
            split at h
            · unfold readRecord at h
              cases hr2 : readFields Record.widths b with
              | error e' => rw [hr2] at h; cases h; left; exact readFields_err hr2
              | ok q3 =>
                obtain ⟨rv, b3⟩ := q3
                rw [hr2] at h
                obtain ⟨hl2, _⟩ := readFields_length hr2
                have hsome2 : ∃ r, Record.ofList rv = some r := by
                  match rv, hl2 with
                  | [a, b, c, d, e, f, g, h, i, j, k, l, m, n, o, p, q, r, s, t], _ => exact ⟨_, rfl⟩
                obtain ⟨r, hr3⟩ := hsome2
                simp only [hr3] at h
                cases hrec : readRecords n b3 with
                | error e' => rw [hrec] at h; cases h; exact ih _ _ hrec
                | ok rs => rw [hrec] at h; cases h
            · cases h
        cases hrec : readRecords hdr.count b2 with
        | error e' => rw [hrec] at h; cases h; exact loop _ _ _ hrec
        | ok rs => rw [hrec] at h; cases h

end V5
end Goflow
