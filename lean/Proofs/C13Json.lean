import Goflow.Format.Formatter
/-! JSON well-formedness of what the formatter writes: string literals (every byte string) -/
namespace Goflow.C13
open Goflow Goflow.Format Goflow.Spec.Json

theorem strBody_plain (b : UInt8) (t : List UInt8) (h1 : b ≠ 0x22) (h2 : b ≠ 0x5c) (h3 : ¬ b < 0x20) :
    strBody (b :: t) = strBody t := by
  rw [strBody.eq_def]; simp [h1, h2, h3]

theorem strBody_simple (e : UInt8) (t : List UInt8) (h : isSimpleEscape e = true) :
    strBody (0x5c :: e :: t) = strBody t := by
  rw [strBody.eq_def]; simp [h]

theorem strBody_u (a b c d : UInt8) (t : List UInt8) (ha : isHex a = true) (hb : isHex b = true) (hc : isHex c = true) (hd : isHex d = true) :
    strBody (0x5c :: 0x75 :: a :: b :: c :: d :: t) = strBody t := by
  rw [strBody.eq_def]
  have : isSimpleEscape 0x75 = false := by decide
  simp [this, ha, hb, hc, hd]

theorem strBody_quote (t : List UInt8) : strBody (0x22 :: t) = some t := by
  rw [strBody.eq_def]; simp

theorem hexDigit_isHex : ∀ k : Fin 16, isHex (UInt8.ofNat (hexDigit k.val).toNat) = true := by decide

theorem hexByte_isHex (n : Nat) (hn : n < 256) : ∃ a b, hexByte n = [a, b] ∧ isHex a = true ∧ isHex b = true := by
  refine ⟨_, _, rfl, ?_, ?_⟩
  · exact hexDigit_isHex ⟨n / 16, by omega⟩
  · exact hexDigit_isHex ⟨n % 16, Nat.mod_lt _ (by decide)⟩

/-- bytes that stand for themselves inside a JSON string -/
def plain (b : UInt8) : Prop := b ≠ 0x22 ∧ b ≠ 0x5c ∧ ¬ b < 0x20

theorem strBody_plains (enc t : List UInt8) (h : ∀ x ∈ enc, plain x) : strBody (enc ++ t) = strBody t := by
  induction enc with
  | nil => rfl
  | cons x xs ih =>
    have hx := h x (by simp)
    rw [List.cons_append, strBody_plain x _ hx.1 hx.2.1 hx.2.2]
    exact ih (fun y hy => h y (by simp [hy]))

theorem ascii_escape_ok (b : UInt8) (t : List UInt8) :
    strBody (escapeOrSelf b ++ t) = strBody t := by
  unfold escapeOrSelf asciiEscape
  by_cases h1 : b = 0x22 ∨ b = 0x5c
  · simp only [h1, if_true]
    have : isSimpleEscape b = true := by rcases h1 with h | h <;> (subst h; decide)
    exact strBody_simple b t this
  simp only [h1, if_false]
  by_cases h2 : b = 0x08
  · simp only [h2, if_true]; exact strBody_simple _ t (by decide)
  simp only [h2, if_false]
  by_cases h3 : b = 0x0c
  · simp only [h3, if_true]; exact strBody_simple _ t (by decide)
  simp only [h3, if_false]
  by_cases h4 : b = 0x0a
  · simp only [h4, if_true]; exact strBody_simple _ t (by decide)
  simp only [h4, if_false]
  by_cases h5 : b = 0x0d
  · simp only [h5, if_true]; exact strBody_simple _ t (by decide)
  simp only [h5, if_false]
  by_cases h6 : b = 0x09
  · simp only [h6, if_true]; exact strBody_simple _ t (by decide)
  simp only [h6, if_false]
  by_cases h7 : b < 0x20 ∨ b = 0x3c ∨ b = 0x3e ∨ b = 0x26
  · simp only [h7, if_true]
    obtain ⟨x, y, hxy, hx, hy⟩ := hexByte_isHex b.toNat (UInt8.toNat_lt b)
    rw [hxy]
    exact strBody_u 0x30 0x30 x y t (by decide) (by decide) hx hy
  · simp only [h7, if_false]
    have hp : plain b := by
      refine ⟨fun h => h1 (Or.inl h), fun h => h1 (Or.inr h), fun h => h7 (Or.inl h)⟩
    exact strBody_plains [b] t (by simpa using hp)
theorem plain_of_hi (x : UInt8) (h : 0x80 ≤ x) : plain x := by
  have hn : 128 ≤ x.toNat := by simpa [UInt8.le_iff_toNat_le] using h
  refine ⟨?_, ?_, ?_⟩
  · intro e; subst e; simp at hn
  · intro e; subst e; simp at hn
  · intro hl
    have : x.toNat < 32 := by simpa [UInt8.lt_iff_toNat_lt] using hl
    omega

theorem hi_of_isCont (x : UInt8) (h : isCont x = true) : 0x80 ≤ x := by
  unfold isCont at h; simp at h; exact h.1

theorem hi_trans (a x : UInt8) (ha : 0x80 ≤ a) (h : a ≤ x) : 0x80 ≤ x := UInt8.le_trans ha h

/-- a valid multi-byte encoding consists of bytes ≥ 0x80 only -/
theorem utf8_plain (bs : Bytes) (h : utf8Size bs ≠ 0) : ∀ x ∈ bs.take (utf8Size bs), plain x := by
  cases bs with
  | nil => simp [utf8Size] at h
  | cons b0 rest =>
    unfold utf8Size at h ⊢
    by_cases c2 : 0xC2 ≤ b0 ∧ b0 ≤ 0xDF
    · simp only [c2, and_self, if_true] at h ⊢
      have hb0 : 0x80 ≤ b0 := hi_trans 0xC2 b0 (by decide) c2.1
      cases rest with
      | nil => simp at h
      | cons b1 r =>
        by_cases hc : isCont b1 = true
        · simp only [hc, if_true]
          intro x hx
          simp at hx
          rcases hx with e | e <;> subst e
          · exact plain_of_hi _ hb0
          · exact plain_of_hi _ (hi_of_isCont _ hc)
        · simp [hc] at h
    · simp only [c2, if_false] at h ⊢
      by_cases c3 : 0xE0 ≤ b0 ∧ b0 ≤ 0xEF
      · simp only [c3, and_self, if_true] at h ⊢
        have hb0 : 0x80 ≤ b0 := hi_trans 0xE0 b0 (by decide) c3.1
        match rest, h with
        | [], h => simp at h
        | [_], h => simp at h
        | b1 :: b2 :: r, h =>
          simp only at h ⊢
          by_cases hc : (if b0 = 0xE0 then (0xA0 : UInt8) else 0x80) ≤ b1 ∧ b1 ≤ (if b0 = 0xED then (0x9F : UInt8) else 0xBF) ∧ isCont b2 = true
          · simp only [hc, and_self, if_true]
            have hb1 : 0x80 ≤ b1 := by
              have := hc.1
              split at this
              · exact hi_trans 0xA0 b1 (by decide) this
              · exact this
            intro x hx
            simp at hx
            rcases hx with e | e | e <;> subst e
            · exact plain_of_hi _ hb0
            · exact plain_of_hi _ hb1
            · exact plain_of_hi _ (hi_of_isCont _ hc.2.2)
          · simp [hc] at h
      · simp only [c3, if_false] at h ⊢
        by_cases c4 : 0xF0 ≤ b0 ∧ b0 ≤ 0xF4
        · simp only [c4, and_self, if_true] at h ⊢
          have hb0 : 0x80 ≤ b0 := hi_trans 0xF0 b0 (by decide) c4.1
          match rest, h with
          | [], h => simp at h
          | [_], h => simp at h
          | [_, _], h => simp at h
          | b1 :: b2 :: b3 :: r, h =>
            simp only at h ⊢
            by_cases hc : (if b0 = 0xF0 then (0x90 : UInt8) else 0x80) ≤ b1 ∧ b1 ≤ (if b0 = 0xF4 then (0x8F : UInt8) else 0xBF) ∧ isCont b2 = true ∧ isCont b3 = true
            · simp only [hc, and_self, if_true]
              have hb1 : 0x80 ≤ b1 := by
                have := hc.1
                split at this
                · exact hi_trans 0x90 b1 (by decide) this
                · exact this
              intro x hx
              simp at hx
              rcases hx with e | e | e | e <;> subst e
              · exact plain_of_hi _ hb0
              · exact plain_of_hi _ hb1
              · exact plain_of_hi _ (hi_of_isCont _ hc.2.2.1)
              · exact plain_of_hi _ (hi_of_isCont _ hc.2.2.2)
            · simp [hc] at h
        · simp [c4] at h

/-- whatever bytes a rendered value consists of, the escaped body followed by the closing quote is
    read by the JSON string recogniser up to exactly that quote -/
theorem jsonQuoteBody_closed (fuel : Nat) (bs t : Bytes) :
    strBody (jsonQuoteBody fuel bs ++ 0x22 :: t) = some t := by
  induction fuel generalizing bs with
  | zero => simp [jsonQuoteBody, strBody_quote]
  | succ n ih =>
    cases bs with
    | nil => simp [jsonQuoteBody, strBody_quote]
    | cons b rest =>
      unfold jsonQuoteBody
      by_cases hb : b < 0x80
      · simp only [hb, if_true, List.append_assoc]
        rw [ascii_escape_ok]
        exact ih rest
      · simp only [hb, if_false]
        by_cases hn : utf8Size (b :: rest) = 0
        · simp only [hn, if_true, List.append_assoc]
          rw [show ([0x5c, 0x75, 0x66, 0x66, 0x66, 0x64] : Bytes) ++ (jsonQuoteBody n rest ++ 0x22 :: t) =
                0x5c :: 0x75 :: 0x66 :: 0x66 :: 0x66 :: 0x64 :: (jsonQuoteBody n rest ++ 0x22 :: t) from rfl]
          rw [strBody_u _ _ _ _ _ (by decide) (by decide) (by decide) (by decide)]
          exact ih rest
        · simp only [hn, if_false]
          split
          · simp only [List.append_assoc]
            rw [show ([0x5c, 0x75, 0x32, 0x30, 0x32, 0x38] : Bytes) ++ (jsonQuoteBody n (rest.drop (utf8Size (b :: rest) - 1)) ++ 0x22 :: t) =
                  0x5c :: 0x75 :: 0x32 :: 0x30 :: 0x32 :: 0x38 :: (jsonQuoteBody n (rest.drop (utf8Size (b :: rest) - 1)) ++ 0x22 :: t) from rfl]
            rw [strBody_u _ _ _ _ _ (by decide) (by decide) (by decide) (by decide)]
            exact ih _
          · split
            · simp only [List.append_assoc]
              rw [show ([0x5c, 0x75, 0x32, 0x30, 0x32, 0x39] : Bytes) ++ (jsonQuoteBody n (rest.drop (utf8Size (b :: rest) - 1)) ++ 0x22 :: t) =
                    0x5c :: 0x75 :: 0x32 :: 0x30 :: 0x32 :: 0x39 :: (jsonQuoteBody n (rest.drop (utf8Size (b :: rest) - 1)) ++ 0x22 :: t) from rfl]
              rw [strBody_u _ _ _ _ _ (by decide) (by decide) (by decide) (by decide)]
              exact ih _
            · simp only [List.append_assoc]
              rw [strBody_plains _ _ (utf8_plain (b :: rest) hn)]
              exact ih _

/-- C13, string values: for every byte string `v` the JSON form `"…"` written for it is one JSON
    string literal — the recogniser accepts it and stops exactly behind its closing quote. This is
    what failed on the pinned tree for values containing a quote, backslash or control byte. -/
theorem jsonQuote_valid (v t : Bytes) : ∃ body, jsonQuote v = 0x22 :: body ∧ strBody (body ++ t) = some t := by
  refine ⟨jsonQuoteBody (v.length + 1) v ++ [0x22], by simp [jsonQuote], ?_⟩
  rw [List.append_assoc]
  exact jsonQuoteBody_closed _ _ _

end Goflow.C13
