import Proofs.C07
import Proofs.Lemmas.SafetySflow
import Goflow.Generated.Makes
/-!
  C02 — Memory per datagram is bounded by its size, not by counts it claims.

  PARTIAL: the theorems bound what sizes every `make` of the decoders (the regenerated list of make
  sites) and how many objects a decode can return, in terms of the datagram length and the width of
  the referenced template — never in terms of a count or length field of the datagram. Byte figures
  of the real allocator (size classes, interface boxing, GC) are measured by the check (TotalAlloc
  per datagram against the property's budget), not proved.
-/
namespace Goflow.C02
open Goflow

/-- every `make` of the three decoders is sized by a constant, by the length of an already decoded
    list, by a 16-bit field (at most 65 535 elements, each at most 72 bytes: below the 16 MiB
    constant of the budget), or by a count that a preceding `if count > 1000 { return }` in the
    same branch has capped (regenerated from the Go source; a new or un-capped make breaks this) -/
theorem make_sites_capped :
    Goflow.Generated.makeSites.all (fun s => s.2.2.2.2 ∈ ["const", "len", "uint16", "cap1000"]) = true ∧
    (Goflow.Generated.makeSites.filter (fun s => s.2.2.2.2 == "cap1000")).length = 7 ∧
    Goflow.Generated.makeSites.length = 24 := by
  decide +kernel

open Goflow.Sflow in
/-- sFlow: whatever counts the datagram claims, a decoded sample has at most 1000 records and a
    decoded datagram at most 1000 samples -/
theorem sflow_make_capped (b : Bytes) (p : Sflow.Packet) (h : Sflow.decodeMessageVersion b = .ok p) :
    p.samples.length ≤ 1000 := by
  unfold decodeMessageVersion at h
  cases hu : readU 4 b with
  | error e => rw [hu] at h; cases h
  | ok q =>
    obtain ⟨v, b1⟩ := q
    rw [hu] at h
    simp only at h
    split at h
    · cases h
    · unfold decodeMessage at h
      cases hu2 : readU 4 b1 with
      | error e => rw [hu2] at h; cases h
      | ok q2 =>
        obtain ⟨ipv, b2⟩ := q2
        rw [hu2] at h
        simp only at h
        generalize (if ipv = 1 then 4 else if ipv = 2 then 16 else 0) = n at h
        split at h
        · cases h
        · cases ht : takeN n b2 with
          | error e => rw [ht] at h; cases h
          | ok q3 =>
            obtain ⟨ip, b3⟩ := q3
            rw [ht] at h
            simp only at h
            cases hr : readFields [4, 4, 4, 4] b3 with
            | error e => rw [hr] at h; cases h
            | ok q4 =>
              obtain ⟨hd, b4⟩ := q4
              rw [hr] at h
              simp only at h
              split at h
              · cases h
              · rename_i hcap
                cases hs : sampleLoop (hd.getD 3 0) b4 with
                | error e => rw [hs] at h; cases h
                | ok ss =>
                  rw [hs] at h
                  cases h
                  -- the loop returns at most `count` samples and padTo fills up to exactly `count`
                  have hlen : ∀ (n : Nat) (b : Bytes) (ss : List Sample), sampleLoop n b = .ok ss → ss.length ≤ n := by
                    intro n
                    induction n with
                    | zero => intro b ss h; simp [sampleLoop] at h; subst h; simp
                    | succ n ih =>
                      intro b ss h
                      unfold sampleLoop at h
                      split at h
                      · split at h
                        · cases h
                        · rename_i vs b1 _
                          split at h
                          · rename_i f l
                            split at h
                            · cases h; simp
                            · split at h
                              · cases h
                              · split at h
                                · cases h
                                · rename_i ss' hss'; cases h; have := ih _ _ hss'; simp; omega
                          · cases h
                      · cases h; simp
                  have := hlen _ _ _ hs
                  simp only [padTo, List.length_append, List.length_replicate]
                  omega

/-- NetFlow v9 / IPFIX data sets: the number of decoded records times the record size of the
    template is at most the payload length — never a count claimed by the datagram -/
theorem records_le_bytes (fs : List Netflow.Field) (fuel : Nat) (b : Bytes) (rs : List Netflow.DataRecord)
    (h : Netflow.decodeDataSet fs fuel b = .ok rs) : rs.length * Netflow.templateSize fs ≤ b.length :=
  (C07.count_any_bytes_netflow fs fuel b rs h).2

/-- … and every record holds exactly one value per template field: the DataField objects of a data
    set number at most |payload| · |template| -/
theorem dataSet_fields_bound (fs : List Netflow.Field) (fuel : Nat) (b : Bytes) (rs : List Netflow.DataRecord)
    (h : Netflow.decodeDataSet fs fuel b = .ok rs) :
    (rs.map fun r => r.values.length).foldr (· + ·) 0 ≤ b.length * fs.length := by
  obtain ⟨hpos, hbound⟩ := C07.count_any_bytes_netflow fs fuel b rs h
  have hvals : ∀ (fuel : Nat) (b : Bytes) (rs : List Netflow.DataRecord), Netflow.decodeDataSetLoop fs fuel b = .ok rs →
      ∀ r ∈ rs, r.values.length = fs.length := by
    intro fuel
    induction fuel with
    | zero => intro b rs h; simp [Netflow.decodeDataSetLoop] at h
    | succ fuel ih =>
      intro b rs h
      unfold Netflow.decodeDataSetLoop at h
      split at h
      · rename_i hsz
        simp only [Netflow.decodeDataSetUsingFields, hsz, if_true] at h
        split at h
        · cases h
        · rename_i vs b1 hd
          split at h
          · cases h
          · rename_i rs' hrs
            cases h
            intro r hr
            simp only [List.mem_cons] at hr
            rcases hr with rfl | hr
            · exact (Netflow.decodeFieldValues_consumes _ _ _ _ hd).2
            · exact ih _ _ hrs r hr
      · cases h; intro r hr; cases hr
  unfold Netflow.decodeDataSet at h
  split at h
  · cases h
  · have hv := hvals _ _ _ h
    have hsum : (rs.map fun r => r.values.length).foldr (· + ·) 0 = rs.length * fs.length := by
      clear hbound h
      induction rs with
      | nil => simp
      | cons r rs ih =>
        simp only [List.map_cons, List.foldr_cons, List.length_cons]
        rw [ih (fun x hx => hv x (by simp [hx])), hv r (by simp), Nat.succ_mul]
        omega
    rw [hsum]
    have : rs.length ≤ b.length := by
      calc rs.length ≤ rs.length * Netflow.templateSize fs := Nat.le_mul_of_pos_right _ hpos
        _ ≤ b.length := hbound
    exact Nat.mul_le_mul_right _ this

/-- NetFlow v5: the decoded list has at most (|d| − 24) / 48 records, whatever the header count says -/
theorem v5_alloc (b : Bytes) (p : V5.Packet) (h : V5.decodeMessageVersion b = .ok p) :
    48 * p.records.length + 24 ≤ b.length := by
  have := (C05.records_le_present b p h).1
  omega

/-- one message object per decoded flow record: the producer allocates nothing a count could inflate -/
theorem message_objects_le_records (cfg : Option Producer.Config) (p : Netflow.Packet) (rates : Producer.Rates)
    (h : (Producer.processNetflow cfg p rates).err = none) :
    (Producer.processNetflow cfg p rates).msgs.length = (Producer.dataRecordsOf p.flowSets).length :=
  C07.produce_length_netflow cfg p rates h

end Goflow.C02
