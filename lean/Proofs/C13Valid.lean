import Proofs.C13Object
/-!
  C13 — `formatJSON` is valid JSON.

  `formatJSON_valid`: for every compiled formatter whose printed names need no escaping (`namesOK`)
  and every message whose values have the shape the formatter expects (`shapeOK`: a field printed as
  an array carries scalars, a field printed as a scalar is not a list), the JSON form is accepted by
  the recogniser. Both side conditions are decidable; `shapeOK_default` shows that the default
  configuration meets them for every message, so `default_valid` is unconditional.
-/
namespace Goflow.C13
open Goflow Goflow.Format Goflow.Spec.Json

def scalar : FV → Bool
  | .num _ _ => true | .bytes _ => true | .flowType _ => true | .layer _ => true | _ => false

def isListV : FV → Bool | .list _ => true | _ => false

def plainB (b : UInt8) : Bool := b != 0x22 && b != 0x5c && !(b < 0x20)

theorem plain_of_plainB (b : UInt8) (h : plainB b = true) : plain b := by
  simp [plainB] at h
  exact ⟨h.1.1, h.1.2, by simpa using h.2⟩

def namesOK (f : Fmt) : Bool := f.fields.all fun s => (finalNameOf f s).all plainB

def isSliceOf (f : Fmt) (s : String) : Bool := (f.isSlice.lookup (fieldNameOf f s)).getD false

def shapeOKAt (f : Fmt) (m : FlowMsg) (s : String) : Bool :=
  match valueOf f m (mapUnknown f m.unk) s with
  | none => true
  | some v => if isSliceOf f s then (elemsOf v).all scalar else !(isListV v)

def shapeOK (f : Fmt) (m : FlowMsg) : Bool := f.fields.all (shapeOKAt f m)

/-! ### what a renderer can return -/

def okR (r : Rendered) : Prop := (∃ b, r = .text b) ∨ (∃ n, r = .bare (decimal n))

theorem okR_text (b : Bytes) : okR (.text b) := Or.inl ⟨b, rfl⟩
theorem okR_num (n bits : Nat) : okR (.bare (percentV (.num n bits))) := Or.inr ⟨n, rfl⟩

theorem okR_nil (e : FV) (he : scalar e = true) : okR (nilRenderer e) := by
  cases e <;> first | exact okR_text _ | exact okR_num _ _ | cases he

theorem render_scalar (m : FlowMsg) (fn r : String) (e : FV) (he : scalar e = true) : okR (applyRenderer m fn r e) := by
  unfold applyRenderer
  generalize rkindOf r = k
  cases k <;> cases e <;> simp only [applyKind] <;>
    first
    | exact okR_text _
    | exact okR_num _ _
    | exact okR_nil _ he
    | (split <;> first | exact okR_text _ | exact okR_num _ _ | exact okR_nil _ rfl)
    | exact absurd he (by decide)

/-! ### elements and array bodies -/

theorem head_jsonQuote (b : Bytes) : Head (jsonQuote b) := ⟨0x22, _, rfl, by decide, by decide, by decide⟩

theorem head_decimal (n : Nat) : Head (decimal n) := by
  obtain ⟨d, ds, e, hd, _⟩ := digitsOf_spec (n + 1) n (by omega)
  obtain ⟨w, _⟩ := digit_head_facts d hd
  have h1 : 48 ≤ d.toNat ∧ d.toNat ≤ 57 := by
    have : 0x30 ≤ d ∧ d ≤ 0x39 := by simpa [isDigit] using hd
    exact ⟨by simpa [UInt8.le_iff_toNat_le] using this.1, by simpa [UInt8.le_iff_toNat_le] using this.2⟩
  refine ⟨d, ds, e, w, ?_, ?_⟩ <;> (intro h; subst h; simp at h1)

/-- a rendered value that is a JSON value: needs one unit of fuel, starts with a value byte, is not empty -/
def GoodVal (b : Bytes) : Prop := ValOK 1 b ∧ Head b

theorem goodVal_of_okR (q : Bytes) (r : Rendered) (h : okR r) : ∃ b, quoteIf true q r = some b ∧ GoodVal b := by
  rcases h with ⟨b, e⟩ | ⟨n, e⟩
  · subst e; exact ⟨_, rfl, valOK_string b, head_jsonQuote b⟩
  · subst e; exact ⟨_, rfl, valOK_decimal n, head_decimal n⟩

theorem elem_ok (f : Fmt) (m : FlowMsg) (q : Bytes) (s : String) (e : FV) (he : scalar e = true) :
    ∃ b, renderElem f m true q s e = some b ∧ GoodVal b :=
  goodVal_of_okR q _ (render_scalar m _ _ e he)

theorem sliceBody_join (f : Fmt) (m : FlowMsg) (q : Bytes) (s : String) (es : List FV) (h : ∀ e ∈ es, scalar e = true) :
    ∃ vs, sliceBody f m true q s es = joinC vs ∧ vs.length = es.length ∧ ∀ v ∈ vs, GoodVal v := by
  induction es with
  | nil => exact ⟨[], rfl, rfl, by simp⟩
  | cons e rest ih =>
    obtain ⟨b, hb, gb⟩ := elem_ok f m q s e (h e (by simp))
    cases rest with
    | nil => exact ⟨[b], by simp [sliceBody, hb, joinC], rfl, by simpa using gb⟩
    | cons e' rest' =>
      obtain ⟨vs, e1, e2, e3⟩ := ih (fun x hx => h x (by simp [hx]))
      refine ⟨b :: vs, ?_, by simp [e2], ?_⟩
      · simp only [sliceBody, hb, e1]
        cases vs with
        | nil => simp at e2
        | cons w ws => simp [joinC]
      · intro v hv
        rcases List.mem_cons.mp hv with e | e
        · subst e; exact gb
        · exact e3 v e

theorem head_nonempty {v : Bytes} (h : Head v) : 1 ≤ v.length := by
  obtain ⟨c, r, e, _⟩ := h; subst e; simp

theorem joinC_length (vs : List Bytes) (h : ∀ v ∈ vs, 1 ≤ v.length) : vs.length ≤ (joinC vs).length + 1 ∧ total vs ≤ (joinC vs).length := by
  induction vs with
  | nil => simp [joinC, total]
  | cons v rest ih =>
    have hv := h v (by simp)
    have ih' := ih (fun x hx => h x (by simp [hx]))
    cases rest with
    | nil => simp [joinC, total]
    | cons w ws =>
      simp only [joinC, List.length_append, List.length_cons, total, List.map_cons, List.sum_cons] at ih' ⊢
      omega

/-- `[…]` around a body of good values is a JSON value needing |array| + 1 units of fuel at most -/
theorem array_ok (vs : List Bytes) (h : ∀ v ∈ vs, GoodVal v) :
    ValOK ((0x5b :: joinC vs ++ [0x5d]).length + 1) (0x5b :: joinC vs ++ [0x5d]) ∧ Head (0x5b :: joinC vs ++ [0x5d]) := by
  refine ⟨?_, ⟨0x5b, _, rfl, by decide, by decide, by decide⟩⟩
  have := valOK_array vs 1 (fun v hv => (h v hv).1) (fun v hv => (h v hv).2)
  apply valOK_mono this
  have := (joinC_length vs (fun v hv => head_nonempty (h v hv).2)).1
  simp only [List.length_cons, List.length_append, List.length_nil]
  omega

/-! ### items -/

def okRN (r : Rendered) : Prop := okR r ∨ r = .nil

theorem okRN_nil (e : FV) (h : isListV e = false) : okRN (nilRenderer e) := by
  cases e <;> first | exact Or.inl (okR_text _) | exact Or.inl (okR_num _ _) | exact Or.inr rfl | cases h

theorem render_nonlist (m : FlowMsg) (fn r : String) (e : FV) (h : isListV e = false) : okRN (applyRenderer m fn r e) := by
  unfold applyRenderer
  generalize rkindOf r = k
  cases k <;> cases e <;> simp only [applyKind] <;>
    first
    | exact Or.inl (okR_text _)
    | exact Or.inl (okR_num _ _)
    | exact okRN_nil _ h
    | (split <;> first | exact Or.inl (okR_text _) | exact Or.inl (okR_num _ _) | exact okRN_nil _ rfl)
    | exact absurd h (by decide)

/-- the value part of a printed item is a JSON value, with a fuel need bounded by its own length -/
def GoodItemVal (v : Bytes) : Prop := ValOK (v.length + 1) v

theorem goodItem_of_goodVal {v : Bytes} (h : GoodVal v) : GoodItemVal v :=
  valOK_mono h.1 (by have := head_nonempty h.2; omega)

theorem item_shape (f : Fmt) (m : FlowMsg) (unk : List (String × FV)) (s : String) (item : Bytes)
    (hu : unk = mapUnknown f m.unk)
    (hi : itemOf f m unk true [0x22] [0x3a] s = some item) (hs : shapeOKAt f m s = true) :
    ∃ val, item = member (finalNameOf f s, val) ∧ GoodItemVal val := by
  subst hu
  unfold itemOf at hi
  unfold shapeOKAt at hs
  cases hv : valueOf f m (mapUnknown f m.unk) s with
  | none => simp [hv] at hi
  | some v =>
    simp only [hv] at hi hs
    by_cases hsl : (f.isSlice.lookup (fieldNameOf f s)).getD false = true
    · have hsl' : isSliceOf f s = true := hsl
      simp only [hsl, if_true, Option.some.injEq] at hi
      simp only [hsl', if_true] at hs
      have hel : ∀ e ∈ elemsOf v, scalar e = true := by simpa [List.all_eq_true] using hs
      obtain ⟨vs, e1, _, e3⟩ := sliceBody_join f m [0x22] s _ hel
      refine ⟨0x5b :: joinC vs ++ [0x5d], ?_, (array_ok vs e3).1⟩
      rw [← hi, e1]
      simp [member]
    · have hsl' : isSliceOf f s = false := by simpa [isSliceOf] using hsl
      have hsl2 : (f.isSlice.lookup (fieldNameOf f s)).getD false = false := hsl'
      simp only [hsl2, Bool.false_eq_true, if_false] at hi
      simp only [hsl', Bool.false_eq_true, if_false] at hs
      have hnl : isListV v = false := by simpa using hs
      rcases render_nonlist m (fieldNameOf f s) (rendererOf f s).1 v hnl with hok | hnil
      · obtain ⟨b, hb, gb⟩ := goodVal_of_okR [0x22] _ hok
        simp only [hb, Option.some.injEq] at hi
        exact ⟨b, by rw [← hi]; simp [member], goodItem_of_goodVal gb⟩
      · simp [hnil, quoteIf] at hi

/-! ### the object -/

theorem intersperse_flatten (l : List Bytes) : (l.intersperse [0x2c]).flatten = joinC l := by
  induction l with
  | nil => rfl
  | cons v rest ih =>
    cases rest with
    | nil => simp [joinC]
    | cons w ws =>
      simp only [List.intersperse_cons₂, List.flatten_cons, joinC] at ih ⊢
      rw [ih]; simp

theorem items_are_members (f : Fmt) (m : FlowMsg) (fields : List String)
    (hn : ∀ s ∈ fields, ∀ x ∈ finalNameOf f s, plain x) (hs : ∀ s ∈ fields, shapeOKAt f m s = true) :
    ∃ ms : List (Bytes × Bytes),
      fields.filterMap (itemOf f m (mapUnknown f m.unk) true [0x22] [0x3a]) = ms.map member ∧
      ∀ nv ∈ ms, (∀ x ∈ nv.1, plain x) ∧ GoodItemVal nv.2 := by
  induction fields with
  | nil => exact ⟨[], rfl, by simp⟩
  | cons s rest ih =>
    obtain ⟨ms, e, h⟩ := ih (fun x hx => hn x (by simp [hx])) (fun x hx => hs x (by simp [hx]))
    cases hi : itemOf f m (mapUnknown f m.unk) true [0x22] [0x3a] s with
    | none => exact ⟨ms, by simp [List.filterMap_cons, hi, e], h⟩
    | some item =>
      obtain ⟨val, e1, g⟩ := item_shape f m _ s item rfl hi (hs s (by simp))
      refine ⟨(finalNameOf f s, val) :: ms, by simp [List.filterMap_cons, hi, e, e1], ?_⟩
      intro nv hnv
      rcases List.mem_cons.mp hnv with e2 | e2
      · subst e2; exact ⟨hn s (by simp), g⟩
      · exact h nv e2

theorem members_length (ms : List (Bytes × Bytes)) :
    ms.length + total (ms.map (·.2)) ≤ (joinC (ms.map member)).length := by
  induction ms with
  | nil => simp [joinC, total]
  | cons nv rest ih =>
    cases rest with
    | nil => simp [joinC, total, member]; omega
    | cons nv' rest' =>
      simp only [List.map_cons, joinC, List.length_append, List.length_cons, total, List.sum_cons, member] at ih ⊢
      omega

/-- C13: the JSON form of a message is one well-formed JSON object — for every formatter whose
    printed names need no escaping and every message whose values have the shape the formatter prints
    them in. (Both conditions are decidable; see `shapeOK_default`.) -/
theorem formatJSON_valid (f : Fmt) (m : FlowMsg) (hn : namesOK f = true) (hs : shapeOK f m = true) :
    valid (formatJSON f m) = true := by
  have hn' : ∀ s ∈ f.fields, ∀ x ∈ finalNameOf f s, plain x := by
    intro s hs' x hx
    have := (List.all_eq_true.mp hn) s hs'
    exact plain_of_plainB x ((List.all_eq_true.mp this) x hx)
  have hs' : ∀ s ∈ f.fields, shapeOKAt f m s = true := fun s h => (List.all_eq_true.mp hs) s h
  obtain ⟨ms, e, h⟩ := items_are_members f m f.fields hn' hs'
  have hform : formatJSON f m = 0x7b :: joinC (ms.map member) ++ 0x7d :: [] := by
    unfold formatJSON formatItems
    rw [e, intersperse_flatten]; simp
  rw [hform]
  unfold valid
  have k := total (ms.map (·.2)) + 1
  have hk : ∀ nv ∈ ms, (∀ x ∈ nv.1, plain x) ∧ ValOK (total (ms.map (·.2)) + 1) nv.2 := by
    intro nv hnv
    refine ⟨(h nv hnv).1, valOK_mono (h nv hnv).2 ?_⟩
    have : nv.2 ∈ ms.map (·.2) := List.mem_map.mpr ⟨nv, hnv, rfl⟩
    have := le_total this
    omega
  have hlen := members_length ms
  rw [object_ok ms (total (ms.map (·.2)) + 1) hk _ (by simp only [List.length_cons, List.length_append]; omega) []]
  rfl

/-- does a column hold a list (mirror of the case analysis of `fieldValue`, without the message) -/
def isListCol (g : String) : Bool :=
  match FlowMsg.kindOf g with
  | none => false
  | some kind =>
    if g = "Type" then false else if g = "LayerStack" then true
    else if kind = "u32" then false else if kind = "u64" then false else if kind = "bytes" then false else true

theorem fieldValue_isList (m : FlowMsg) (g : String) : isListV (fieldValue m g) = isListCol g := by
  unfold fieldValue isListCol
  cases FlowMsg.kindOf g with
  | none => rfl
  | some kind =>
    simp only
    by_cases h1 : g = "Type" <;> by_cases h2 : g = "LayerStack" <;> by_cases h3 : kind = "u32" <;>
      by_cases h4 : kind = "u64" <;> by_cases h5 : kind = "bytes" <;> by_cases h6 : kind = "listU32" <;>
      simp [h1, h2, h3, h4, h5, h6, isListV]

theorem fieldValue_scalars (m : FlowMsg) (g : String) : (elemsOf (fieldValue m g)).all scalar = true := by
  unfold fieldValue
  cases FlowMsg.kindOf g with
  | none => rfl
  | some kind =>
    simp only
    repeat' split
    all_goals simp [elemsOf, List.all_map, Function.comp_def, scalar]

theorem fieldValue_valid_of_col (m : FlowMsg) (g : String) (h : (FlowMsg.kindOf g).isSome = true) : fieldValue m g ≠ .invalid := by
  unfold fieldValue
  cases hk : FlowMsg.kindOf g with
  | none => simp [hk] at h
  | some kind =>
    simp only
    by_cases h1 : g = "Type" <;> by_cases h2 : g = "LayerStack" <;> by_cases h3 : kind = "u32" <;>
      by_cases h4 : kind = "u64" <;> by_cases h5 : kind = "bytes" <;> by_cases h6 : kind = "listU32" <;>
      simp [h1, h2, h3, h4, h5, h6]

/-! ### whatever a field's value is, its elements are scalars: only "printed as a scalar but carries a list" can go wrong -/

theorem parseUnknown_scalar (fuel : Nat) (b : Bytes) : ∀ x ∈ parseUnknown fuel b, scalar x.2.2 = true := by
  induction fuel generalizing b with
  | zero => intro x hx; simp [parseUnknown] at hx
  | succ n ih =>
    intro x hx
    cases b with
    | nil => simp [parseUnknown] at hx
    | cons c cs =>
      simp only [parseUnknown] at hx
      split at hx
      · cases hx
      · split at hx
        · split at hx
          · rcases List.mem_cons.mp hx with e | e
            · subst e; rfl
            · exact ih _ x e
          · cases hx
        · split at hx
          · split at hx
            · rcases List.mem_cons.mp hx with e | e
              · subst e; rfl
              · exact ih _ x e
            · cases hx
          · cases hx

/-- every value of the custom-field map is a scalar or a list of scalars -/
def unkInv (acc : List (String × FV)) : Prop := ∀ kv ∈ acc, (elemsOf kv.2).all scalar = true

theorem assocSet_inv (acc : List (String × FV)) (k : String) (v : FV) (h : unkInv acc) (hv : (elemsOf v).all scalar = true) :
    unkInv (assocSet acc k v) := by
  intro kv hkv
  simp only [assocSet, List.mem_cons, List.mem_filter] at hkv
  rcases hkv with e | e
  · subst e; exact hv
  · exact h kv e.1

theorem lookup_mem {β} (l : List (String × β)) (k : String) (v : β) (h : l.lookup k = some v) : (k, v) ∈ l := by
  induction l with
  | nil => simp at h
  | cons x xs ih =>
    obtain ⟨a, b⟩ := x
    simp only [List.lookup] at h
    by_cases hk : k == a
    · simp only [hk] at h
      have : k = a := by simpa using hk
      cases h; subst this; simp
    · simp only [hk] at h
      exact List.mem_cons_of_mem _ (ih h)

theorem mapUnknown_inv (f : Fmt) (unk : Bytes) : unkInv (mapUnknown f unk) := by
  unfold mapUnknown
  have key : ∀ (l : List (Nat × Nat × FV)) (acc : List (String × FV)), (∀ x ∈ l, scalar x.2.2 = true) → unkInv acc →
      unkInv (l.foldl (fun acc (x : Nat × Nat × FV) =>
        match f.numToPb.lookup x.1 with
        | none => acc
        | some pb =>
          if pb.array then
            let cur := match acc.lookup pb.name with | some (.list l) => l | _ => []
            assocSet acc pb.name (.list (cur ++ [x.2.2]))
          else assocSet acc pb.name x.2.2) acc) := by
    intro l
    induction l with
    | nil => intro acc _ h; exact h
    | cons x xs ih =>
      intro acc hl hacc
      simp only [List.foldl_cons]
      apply ih _ (fun y hy => hl y (by simp [hy]))
      have hx := hl x (by simp)
      cases hpb : f.numToPb.lookup x.1 with
      | none => exact hacc
      | some pb =>
        simp only
        by_cases ha : pb.array = true
        · simp only [ha, if_true]
          apply assocSet_inv _ _ _ hacc
          have hcur : ∀ e ∈ (match acc.lookup pb.name with | some (.list l) => l | _ => []), scalar e = true := by
            intro e he
            cases hlk : acc.lookup pb.name with
            | none => simp [hlk] at he
            | some v =>
              cases v with
              | list l =>
                simp only [hlk] at he
                have := hacc _ (lookup_mem _ _ _ hlk)
                exact (List.all_eq_true.mp this) e he
              | _ => simp [hlk] at he
          simp only [elemsOf, List.all_append, Bool.and_eq_true, List.all_cons, List.all_nil, Bool.and_true]
          exact ⟨List.all_eq_true.mpr hcur, hx⟩
        · simp only [ha, Bool.false_eq_true, if_false]
          apply assocSet_inv _ _ _ hacc
          cases hv : x.2.2 <;> simp_all [elemsOf, scalar]
  exact key _ [] (parseUnknown_scalar _ _) (by intro kv h; cases h)

theorem valueOf_scalars (f : Fmt) (m : FlowMsg) (s : String) (v : FV)
    (h : valueOf f m (mapUnknown f m.unk) s = some v) : (elemsOf v).all scalar = true := by
  unfold valueOf at h
  cases hfv : fieldValue m (fieldNameOf f s) with
  | invalid =>
    simp only [hfv] at h
    cases hlk : (mapUnknown f m.unk).lookup s with
    | some u =>
      simp only [hlk, Option.some.injEq] at h
      subst h
      exact mapUnknown_inv f m.unk _ (lookup_mem _ _ _ hlk)
    | none =>
      simp only [hlk] at h
      split at h
      · cases h; rfl
      · cases h
  | num n b => simp only [hfv, Option.some.injEq] at h; subst h; rfl
  | bytes b => simp only [hfv, Option.some.injEq] at h; subst h; rfl
  | flowType n => simp only [hfv, Option.some.injEq] at h; subst h; rfl
  | layer n => simp only [hfv, Option.some.injEq] at h; subst h; rfl
  | list l =>
    simp only [hfv, Option.some.injEq] at h; subst h
    have := fieldValue_scalars m (fieldNameOf f s)
    rwa [hfv] at this

/-- the only shape condition that matters: a field that carries a list is printed as an array -/
def listsAreSlices (f : Fmt) (m : FlowMsg) : Bool :=
  f.fields.all fun s =>
    match valueOf f m (mapUnknown f m.unk) s with
    | some v => !(isListV v) || isSliceOf f s
    | none => true

theorem shapeOK_of_listsAreSlices (f : Fmt) (m : FlowMsg) (h : listsAreSlices f m = true) : shapeOK f m = true := by
  unfold shapeOK
  unfold listsAreSlices at h
  rw [List.all_eq_true] at h ⊢
  intro s hs
  have hs' := h s hs
  unfold shapeOKAt
  cases hv : valueOf f m (mapUnknown f m.unk) s with
  | none => rfl
  | some v =>
    simp only [hv] at hs'
    simp only
    by_cases hsl : isSliceOf f s = true
    · simp only [hsl, if_true]; exact valueOf_scalars f m s v hv
    · have : isSliceOf f s = false := by simpa using hsl
      simp only [this, Bool.false_eq_true, if_false]
      simpa [this] using hs'

/-- C13, JSON validity in its sharpest form: names that need no escaping, and every field that carries a list is
    declared (or known) as an array -/
theorem formatJSON_valid_sharp (f : Fmt) (m : FlowMsg) (hn : namesOK f = true) (hl : listsAreSlices f m = true) :
    valid (formatJSON f m) = true :=
  formatJSON_valid f m hn (shapeOK_of_listsAreSlices f m hl)

/-! ### the default configuration meets the side conditions for every message -/

def defaultFmt : Fmt := (compileNil initialIsSlice).fmt

/-- closed facts about the default configuration (no message involved): every printed field is a column,
    and every list column is printed as an array -/
theorem default_columns : defaultFmt.fields.all (fun s =>
    (FlowMsg.kindOf (fieldNameOf defaultFmt s)).isSome && (!(isListCol (fieldNameOf defaultFmt s)) || isSliceOf defaultFmt s)) = true := by
  decide +kernel

theorem namesOK_default : namesOK defaultFmt = true := by decide +kernel

theorem shapeOK_default (m : FlowMsg) : shapeOK defaultFmt m = true := by
  unfold shapeOK
  rw [List.all_eq_true]
  intro s hs
  have hc := (List.all_eq_true.mp default_columns) s hs
  simp only [Bool.and_eq_true, Bool.or_eq_true, Bool.not_eq_true'] at hc
  unfold shapeOKAt valueOf
  have hv := fieldValue_valid_of_col m (fieldNameOf defaultFmt s) hc.1
  cases hfv : fieldValue m (fieldNameOf defaultFmt s) with
  | invalid => exact absurd hfv hv
  | num n b => simp [isListV, elemsOf]
  | bytes b => simp [isListV, elemsOf]
  | flowType n => simp [isListV, elemsOf]
  | layer n => simp [isListV, elemsOf]
  | list l =>
    have h1 : isListCol (fieldNameOf defaultFmt s) = true := by rw [← fieldValue_isList m, hfv]; rfl
    have h2 : isSliceOf defaultFmt s = true := by
      rcases hc.2 with h | h
      · rw [h1] at h; cases h
      · exact h
    have h3 := fieldValue_scalars m (fieldNameOf defaultFmt s)
    rw [hfv] at h3
    simp only [h2, if_true]
    exact h3

/-- C13 for the default configuration, unconditionally: every message has a valid JSON form -/
theorem default_valid (m : FlowMsg) : valid (formatJSON defaultFmt m) = true :=
  formatJSON_valid defaultFmt m namesOK_default (shapeOK_default m)

end Goflow.C13
