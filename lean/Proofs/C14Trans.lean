import Goflow.Generated.NumbersT
import Proofs.Lemmas.GoPrims
/-!
  C14 (translation tie) — GetBytes (producer/proto/reflect.go), regenerated into Lean on every run by
  extract/translate.go (Goflow/Generated/NumbersT.lean, Go `int` as Lean `Int`), is equal to the hand-written
  model `Goflow.Producer.getBytes` for every slice, every offset and length of either sign and both final passes:
  same bytes, and a panic exactly where the model says the Go code panics.
-/
set_option linter.unusedSimpArgs false
namespace Goflow.C14Trans
open Goflow Goflow.Producer Goflow.Generated Goflow.Go

theorem getBytes_loop (s : Nat) (hs : s ≤ 8) (dUsed : Bytes) (n : Nat) :
    ∀ (fuel i : Nat) (P : Bytes), P.length = i → i ≤ n → i ≤ dUsed.length - 1 → n - i < fuel →
      TN.GetBytes_loop1 (s : Int) dUsed (n : Int) fuel (P ++ List.replicate (n - i) 0) (i : Int)
        = .ok (P ++ shiftPass s (n - i) (dUsed.drop i), ((min n (dUsed.length - 1) : Nat) : Int)) := by
  intro fuel
  induction fuel with
  | zero => intro i P _ _ _ h; omega
  | succ fuel ih =>
    intro i P hP hin hid hf
    rw [TN.GetBytes_loop1]
    by_cases hlt : i < n
    · have hc1 : ((i : Int) < (n : Int)) := by omega
      obtain ⟨k, hk⟩ : ∃ k, n - i = k + 1 := ⟨n - i - 1, by omega⟩
      by_cases h0 : dUsed.length ≤ i
      · -- nothing left to read: only possible at i = 0 with dUsed empty
        have hd : dUsed = [] := by
          cases dUsed with
          | nil => rfl
          | cons x xs => simp at h0 hid; omega
        subst hd
        have hi0 : i = 0 := by simpa using hid
        subst hi0
        have hP' : P = [] := List.eq_nil_of_length_eq_zero hP
        subst hP'
        simp [hc1, hk, shiftPass]
      · have hi : i < dUsed.length := by omega
        have hc2 : ¬ ((i : Int) ≥ (dUsed.length : Int)) := by omega
        have hset : ∀ v : UInt8, Go.setIdx (P ++ List.replicate (k + 1) 0) i v = .ok (P ++ v :: List.replicate k 0) := by
          intro v; simp [Go.setIdx, hP, List.set_append, List.replicate_succ]
        have hset2 : ∀ v w : UInt8, Go.setIdx (P ++ v :: List.replicate k 0) i w = .ok (P ++ w :: List.replicate k 0) := by
          intro v w; simp [Go.setIdx, hP, List.set_append]
        have hget : ∀ v : UInt8, Go.idx (P ++ v :: List.replicate k 0) i = .ok v := by
          intro v; simp [Go.idx, hP]
        by_cases h1 : dUsed.length ≤ i + 1
        · -- dUsed[i] is the last byte
          have hc3 : ((i : Int) + 1 ≥ (dUsed.length : Int)) := by omega
          have hd : dUsed.drop i = [dUsed[i]] := by
            rw [List.drop_eq_getElem_cons hi, List.drop_eq_nil_of_le h1]
          have hm : min n (dUsed.length - 1) = i := by omega
          simp [hc1, hc2, hc3, idxI_nat, setIdxI_nat, shl8I_nat, idx_getElem hi, hset, hd, hk, shiftPass, hm]
        · have hi1 : i + 1 < dUsed.length := by omega
          have hc3 : ¬ ((i : Int) + 1 ≥ (dUsed.length : Int)) := by omega
          have hd : dUsed.drop i = dUsed[i] :: dUsed[i + 1] :: dUsed.drop (i + 2) := by
            rw [List.drop_eq_getElem_cons hi, List.drop_eq_getElem_cons hi1]
          have hd1 : dUsed.drop (i + 1) = dUsed[i + 1] :: dUsed.drop (i + 2) := List.drop_eq_getElem_cons hi1
          have e1 : ((i : Int) + 1) = ((i + 1 : Nat) : Int) := by omega
          have hrec := ih (i + 1) (P ++ [Producer.shl8 dUsed[i] s ||| Producer.shr8 dUsed[i + 1] (8 - s)])
            (by simp [hP]) (by omega) (by omega) (by omega)
          have hk' : n - (i + 1) = k := by omega
          rw [hk'] at hrec
          rw [hk, hd, shiftPass, ← hd1]
          simp [hc1, hc2, hc3, idxI_nat, idxI_nat_succ, setIdxI_nat, shl8I_nat, shr8I_sub _ _ hs, idx_getElem hi, hset, hset2, hget,
            idx_getElem hi1]
          simpa using hrec
    · have hn : i = n := by omega
      subst hn
      have hc1 : ¬ ((i : Int) < (i : Int)) := by omega
      have hm : min i (dUsed.length - 1) = i := by omega
      simp [hc1, hm, shiftPass]

theorem shiftPass_length (s : Nat) : ∀ (n : Nat) (l : Bytes), (shiftPass s n l).length = n
  | 0, _ => by simp [shiftPass]
  | n + 1, [] => by simp [shiftPass]
  | n + 1, [x] => by simp [shiftPass]
  | n + 1, x :: y :: rest => by simp [shiftPass, shiftPass_length s n (y :: rest)]

theorem setLast_eq (bs : Bytes) (f : UInt8 → UInt8) (h : 0 < bs.length) :
    setLast bs f = bs.set (bs.length - 1) (f (bs[bs.length - 1]'(by omega))) := by
  rcases List.eq_nil_or_concat bs with rfl | ⟨init, x, rfl⟩
  · simp at h
  · simp [setLast]

/-- the part of GetBytes after `dUsed := d[start:end]` when bits have to be moved -/
theorem getBytes_tail (d : Bytes) (ss srs st e1 lb : Nat) (e1I lbI : Int) (shift : Bool)
    (hss : ss ≤ 8) (hsrs : srs ≤ 8) (hst : st ≤ e1) (he : e1 ≤ d.length) (hlb : 0 < lb) (hlbI : lbI = (lb : Int))
    (he1I : e1I = (e1 : Int)) :
    (Go.sliceI d (st : Int) e1I >>= fun t_1 =>
     Go.makeBytesI lbI >>= fun t_3 =>
     TN.GetBytes_loop1 (ss : Int) t_1 (t_3.length : Int) (t_3.length + 1) t_3 0 >>= fun t_11 =>
     if shift = true then
       Go.idxI t_11.1 ((t_11.1.length : Int) - 1) >>= fun t_12 =>
       Go.shr8I t_12 (Int.tmod (8 - (srs : Int)) 8) >>= fun t_13 =>
       Go.setIdxI t_11.1 ((t_11.1.length : Int) - 1) t_13 >>= fun t_14 =>
       Except.ok t_14
     else
       Go.idxI t_11.1 ((t_11.1.length : Int) - 1) >>= fun t_15 =>
       Go.shl8I 255 (Int.tmod (8 - (srs : Int)) 8) >>= fun t_16 =>
       Go.setIdxI t_11.1 ((t_11.1.length : Int) - 1) (t_15 &&& t_16) >>= fun t_14 =>
       Except.ok t_14) =
    if shift = true then
      Except.ok (setLast (shiftPass ss lb ((d.take e1).drop st)) fun x => Producer.shr8 x ((8 - srs) % 8))
    else
      Except.ok (setLast (shiftPass ss lb ((d.take e1).drop st)) fun x => x &&& Producer.shl8 255 ((8 - srs) % 8)) := by
  subst hlbI he1I
  have hmk : Go.makeBytesI (lb : Int) = .ok (List.replicate lb 0) := by
    have h : ¬ ((lb : Int) < 0) := by omega
    simp [Go.makeBytesI, h]
  have hloop := getBytes_loop ss hss ((d.take e1).drop st) lb (lb + 1) 0 [] rfl (by omega) (by omega) (by omega)
  simp only [List.nil_append, Nat.sub_zero, List.drop_zero, show ((0 : Nat) : Int) = 0 from rfl] at hloop
  have hk : Int.tmod (8 - (srs : Int)) 8 = (((8 - srs) % 8 : Nat) : Int) := by
    have : (8 - (srs : Int)) = ((8 - srs : Nat) : Int) := by omega
    rw [this, tmod_nat]
  have hlen := shiftPass_length ss lb ((d.take e1).drop st)
  have hidx : ((lb : Int) - 1) = ((lb - 1 : Nat) : Int) := by omega
  have hlt : lb - 1 < (shiftPass ss lb ((d.take e1).drop st)).length := by omega
  simp only [sliceI_nat d st e1 hst he, hmk, ok_bind, List.length_replicate, hloop, hlen, hidx, idxI_nat, setIdxI_nat,
    idx_getElem hlt, hk, shl8I_nat, shr8I_nat, Go.setIdx, hlt, if_true]
  rw [setLast_eq _ _ (by omega), setLast_eq _ _ (by omega)]
  have hlt' : lb - 1 < lb := by omega
  cases shift <;> simp [hlen, hlt']

theorem getBytes_trans_eq_nonneg (d : Bytes) (off len : Nat) (shift : Bool) :
    TN.GetBytes d (off : Int) (len : Int) shift = getBytes d (off : Int) (len : Int) shift := by
  unfold TN.GetBytes getBytes
  by_cases h1 : d.length * 8 < off
  · have : ((d.length : Int) * 8 < (off : Int)) := by omega
    simp [this]
  have h1' : ¬ ((d.length : Int) * 8 < (off : Int)) := by omega
  by_cases h2 : len = 0
  · subst h2; simp [h1']
  have h2' : ¬ ((len : Int) = 0) := by omega
  have h3 : ¬ ((len : Int) < 0 ∨ (off : Int) ≤ -8) := by omega
  have h4 : ¬ ((off : Int) < 0) := by omega
  have hst : off / 8 ≤ d.length := by omega
  by_cases hq : (off + len) % 8 > 0
  · have hqI : ((((off + len) % 8 : Nat) : Int) > 0) := by omega
    have hN : ¬ (off % 8 = 0 ∧ len % 8 = 0) := by omega
    by_cases hr : len % 8 > 0
    · have hrI : (((len % 8 : Nat) : Int) > 0) := by omega
      have hr0 : ¬ (((len % 8 : Nat) : Int) = 0) := by omega
      by_cases hm : (off + len) / 8 + 1 > d.length
      · have hmI : ((((off + len) / 8 : Nat) : Int) + 1 - (d.length : Int) > 0) := by omega
        simp only [h1', h2', h3, h4, hq, hr, hm, hqI, hrI, hr0, hmI, hN, decide_false, decide_true, if_false, if_true, Bool.false_eq_true,
          Int.toNat_natCast, tmod_nat, tdiv_nat, tmod_nat_add, tdiv_nat_add, Bool.and_false]
        exact getBytes_tail d (off % 8) (len % 8) (off / 8) d.length (len / 8 + 1) _ _ shift
          (by omega) (by omega) (by omega) (by omega) (by omega) (by omega) rfl
      · have hmI : ¬ ((((off + len) / 8 : Nat) : Int) + 1 - (d.length : Int) > 0) := by omega
        simp only [h1', h2', h3, h4, hq, hr, hm, hqI, hrI, hr0, hmI, hN, decide_false, decide_true, if_false, if_true, Bool.false_eq_true,
          Int.toNat_natCast, tmod_nat, tdiv_nat, tmod_nat_add, tdiv_nat_add, Bool.and_false]
        exact getBytes_tail d (off % 8) (len % 8) (off / 8) ((off + len) / 8 + 1) (len / 8 + 1) _ _ shift
          (by omega) (by omega) (by omega) (by omega) (by omega) (by omega) (by omega)
    · have hrI : ¬ (((len % 8 : Nat) : Int) > 0) := by omega
      have hs0 : ¬ (((off % 8 : Nat) : Int) = 0) := by omega
      have hlb : 0 < len / 8 := by omega
      by_cases hm : (off + len) / 8 + 1 > d.length
      · have hmI : ((((off + len) / 8 : Nat) : Int) + 1 - (d.length : Int) > 0) := by omega
        simp only [h1', h2', h3, h4, hq, hr, hm, hqI, hrI, hs0, hmI, hN, decide_false, decide_true, if_false, if_true, Bool.false_eq_true,
          Int.toNat_natCast, tmod_nat, tdiv_nat, tmod_nat_add, tdiv_nat_add, Bool.false_and, Nat.add_zero]
        exact getBytes_tail d (off % 8) (len % 8) (off / 8) d.length (len / 8) _ _ shift
          (by omega) (by omega) (by omega) (by omega) (by omega) rfl rfl
      · have hmI : ¬ ((((off + len) / 8 : Nat) : Int) + 1 - (d.length : Int) > 0) := by omega
        simp only [h1', h2', h3, h4, hq, hr, hm, hqI, hrI, hs0, hmI, hN, decide_false, decide_true, if_false, if_true, Bool.false_eq_true,
          Int.toNat_natCast, tmod_nat, tdiv_nat, tmod_nat_add, tdiv_nat_add, Bool.false_and, Nat.add_zero]
        exact getBytes_tail d (off % 8) (len % 8) (off / 8) ((off + len) / 8 + 1) (len / 8) _ _ shift
          (by omega) (by omega) (by omega) (by omega) (by omega) rfl (by omega)
  · have hqI : ¬ ((((off + len) % 8 : Nat) : Int) > 0) := by omega
    by_cases hr : len % 8 > 0
    · have hN : ¬ (off % 8 = 0 ∧ len % 8 = 0) := by omega
      have hrI : (((len % 8 : Nat) : Int) > 0) := by omega
      have hr0 : ¬ (((len % 8 : Nat) : Int) = 0) := by omega
      by_cases hm : (off + len) / 8 > d.length
      · have hmI : ((((off + len) / 8 : Nat) : Int) - (d.length : Int) > 0) := by omega
        simp only [h1', h2', h3, h4, hq, hr, hm, hqI, hrI, hr0, hmI, hN, decide_false, decide_true, if_false, if_true, Bool.false_eq_true,
          Int.toNat_natCast, tmod_nat, tdiv_nat, tmod_nat_add, tdiv_nat_add, Bool.and_false, Nat.add_zero]
        exact getBytes_tail d (off % 8) (len % 8) (off / 8) d.length (len / 8 + 1) _ _ shift
          (by omega) (by omega) (by omega) (by omega) (by omega) (by omega) rfl
      · have hmI : ¬ ((((off + len) / 8 : Nat) : Int) - (d.length : Int) > 0) := by omega
        simp only [h1', h2', h3, h4, hq, hr, hm, hqI, hrI, hr0, hmI, hN, decide_false, decide_true, if_false, if_true, Bool.false_eq_true,
          Int.toNat_natCast, tmod_nat, tdiv_nat, tmod_nat_add, tdiv_nat_add, Bool.and_false, Nat.add_zero]
        exact getBytes_tail d (off % 8) (len % 8) (off / 8) ((off + len) / 8) (len / 8 + 1) _ _ shift
          (by omega) (by omega) (by omega) (by omega) (by omega) (by omega) rfl
    · have hN : off % 8 = 0 ∧ len % 8 = 0 := by omega
      have hrI : ¬ (((len % 8 : Nat) : Int) > 0) := by omega
      have hr0 : (((len % 8 : Nat) : Int) = 0) := by omega
      have hs0 : (((off % 8 : Nat) : Int) = 0) := by omega
      by_cases hm : (off + len) / 8 > d.length
      · have hmI : ((((off + len) / 8 : Nat) : Int) - (d.length : Int) > 0) := by omega
        simp only [h1', h2', h3, h4, hq, hr, hm, hqI, hrI, hr0, hs0, hmI, hN, decide_false, decide_true, if_false, if_true, Bool.false_eq_true,
          Int.toNat_natCast, tmod_nat, tdiv_nat, tmod_nat_add, tdiv_nat_add, Bool.and_true, Nat.add_zero, and_self]
        have hmk : Go.makeBytesI ((len / 8 : Nat) : Int) = .ok (List.replicate (len / 8) 0) := by
          have h : ¬ (((len / 8 : Nat) : Int) < 0) := by omega
          simp only [Go.makeBytesI, h, if_false, Int.toNat_natCast]
        have hl : ((d.take d.length).drop (off / 8)).length ≤ len / 8 := by
          simp only [List.length_drop, List.length_take]; omega
        simp only [sliceI_nat d (off / 8) d.length hst (Nat.le_refl _), hmk, ok_bind, Go.copyBytes, List.length_replicate,
          List.take_of_length_le hl, List.drop_replicate]
        simp
      · have hmI : ¬ ((((off + len) / 8 : Nat) : Int) - (d.length : Int) > 0) := by omega
        simp only [h1', h2', h3, h4, hq, hr, hm, hqI, hrI, hr0, hs0, hmI, hN, decide_false, decide_true, if_false, if_true, Bool.false_eq_true,
          Int.toNat_natCast, tmod_nat, tdiv_nat, tmod_nat_add, tdiv_nat_add, Bool.and_true, Nat.add_zero, and_self]
        simp only [sliceI_nat d (off / 8) ((off + len) / 8) (by omega) (by omega), ok_bind]
        simp

/-- the part of GetBytes after `dUsed := d[start:end]` when the byte count `lengthB` is not positive (negative length) -/
theorem getBytes_tail_panic (d : Bytes) (ss srs st e lb : Int) (inner : Bytes → Res Bytes) (shift : Bool) (hlb : lb ≤ 0)
    (h1 : ss = 0 → srs = 0 → (∀ t, inner t = .error .panic) ∨ (st < 0 ∨ e < 0 ∨ e < st ∨ (d.length : Int) < e)) :
    (Go.sliceI d st e >>= fun t_1 =>
     if (decide (ss = 0) && decide (srs = 0)) = true then inner t_1
     else
       Go.makeBytesI lb >>= fun t_3 =>
       TN.GetBytes_loop1 ss t_1 (t_3.length : Int) (t_3.length + 1) t_3 0 >>= fun t_11 =>
       if shift = true then
         Go.idxI t_11.1 ((t_11.1.length : Int) - 1) >>= fun t_12 =>
         Go.shr8I t_12 (Int.tmod (8 - srs) 8) >>= fun t_13 =>
         Go.setIdxI t_11.1 ((t_11.1.length : Int) - 1) t_13 >>= fun t_14 =>
         Except.ok t_14
       else
         Go.idxI t_11.1 ((t_11.1.length : Int) - 1) >>= fun t_15 =>
         Go.shl8I 255 (Int.tmod (8 - srs) 8) >>= fun t_16 =>
         Go.setIdxI t_11.1 ((t_11.1.length : Int) - 1) (t_15 &&& t_16) >>= fun t_14 =>
         Except.ok t_14) = (.error .panic : Res Bytes) := by
  rcases sliceI_cases d st e with hs | ⟨v, hs⟩
  · simp [hs]
  · have hb := sliceI_ok_bounds hs
    rw [hs]
    simp only [ok_bind]
    by_cases hsim : ss = 0 ∧ srs = 0
    · rcases h1 hsim.1 hsim.2 with hin | hbad
      · simp [hsim.1, hsim.2, hin]
      · omega
    · have hc : (decide (ss = 0) && decide (srs = 0)) = false := by
        simp only [Bool.and_eq_false_iff, decide_eq_false_iff_not]; omega
      by_cases hl : lb < 0
      · simp [hc, Go.makeBytesI, hl]
      · have : lb = 0 := by omega
        subst this
        simp [hc, Go.makeBytesI, TN.GetBytes_loop1, Go.idxI]

theorem getBytes_panic (d : Bytes) (offset length : Int) (shift : Bool)
    (h1 : ¬ ((d.length : Int) * 8 < offset)) (h2 : ¬ (length = 0)) (h : length < 0 ∨ offset ≤ -8) :
    TN.GetBytes d offset length shift = .error .panic := by
  unfold TN.GetBytes
  obtain ⟨eo, po, no⟩ := tdiv_tmod_spec offset
  obtain ⟨el, pl, nl⟩ := tdiv_tmod_spec length
  obtain ⟨es, ps, ns⟩ := tdiv_tmod_spec (offset + length)
  simp only [h1, h2, decide_false, if_false, Bool.false_eq_true]
  generalize Int.tmod offset 8 = ss at *
  generalize Int.tdiv offset 8 = st at *
  generalize Int.tmod length 8 = srs at *
  generalize Int.tdiv length 8 = lq at *
  generalize Int.tmod (offset + length) 8 = er at *
  generalize Int.tdiv (offset + length) 8 = eq at *
  have hst : offset ≤ -8 → st < 0 := by intro; omega
  have mk : ∀ (lb : Int) (t : Bytes), lb < 0 → (Go.makeBytesI lb >>= fun t_2 => (Except.ok (Go.copyBytes t_2 t) : Res Bytes)) = .error .panic := by
    intro lb t hl; simp [Go.makeBytesI, hl]
  by_cases hq : er > 0 <;> by_cases hr : srs > 0
  · by_cases hm : eq + 1 - (d.length : Int) > 0 <;>
      simp only [hq, hr, hm, decide_true, decide_false, if_true, if_false, Bool.false_eq_true, Int.toNat_natCast]
    all_goals
      rcases h with hl | ho
      · exact getBytes_tail_panic d ss srs st _ _ _ shift (by omega) (by intros; omega)
      · simp [sliceI_neg _ _ _ (hst ho)]
  · by_cases hm : eq + 1 - (d.length : Int) > 0 <;>
      simp only [hq, hr, hm, decide_true, decide_false, if_true, if_false, Bool.false_eq_true, Int.toNat_natCast]
    all_goals
      rcases h with hl | ho
      · refine getBytes_tail_panic d ss srs st _ _ _ shift (by omega) ?_
        intro h1 h2
        first
          | exact Or.inl (fun t => mk _ t (by omega))
          | exact Or.inr (by omega)
      · simp [sliceI_neg _ _ _ (hst ho)]
  · by_cases hm : eq - (d.length : Int) > 0 <;>
      simp only [hq, hr, hm, decide_true, decide_false, if_true, if_false, Bool.false_eq_true, Int.toNat_natCast]
    all_goals
      rcases h with hl | ho
      · exact getBytes_tail_panic d ss srs st _ _ _ shift (by omega) (by intros; omega)
      · simp [sliceI_neg _ _ _ (hst ho)]
  · by_cases hm : eq - (d.length : Int) > 0 <;>
      simp only [hq, hr, hm, decide_true, decide_false, if_true, if_false, Bool.false_eq_true, Int.toNat_natCast]
    all_goals
      rcases h with hl | ho
      · refine getBytes_tail_panic d ss srs st _ _ _ shift (by omega) ?_
        intro h1 h2
        first
          | exact Or.inl (fun t => mk _ t (by omega))
          | exact Or.inr (by omega)
      · simp [sliceI_neg _ _ _ (hst ho)]

/-- the part of GetBytes after `dUsed := d[0:end]` for an offset in [-7,-1]: the first shift has a negative count -/
theorem getBytes_tail_negshift (d : Bytes) (ss srs e lbI : Int) (lb : Nat) (shift : Bool) (hss : ss < 0) (hsrs : 0 ≤ srs ∧ srs < 8)
    (he0 : 0 ≤ e) (he : e ≤ (d.length : Int)) (hlb : 0 < lb) (hlbI : lbI = (lb : Int)) :
    (Go.sliceI d 0 e >>= fun t_1 =>
       Go.makeBytesI lbI >>= fun t_3 =>
       TN.GetBytes_loop1 ss t_1 (t_3.length : Int) (t_3.length + 1) t_3 0 >>= fun t_11 =>
       if shift = true then
         Go.idxI t_11.1 ((t_11.1.length : Int) - 1) >>= fun t_12 =>
         Go.shr8I t_12 (Int.tmod (8 - srs) 8) >>= fun t_13 =>
         Go.setIdxI t_11.1 ((t_11.1.length : Int) - 1) t_13 >>= fun t_14 =>
         Except.ok t_14
       else
         Go.idxI t_11.1 ((t_11.1.length : Int) - 1) >>= fun t_15 =>
         Go.shl8I 255 (Int.tmod (8 - srs) 8) >>= fun t_16 =>
         Go.setIdxI t_11.1 ((t_11.1.length : Int) - 1) (t_15 &&& t_16) >>= fun t_14 =>
         Except.ok t_14) =
      if e > 0 then (.error .panic : Res Bytes) else .ok (List.replicate lb 0) := by
  subst hlbI
  obtain ⟨en, rfl⟩ := Int.eq_ofNat_of_zero_le he0
  have hen : en ≤ d.length := by omega
  have hsl : Go.sliceI d 0 (en : Int) = .ok (d.take en) := by
    have := sliceI_nat d 0 en (by omega) hen
    simpa using this
  have hmk : Go.makeBytesI (lb : Int) = .ok (List.replicate lb 0) := by
    have h : ¬ ((lb : Int) < 0) := by omega
    simp only [Go.makeBytesI, h, if_false, Int.toNat_natCast]
  obtain ⟨k, rfl⟩ : ∃ k, lb = k + 1 := ⟨lb - 1, by omega⟩
  simp only [hsl, hmk, ok_bind, List.length_replicate]
  rw [TN.GetBytes_loop1]
  by_cases hpos : (en : Int) > 0
  · have hne : ¬ ((0 : Int) ≥ ((d.take en).length : Int)) := by
      simp only [List.length_take]; omega
    have hlt : 0 < (d.take en).length := by simp only [List.length_take]; omega
    have hi : Go.idxI (d.take en) 0 = .ok ((d.take en)[0]) := by
      have := idxI_nat (d.take en) 0
      rw [idx_getElem hlt] at this
      simpa using this
    have h01 : ((0 : Int) < ((k + 1 : Nat) : Int)) := by omega
    have hen0 : ¬ en = 0 := by omega
    have hd : ¬ d = [] := by
      intro h; subst h; simp at hen; omega
    have hen1 : 0 < en := by omega
    simp [hpos, hne, hi, h01, Go.shl8I, hss, hen0, hd, hen1]
  · have he0 : en = 0 := by omega
    subst he0
    have h01 : ((0 : Int) < ((k + 1 : Nat) : Int)) := by omega
    obtain ⟨hs1, hs2⟩ := hsrs
    obtain ⟨kn, hkn⟩ := Int.eq_ofNat_of_zero_le (show 0 ≤ Int.tmod (8 - srs) 8 from Int.tmod_nonneg _ (by omega))
    have hidx : (((k + 1 : Nat) : Int) - 1) = ((k : Nat) : Int) := by omega
    have hget : Go.idx (List.replicate (k + 1) (0 : UInt8)) k = .ok 0 := by
      simp [Go.idx]
    have hset : Go.setIdx (List.replicate (k + 1) (0 : UInt8)) k 0 = .ok (List.replicate (k + 1) 0) := by
      simp [Go.setIdx, List.replicate_succ']
    cases shift <;>
      simp [h01, hkn, hidx, idxI_nat, setIdxI_nat, hget, shr8I_nat, shl8I_nat, Producer.shr8, hset]

theorem getBytes_small_neg (d : Bytes) (offset : Int) (n : Nat) (shift : Bool)
    (ho : -8 < offset) (ho' : offset < 0) (hn : 0 < n) :
    TN.GetBytes d offset (n : Int) shift = getBytes d offset (n : Int) shift := by
  unfold TN.GetBytes getBytes goDiv goMod
  obtain ⟨eo, po, no⟩ := tdiv_tmod_spec offset
  obtain ⟨es, ps, ns⟩ := tdiv_tmod_spec (offset + (n : Int))
  have h1 : ¬ ((d.length : Int) * 8 < offset) := by omega
  have h2 : ¬ ((n : Int) = 0) := by omega
  have h3 : ¬ ((n : Int) < 0 ∨ offset ≤ -8) := by omega
  simp only [h1, h2, h3, ho', decide_false, decide_true, if_false, if_true, Bool.false_eq_true, Int.toNat_natCast,
    tmod_nat, tdiv_nat]
  generalize Int.tmod offset 8 = ss at *
  generalize Int.tdiv offset 8 = st at *
  generalize Int.tmod (offset + (n : Int)) 8 = er at *
  generalize Int.tdiv (offset + (n : Int)) 8 = eq at *
  have hst : st = 0 := by omega
  subst hst
  have hss : ss < 0 := by omega
  have hsim : (decide (ss = 0) && decide (((n % 8 : Nat) : Int) = 0)) = false := by
    simp only [Bool.and_eq_false_iff, decide_eq_false_iff_not]; omega
  have hsrs : 0 ≤ ((n % 8 : Nat) : Int) ∧ ((n % 8 : Nat) : Int) < 8 := by omega
  by_cases hq : er > 0 <;> by_cases hr : n % 8 > 0
  · have hrI : (((n % 8 : Nat) : Int) > 0) := by omega
    by_cases hm : eq + 1 - (d.length : Int) > 0 <;>
      simp only [hq, hr, hrI, hm, hsim, decide_true, decide_false, if_true, if_false, Bool.false_eq_true, Int.toNat_natCast]
    all_goals
      refine (getBytes_tail_negshift d ss _ _ _ (n / 8 + 1) shift hss hsrs (by omega) (by omega) (by omega) (by omega)).trans ?_
      split <;> split <;> first | rfl | (exfalso; omega)
  · have hrI : ¬ (((n % 8 : Nat) : Int) > 0) := by omega
    by_cases hm : eq + 1 - (d.length : Int) > 0 <;>
      simp only [hq, hr, hrI, hm, hsim, decide_true, decide_false, if_true, if_false, Bool.false_eq_true, Int.toNat_natCast, Nat.add_zero]
    all_goals
      refine (getBytes_tail_negshift d ss _ _ _ (n / 8) shift hss hsrs (by omega) (by omega) (by omega) rfl).trans ?_
      split <;> split <;> first | rfl | (exfalso; omega)
  · have hrI : (((n % 8 : Nat) : Int) > 0) := by omega
    by_cases hm : eq - (d.length : Int) > 0 <;>
      simp only [hq, hr, hrI, hm, hsim, decide_true, decide_false, if_true, if_false, Bool.false_eq_true, Int.toNat_natCast, Int.add_zero]
    all_goals
      refine (getBytes_tail_negshift d ss _ _ _ (n / 8 + 1) shift hss hsrs (by omega) (by omega) (by omega) (by omega)).trans ?_
      split <;> split <;> first | rfl | (exfalso; omega)
  · have hrI : ¬ (((n % 8 : Nat) : Int) > 0) := by omega
    by_cases hm : eq - (d.length : Int) > 0 <;>
      simp only [hq, hr, hrI, hm, hsim, decide_true, decide_false, if_true, if_false, Bool.false_eq_true, Int.toNat_natCast, Nat.add_zero, Int.add_zero]
    all_goals
      refine (getBytes_tail_negshift d ss _ _ _ (n / 8) shift hss hsrs (by omega) (by omega) (by omega) rfl).trans ?_
      split <;> split <;> first | rfl | (exfalso; omega)

/-- GetBytes for every slice, offset, length (any sign) and both final passes -/
theorem getBytes_trans_eq (d : Bytes) (offset length : Int) (shift : Bool) :
    TN.GetBytes d offset length shift = getBytes d offset length shift := by
  by_cases hl : 0 ≤ length
  · obtain ⟨n, rfl⟩ := Int.eq_ofNat_of_zero_le hl
    by_cases ho : 0 ≤ offset
    · obtain ⟨m, rfl⟩ := Int.eq_ofNat_of_zero_le ho
      exact getBytes_trans_eq_nonneg d m n shift
    · by_cases hn : n = 0
      · subst hn
        unfold TN.GetBytes getBytes
        have h1 : ¬ ((d.length : Int) * 8 < offset) := by omega
        simp [h1]
      · by_cases ho8 : offset ≤ -8
        · have h1 : ¬ ((d.length : Int) * 8 < offset) := by omega
          have h2 : ¬ ((n : Int) = 0) := by omega
          rw [getBytes_panic d offset n shift h1 h2 (Or.inr ho8)]
          unfold getBytes
          simp [h1, hn, ho8]
        · exact getBytes_small_neg d offset n shift (by omega) (by omega) (by omega)
  · by_cases h1 : (d.length : Int) * 8 < offset
    · unfold TN.GetBytes getBytes
      simp [h1]
    · have h2 : ¬ (length = 0) := by omega
      rw [getBytes_panic d offset length shift h1 h2 (Or.inl (by omega))]
      unfold getBytes
      have : length < 0 := by omega
      simp [h1, h2, this]

end Goflow.C14Trans
