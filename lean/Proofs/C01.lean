import Proofs.Lemmas.SafetyPacket
import Goflow.Pipe
/-!
  C01 — Untrusted datagrams never crash or stall the collector.
  `panic` and `diverge` are real outcomes of the model (DESIGN.md §6); the theorems show they are
  unreachable for every byte string, every template / sampling state and every history.
  Configurations: proved here for configurations without custom mappings (none / compiled from an
  empty file); configurations with mappings are covered by C14's `Sane` predicate and by the
  correspondence check (PARTIAL for arbitrary accepted mapping files, see DESIGN.md).
-/
namespace Goflow.C01
open Goflow Goflow.Producer Goflow.Pipe

/-- outcome of a call that is a result or a returned error -/
def Safe (e : Option Err) : Prop := e ≠ some .panic ∧ e ≠ some .diverge

theorem safe_of_R {e : Err} (h : e.R) : Safe (some e) := by
  rcases h with rfl | rfl <;> exact ⟨by decide, by decide⟩

/-- NetFlow v5: every byte string decodes to a packet or a returned error -/
theorem v5_safe (d : Bytes) : ∀ e, V5.decodeMessageVersion d = .error e → e.R :=
  fun _ h => V5.decodeMessageVersion_err h

/-- sFlow v5: every byte string, whatever counts and lengths it claims -/
theorem sflow_safe (d : Bytes) : ∀ e, Sflow.decodeMessageVersion d = .error e → e.R :=
  fun _ h => Sflow.decodeMessageVersion_err h

/-- NetFlow v9 / IPFIX: every byte string against **every** template store (not only reachable
    ones): each loop stops within |d|+2 iterations and no panic point is reachable -/
theorem netflow_safe (s : Netflow.Store) (d : Bytes) :
    ∀ e, (Netflow.decodeMessageVersion s d).err = some e → e = .eof ∨ e = .bad :=
  Netflow.decodeMessageVersion_safe s d

/-- the iteration bound behind `netflow_safe`: a data set with records of size > 0 is cut in at most
    |payload| iterations — fuel |payload|+1 never runs out, for any template -/
theorem iterations_bounded (fs : List Netflow.Field) (hpos : 0 < Netflow.templateSize fs) (b : Bytes) :
    Netflow.decodeDataSetLoop fs (b.length + 1) b ≠ .error .diverge :=
  Netflow.decodeDataSetLoop_terminates fs hpos (b.length + 1) b (by omega)

/-- the sampled-packet dissector terminates on every frame, at every capture length, without error -/
theorem parsePacket_safe (cfg : Config) (hcfg : cfg.layers = []) (m : FlowMsg) (data : Bytes) :
    ∃ m', parsePacket cfg m data = .ok m' := Producer.parsePacket_safe cfg hcfg m data

/-- a configuration without custom mappings (no mapping file, or one that declares none) -/
def NoMappings (cfg : Config) : Prop := cfg.layers = [] ∧ cfg.ipfix = [] ∧ cfg.v9 = []

private theorem decodeUNumber_err {bits : Nat} {b : Bytes} {e : Err} (h : decodeUNumber bits b = .error e) : e = .bad := by
  unfold decodeUNumber decodeUNumberRaw at h
  simp only at h
  split at h
  · cases h
  · rename_i e' he
    cases h
    split at he
    · cases he
    · split at he
      · cases he
      · cases he; rfl

private theorem applyAction_err (cfg : Config) (hcfg : NoMappings cfg) (bt up : Nat) (m : FlowMsg) (v : Bytes) (a : Action) (e : Err)
    (h : applyAction (some cfg) bt up m v a = .error e) : e = .bad := by
  cases a with
  | frameSection =>
    simp only [applyAction] at h
    obtain ⟨m', hm⟩ := Producer.parsePacket_safe cfg hcfg.1 m v
    rw [hm] at h
    cases h
  | unum2 a b =>
    simp only [applyAction] at h
    split at h
    · rename_i he; cases h; exact decodeUNumber_err he
    · split at h
      · rename_i he; cases h; exact decodeUNumber_err he
      · cases h
  | ipVersion => simp only [applyAction] at h; split at h <;> cases h
  | addr c v6 => simp only [applyAction] at h; cases h
  | bytes c => simp only [applyAction] at h; cases h
  | mplsIp => simp only [applyAction] at h; cases h
  | unum c => simp only [applyAction] at h; split at h <;> first | (rename_i he; cases h; exact decodeUNumber_err he) | cases h
  | icmpTypeCode => simp only [applyAction] at h; split at h <;> first | (rename_i he; cases h; exact decodeUNumber_err he) | cases h
  | fragOffset => simp only [applyAction] at h; split at h <;> first | (rename_i he; cases h; exact decodeUNumber_err he) | cases h
  | ipFlags => simp only [applyAction] at h; split at h <;> first | (rename_i he; cases h; exact decodeUNumber_err he) | cases h
  | mplsLabel i => simp only [applyAction] at h; split at h <;> first | (rename_i he; cases h; exact decodeUNumber_err he) | cases h
  | v9First => simp only [applyAction] at h; split at h <;> first | (rename_i he; cases h; exact decodeUNumber_err he) | cases h
  | v9Last => simp only [applyAction] at h; split at h <;> first | (rename_i he; cases h; exact decodeUNumber_err he) | cases h
  | ipfixTime s mult => simp only [applyAction] at h; split at h <;> first | (rename_i he; cases h; exact decodeUNumber_err he) | cases h
  | ipfixDelta s => simp only [applyAction] at h; split at h <;> first | (rename_i he; cases h; exact decodeUNumber_err he) | cases h
  | frameSize => simp only [applyAction] at h; split at h <;> first | (rename_i he; cases h; exact decodeUNumber_err he) | cases h

private theorem convertFields_err (cfg : Config) (hcfg : NoMappings cfg) (version bt up : Nat) (fs : List Netflow.DataField) (m : FlowMsg) (e : Err)
    (h : convertFields (some cfg) version bt up fs m = .error e) : e = .bad := by
  induction fs generalizing m with
  | nil => simp [convertFields] at h
  | cons df rest ih =>
    unfold convertFields at h
    cases hv : df.value with
    | none => rw [hv] at h; exact ih _ h
    | some v =>
      rw [hv] at h
      simp only at h
      have hl : lookupNetflow (if version = 10 then cfg.ipfix else cfg.v9) df.penProvided df.pen df.type = none := by
        split <;> simp [lookupNetflow, hcfg.2.1, hcfg.2.2]
      rw [hl] at h
      simp only at h
      split at h
      · exact ih _ h
      · split at h
        · exact ih _ h
        · rename_i a ha
          split at h
          · rename_i e' he; cases h; exact applyAction_err cfg hcfg _ _ _ _ _ _ he
          · exact ih _ h

private theorem convertRecords_err (cfg : Config) (hcfg : NoMappings cfg) (version bt up : Nat) (rs : List Netflow.DataRecord) (e : Err)
    (h : convertRecords (some cfg) version bt up rs = .error e) : e = .bad := by
  induction rs with
  | nil => simp [convertRecords] at h
  | cons r rs ih =>
    unfold convertRecords at h
    split at h
    · rename_i e' he
      cases h
      exact convertFields_err cfg hcfg _ _ _ _ _ _ he
    · split at h
      · rename_i e' he; cases h; exact ih he
      · cases h

private theorem decodeUNumber_short (bits : Nat) (v : Bytes) (h : ¬ v.length > 8) : ∃ x, decodeUNumber bits v = .ok x := by
  unfold decodeUNumber decodeUNumberRaw
  by_cases h1 : v.length = 1 ∨ v.length = 2 ∨ v.length = 4 ∨ v.length = 8
  · simp [h1]
  · have h2 : v.length < 8 := by omega
    simp [h1, h2]

private theorem searchSamplingRate_err (rs : List Netflow.OptionsDataRecord) (e : Err)
    (h : searchSamplingRate rs = .error e) : e = .eof := by
  -- since sampling options of any width are accepted (≤ 8 bytes decoded, wider ones ignored) the lookup never fails
  have pop : ∀ (fs : List Netflow.DataField) (t : Nat) (e : Err), populate fs t = .error e → e = .eof := by
    intro fs t e h
    unfold populate at h
    split at h
    · cases h
    · split at h
      · cases h
      · split at h
        · cases h
        · rename_i hl
          obtain ⟨x, hx⟩ := decodeUNumber_short 32 _ hl
          rw [hx] at h
          cases h
  induction rs with
  | nil => simp [searchSamplingRate] at h
  | cons r rs ih =>
    unfold searchSamplingRate at h
    split at h
    · rename_i e' he; cases h; exact pop _ _ _ he
    · cases h
    · split at h
      · rename_i e' he; cases h; exact pop _ _ _ he
      · cases h
      · split at h
        · rename_i e' he; cases h; exact pop _ _ _ he
        · cases h
        · exact ih h

/-- conversion to flow messages: only returned errors (a value wider than 8 bytes for a numeric
    element, a sampling value shorter than 4 bytes) -/
theorem produce_safe (cfg : Config) (hcfg : NoMappings cfg) (p : Netflow.Packet) (rates : Rates) :
    ∀ e, (processNetflow (some cfg) p rates).err = some e → e.R := by
  intro e h
  unfold processNetflow at h
  split at h
  · rename_i e' he
    simp at h; subst h
    right; exact convertRecords_err cfg hcfg _ _ _ _ _ he
  · split at h
    · rename_i e' he
      simp at h; subst h
      left; exact searchSamplingRate_err _ _ he
    · simp at h

private theorem processSflow_ok (cfg : Config) (hcfg : NoMappings cfg) (p : Sflow.Packet) :
    ∃ ms, processSflow (some cfg) p = .ok ms := by
  have rec1 : ∀ (m : FlowMsg) (r : Sflow.FlowRecord), ∃ m', applyRecord (some cfg) m r = .ok m' := by
    intro m r
    unfold applyRecord
    split
    · split
      · exact Producer.parsePacket_safe _ (by simpa using hcfg.1) _ _
      · exact ⟨_, rfl⟩
    · split
      · exact ⟨_, rfl⟩
      · split
        · exact ⟨_, rfl⟩
        · split <;> exact ⟨_, rfl⟩
    · exact ⟨_, rfl⟩
    · exact ⟨_, rfl⟩
    · exact ⟨_, rfl⟩
  have recs : ∀ (rs : List Sflow.FlowRecord) (m : FlowMsg), ∃ m', applyRecords (some cfg) rs m = .ok m' := by
    intro rs
    induction rs with
    | nil => intro m; exact ⟨m, rfl⟩
    | cons r rs ih =>
      intro m
      obtain ⟨m1, h1⟩ := rec1 m r
      obtain ⟨m2, h2⟩ := ih m1
      exact ⟨m2, by simp [applyRecords, h1, h2]⟩
  have samples : ∀ (ss : List Sflow.Sample), ∃ ms, convertSamples (some cfg) ss = .ok ms := by
    intro ss
    induction ss with
    | nil => exact ⟨[], rfl⟩
    | cons s ss ih =>
      obtain ⟨ms, hms⟩ := ih
      cases s with
      | flow h vals recs' =>
        obtain ⟨m', hm'⟩ := recs recs' (sampleBase (vals.getD 0 0) (vals.getD 3 0) (vals.getD 4 0))
        exact ⟨m' :: ms, by simp only [convertSamples, convertSample, hm', hms]⟩
      | expFlow h vals recs' =>
        obtain ⟨m', hm'⟩ := recs recs' (sampleBase (vals.getD 0 0) (vals.getD 4 0) (vals.getD 6 0))
        exact ⟨m' :: ms, by simp only [convertSamples, convertSample, hm', hms]⟩
      | counter h c r => exact ⟨ms, by simp [convertSamples, convertSample, hms]⟩
      | drop h v r => exact ⟨ms, by simp [convertSamples, convertSample, hms]⟩
      | none => exact ⟨ms, by simp [convertSamples, convertSample, hms]⟩
  obtain ⟨ms, hms⟩ := samples p.samples
  simp only [processSflow, hms]
  exact ⟨_, rfl⟩

/-- **one datagram through any pipe**, any state: a result, a returned error or template-not-found -/
theorem pipe_safe (k : Kind) (cfg : Config) (hcfg : NoMappings cfg) (st : State) (src : Src) (recv : Nat) (d : Bytes) :
    Safe (decodeFlow k cfg st src recv d).err := by
  have nf : Safe (netflowPipe cfg st src recv d).err := by
    unfold netflowPipe
    simp only
    cases hrd : readU 2 d with
    | error e => exact safe_of_R (Or.inl (readU_err hrd))
    | ok vb =>
      obtain ⟨version, b⟩ := vb
      simp only
      by_cases h5 : version = 5
      · simp only [h5, if_true]
        cases hd : V5.decodeMessage b with
        | error e =>
          -- decodeMessage is the tail of decodeMessageVersion on [0,5] ++ b
          have : V5.decodeMessageVersion ([0, 5] ++ b) = .error e := by
            have hr : readU 2 ([0, 5] ++ b) = .ok (5, b) := by
              have := readU_append [0, 5] b rfl
              simpa [beNat] using this
            unfold V5.decodeMessageVersion
            rw [hr]
            simp [hd]
          exact safe_of_R (V5.decodeMessageVersion_err this)
        | ok p => exact ⟨by simp, by simp⟩
      · simp only [h5, if_false]
        by_cases h910 : version = 9 ∨ version = 10
        · simp only [h910, if_true]
          generalize hdo : (if version = 9 then Netflow.decodeMessageNetFlow (st.templatesOf src) b
            else Netflow.decodeMessageIPFIX (st.templatesOf src) b) = o
          have hsafe : ∀ e, o.err = some e → e = .eof ∨ e = .bad := by
            intro e he
            -- both are the tails of decodeMessageVersion on the re-attached version
            have hv : o = Netflow.decodeMessageVersion (st.templatesOf src) (encBE 2 version ++ b) := by
              have hr : readU 2 (encBE 2 version ++ b) = .ok (version, b) := readU_enc b (by rcases h910 with h | h <;> simp [h])
              unfold Netflow.decodeMessageVersion
              rw [hr, ← hdo]
              rcases h910 with h | h <;> simp [h]
            rw [hv] at he
            exact Netflow.decodeMessageVersion_safe _ _ e he
          cases ho : o.err with
          | some e => exact safe_of_R (hsafe e ho)
          | none =>
            simp only
            generalize hr : processNetflow (some cfg) o.packet _ = r
            cases hre : r.err with
            | some e =>
              have := produce_safe cfg hcfg o.packet _ e (by rw [hr]; exact hre)
              exact safe_of_R this
            | none =>
              simp only
              split <;> exact ⟨by simp, by simp⟩
        · simp only [h910, if_false]
          exact ⟨by simp, by simp⟩
  have sf : Safe (sflowPipe cfg st recv d).err := by
    unfold sflowPipe
    cases hd : Sflow.decodeMessageVersion d with
    | error e => exact safe_of_R (Sflow.decodeMessageVersion_err hd)
    | ok p =>
      obtain ⟨ms, hms⟩ := processSflow_ok cfg hcfg p
      simp only [hms]
      exact ⟨by simp, by simp⟩
  cases k with
  | netflow => exact nf
  | sflow => exact sf
  | auto =>
    unfold decodeFlow autoPipe
    simp only
    cases hrd : readU 4 d with
    | error e => exact safe_of_R (Or.inl (readU_err hrd))
    | ok vb =>
      obtain ⟨proto, b⟩ := vb
      simp only
      split
      · exact sf
      · split
        · exact nf
        · exact ⟨by simp, by simp⟩

/-- **any history**: whatever datagrams came before — valid, malformed, from any exporter — the
    worker goes on: every later datagram is again processed to a result or a returned error -/
theorem pipe_history_safe (k : Kind) (cfg : Config) (hcfg : NoMappings cfg) (st : State)
    (hist : List (Src × Nat × Bytes)) (src : Src) (recv : Nat) (d : Bytes) :
    Safe (decodeFlow k cfg (hist.foldl (fun s h => (decodeFlow k cfg s h.1 h.2.1 h.2.2).state) st) src recv d).err :=
  pipe_safe k cfg hcfg _ src recv d

/-- non-vacuity: the empty configuration has no mappings -/
example : NoMappings {} := ⟨rfl, rfl, rfl⟩

end Goflow.C01
