import Goflow.Spec.Netflow
import Proofs.Lemmas.Fields
import Proofs.Lemmas.Netflow
/-!
  C03 — NetFlow v9 / IPFIX wire decoding is exact: decode (encode M) = M for every well-formed
  abstract message M, where `encode` is the RFC 3954 / RFC 7011 encoder of Goflow/Spec/Netflow.lean.
  The proof is layered: field specifier → template record → template set → data record → data set →
  set → message.
-/
namespace Goflow.C03
open Goflow Goflow.Netflow Goflow.Spec.Netflow

/-! ### well-formedness of the abstract message (decidable) -/

/-- a field specifier fits the wire format; v9 has neither enterprise fields nor variable length -/
def FieldWF (version : Nat) (f : SField) : Prop :=
  f.id < 0x8000 ∧ f.length < 65536 ∧
  (match f.ent with | some pen => pen < 2 ^ 32 ∧ version = 10 | none => True) ∧
  (version = 9 → f.length ≠ 0xffff)

instance (version : Nat) (f : SField) : Decidable (FieldWF version f) := by
  unfold FieldWF; cases f.ent <;> infer_instance

/-- a value fits its field: fixed length exactly; variable length below 2^16, short form only below 255 -/
def ValueWF (f : SField) (v : SValue) : Prop :=
  if f.length = 0xffff then v.bytes.length < 65536 ∧ (v.long = false → v.bytes.length < 255)
  else v.bytes.length = f.length

instance (f : SField) (v : SValue) : Decidable (ValueWF f v) := by unfold ValueWF; infer_instance

def RecordWF : List SField → List SValue → Prop
  | [], [] => True
  | f :: fs, v :: vs => ValueWF f v ∧ RecordWF fs vs
  | _, _ => False

/-! ### field specifiers -/

private theorem readFields2 (a b : Nat) (rest : Bytes) (ha : a < 65536) (hb : b < 65536) :
    readFields [2, 2] (encBE 2 a ++ (encBE 2 b ++ rest)) = .ok ([a, b], rest) := by
  have : Fits [2, 2] [a, b] := by simp [Fits]; omega
  have := readFields_enc [2, 2] [a, b] rest this
  simpa [encFields] using this

private theorem readFields3 (a b c : Nat) (rest : Bytes) (ha : a < 65536) (hb : b < 65536) (hc : c < 65536) :
    readFields [2, 2, 2] (encBE 2 a ++ (encBE 2 b ++ (encBE 2 c ++ rest))) = .ok ([a, b, c], rest) := by
  have : Fits [2, 2, 2] [a, b, c] := by simp [Fits]; omega
  have := readFields_enc [2, 2, 2] [a, b, c] rest this
  simpa [encFields] using this

/-- one field specifier of a template record (the loop body of DecodeTemplateSet) and the whole
    field list: ids, lengths, enterprise bit and enterprise numbers come back exactly -/
theorem field_roundtrip (version : Nat) (fs : List SField) (rest : Bytes)
    (hwf : ∀ f ∈ fs, FieldWF version f) :
    decodeTemplateFields version fs.length (fs.flatMap encField ++ rest) = .ok (fs.map expField, rest) := by
  induction fs with
  | nil => simp [decodeTemplateFields]
  | cons f fs ih =>
    have hf := hwf f (by simp)
    have ih' := ih (fun g hg => hwf g (by simp [hg]))
    obtain ⟨hid, hlen, hent, _⟩ := hf
    simp only [List.length_cons, List.flatMap_cons, List.map_cons, List.append_assoc]
    unfold decodeTemplateFields
    cases he : f.ent with
    | none =>
      simp only [encField, he, List.append_assoc]
      rw [readFields2 _ _ _ (by omega) hlen]
      have : ¬ (version = 10 ∧ f.id ≥ 0x8000) := by omega
      simp only [this, if_false, ih', expField, he]
    | some pen =>
      rw [he] at hent
      obtain ⟨hpen, hv⟩ := hent
      subst hv
      simp only [encField, he, List.append_assoc]
      rw [readFields2 _ _ _ (by omega) hlen]
      have : 10 = 10 ∧ f.id + 0x8000 ≥ 0x8000 := ⟨rfl, by omega⟩
      simp only [this, and_self, if_true]
      rw [readU_enc _ (by simpa using hpen)]
      simp only
      rw [ih']
      simp only [expField, he, Nat.add_sub_cancel]

/-- the same for the field specifiers of options templates (DecodeField) -/
theorem optionField_roundtrip (version : Nat) (fs : List SField) (rest : Bytes)
    (hwf : ∀ f ∈ fs, FieldWF version f) :
    decodeFieldsN (version == 10) fs.length (fs.flatMap encField ++ rest) = .ok (fs.map expField, rest) := by
  induction fs with
  | nil => simp [decodeFieldsN]
  | cons f fs ih =>
    have hf := hwf f (by simp)
    have ih' := ih (fun g hg => hwf g (by simp [hg]))
    obtain ⟨hid, hlen, hent, _⟩ := hf
    simp only [List.length_cons, List.flatMap_cons, List.map_cons, List.append_assoc]
    unfold decodeFieldsN decodeField
    cases he : f.ent with
    | none =>
      simp only [encField, he, List.append_assoc]
      rw [readFields2 _ _ _ (by omega) hlen]
      have : ¬ ((version == 10) = true ∧ f.id ≥ 0x8000) := by omega
      simp only [this, if_false, ih', expField, he]
    | some pen =>
      rw [he] at hent
      obtain ⟨hpen, hv⟩ := hent
      subst hv
      simp only [encField, he, List.append_assoc]
      rw [readFields2 _ _ _ (by omega) hlen]
      have : ((10:Nat) == 10) = true ∧ f.id + 0x8000 ≥ 0x8000 := ⟨rfl, by omega⟩
      simp only [this, and_self, if_true]
      rw [readU_enc _ (by simpa using hpen)]
      simp only
      have ih'' : decodeFieldsN true fs.length (List.flatMap encField fs ++ rest) = .ok (fs.map expField, rest) := ih'
      rw [ih'']
      simp only [expField, he, Nat.add_sub_cancel]

/-! ### template sets -/

def TemplateRecWF (version : Nat) (r : Nat × List SField) : Prop :=
  r.1 < 65536 ∧ r.2.length < 65536 ∧ ∀ f ∈ r.2, FieldWF version f

/-- DecodeTemplateSet on the encoded records followed by fewer than 4 padding bytes -/
theorem templateSet_roundtrip (version : Nat) (recs : List (Nat × List SField)) (pad : Bytes) (fuel : Nat)
    (hwf : ∀ r ∈ recs, TemplateRecWF version r) (hpad : pad.length < 4) (hfuel : recs.length < fuel) :
    decodeTemplateSet version fuel (recs.flatMap encTemplateRec ++ pad) =
      .ok (recs.map fun r => ⟨r.1, r.2.length, r.2.map expField⟩) := by
  induction recs generalizing fuel with
  | nil =>
    cases fuel with
    | zero => simp at hfuel
    | succ fuel =>
      have : ¬ 4 ≤ pad.length := by omega
      simp [decodeTemplateSet, this]
  | cons r recs ih =>
    cases fuel with
    | zero => simp at hfuel
    | succ fuel =>
      obtain ⟨tid, fs⟩ := r
      obtain ⟨htid, hn, hfs⟩ := hwf (tid, fs) (by simp)
      simp only at htid hn hfs
      have ih' := ih fuel (fun q hq => hwf q (by simp [hq])) (by simpa using hfuel)
      simp only [List.flatMap_cons, encTemplateRec, List.append_assoc, List.map_cons]
      unfold decodeTemplateSet
      have hlen : 4 ≤ (encBE 2 tid ++ (encBE 2 fs.length ++ (List.flatMap encField fs ++
          (List.flatMap encTemplateRec recs ++ pad)))).length := by
        simp only [List.length_append, encBE_length]; omega
      simp only [hlen, if_true]
      rw [readFields2 _ _ _ htid hn]
      simp only
      rw [field_roundtrip version fs _ hfs]
      simp only
      rw [ih']

def OptsRecWF (version : Nat) (r : Nat × List SField × List SField) : Prop :=
  r.1 < 65536 ∧ 4 * r.2.1.length < 65536 ∧ 4 * r.2.2.length < 65536 ∧ r.2.1.length + r.2.2.length < 65536 ∧
  (∀ f ∈ r.2.1, FieldWF version f) ∧ (∀ f ∈ r.2.2, FieldWF version f)

/-- NetFlow v9 options template set: scope / option split by byte lengths -/
theorem optionsTemplateSet_roundtrip_v9 (recs : List (Nat × List SField × List SField)) (pad : Bytes) (fuel : Nat)
    (hwf : ∀ r ∈ recs, OptsRecWF 9 r) (hpad : pad.length < 4) (hfuel : recs.length < fuel) :
    decodeNFv9OptionsTemplateSet fuel (recs.flatMap encV9OptsRec ++ pad) =
      .ok (recs.map fun r => ⟨r.1, 4 * r.2.1.length, 4 * r.2.2.length, r.2.1.map expField, r.2.2.map expField⟩) := by
  induction recs generalizing fuel with
  | nil =>
    cases fuel with
    | zero => simp at hfuel
    | succ fuel =>
      have : ¬ 4 ≤ pad.length := by omega
      simp [decodeNFv9OptionsTemplateSet, this]
  | cons r recs ih =>
    cases fuel with
    | zero => simp at hfuel
    | succ fuel =>
      obtain ⟨tid, ss, os⟩ := r
      obtain ⟨htid, hs, ho, _, hss, hos⟩ := hwf (tid, ss, os) (by simp)
      simp only at htid hs ho hss hos
      have ih' := ih fuel (fun q hq => hwf q (by simp [hq])) (by simpa using hfuel)
      simp only [List.flatMap_cons, encV9OptsRec, List.append_assoc, List.map_cons]
      unfold decodeNFv9OptionsTemplateSet
      have hlen : 4 ≤ (encBE 2 tid ++ (encBE 2 (4 * ss.length) ++ (encBE 2 (4 * os.length) ++ (List.flatMap encField ss ++
          (List.flatMap encField os ++ (List.flatMap encV9OptsRec recs ++ pad)))))).length := by
        simp only [List.length_append, encBE_length]; omega
      simp only [hlen, if_true]
      rw [readFields3 _ _ _ _ htid hs ho]
      simp only
      have e1 : 4 * ss.length / 4 = ss.length := by omega
      have e2 : 4 * os.length / 4 = os.length := by omega
      rw [e1, e2]
      have h1 := optionField_roundtrip 9 ss (List.flatMap encField os ++ (List.flatMap encV9OptsRec recs ++ pad)) hss
      have h1' : decodeFieldsN false ss.length (List.flatMap encField ss ++ (List.flatMap encField os ++
          (List.flatMap encV9OptsRec recs ++ pad))) = .ok (ss.map expField, _) := h1
      rw [h1']
      simp only
      have h2 : decodeFieldsN false os.length (List.flatMap encField os ++ (List.flatMap encV9OptsRec recs ++ pad))
          = .ok (os.map expField, _) := optionField_roundtrip 9 os _ hos
      rw [h2]
      simp only
      rw [ih']

/-- IPFIX options template set: scope / option split by field counts -/
theorem optionsTemplateSet_roundtrip_ipfix (recs : List (Nat × List SField × List SField)) (pad : Bytes) (fuel : Nat)
    (hwf : ∀ r ∈ recs, OptsRecWF 10 r) (hpad : pad.length < 4) (hfuel : recs.length < fuel) :
    decodeIPFIXOptionsTemplateSet fuel (recs.flatMap encIPFIXOptsRec ++ pad) =
      .ok (recs.map fun r => ⟨r.1, r.2.1.length + r.2.2.length, r.2.1.length, r.2.2.map expField, r.2.1.map expField⟩) := by
  induction recs generalizing fuel with
  | nil =>
    cases fuel with
    | zero => simp at hfuel
    | succ fuel =>
      have : ¬ 4 ≤ pad.length := by omega
      simp [decodeIPFIXOptionsTemplateSet, this]
  | cons r recs ih =>
    cases fuel with
    | zero => simp at hfuel
    | succ fuel =>
      obtain ⟨tid, ss, os⟩ := r
      obtain ⟨htid, hs, ho, hso, hss, hos⟩ := hwf (tid, ss, os) (by simp)
      simp only at htid hs ho hso hss hos
      have ih' := ih fuel (fun q hq => hwf q (by simp [hq])) (by simpa using hfuel)
      simp only [List.flatMap_cons, encIPFIXOptsRec, List.append_assoc, List.map_cons]
      unfold decodeIPFIXOptionsTemplateSet
      have hlen : 4 ≤ (encBE 2 tid ++ (encBE 2 (ss.length + os.length) ++ (encBE 2 ss.length ++ (List.flatMap encField ss ++
          (List.flatMap encField os ++ (List.flatMap encIPFIXOptsRec recs ++ pad)))))).length := by
        simp only [List.length_append, encBE_length]; omega
      simp only [hlen, if_true]
      rw [readFields3 _ _ _ _ htid hso (by omega)]
      simp only
      have h1' : decodeFieldsN true ss.length (List.flatMap encField ss ++ (List.flatMap encField os ++
          (List.flatMap encIPFIXOptsRec recs ++ pad))) = .ok (ss.map expField, _) := optionField_roundtrip 10 ss _ hss
      rw [h1']
      simp only
      have hlt : ¬ ss.length + os.length < ss.length := by omega
      simp only [hlt, if_false, Nat.add_sub_cancel_left]
      have h2 : decodeFieldsN true os.length (List.flatMap encField os ++ (List.flatMap encIPFIXOptsRec recs ++ pad))
          = .ok (os.map expField, _) := optionField_roundtrip 10 os _ hos
      rw [h2]
      simp only
      rw [ih']

/-! ### data records -/

private theorem expField_length (f : SField) : (expField f).length = f.length := by
  unfold expField; cases f.ent <;> rfl

private theorem nextN_append (x rest : Bytes) : nextN x.length (x ++ rest) = (x, rest) := by
  simp [nextN]

private theorem readU1_cons (x : UInt8) (rest : Bytes) : readU 1 (x :: rest) = .ok (x.toNat, rest) := by
  have : readU 1 ([x] ++ rest) = .ok (beNat [x], rest) := readU_append [x] rest rfl
  simpa [beNat] using this

/-- one data record: every field value comes back byte for byte, in order — fixed-length fields,
    variable-length fields with the 1-byte and with the 3-byte length prefix, enterprise fields -/
theorem record_roundtrip (tpl : List SField) (vals : List SValue) (rest : Bytes) (hwf : RecordWF tpl vals) :
    decodeFieldValues (tpl.map expField) (encRecord tpl vals ++ rest) = .ok (expRecord tpl vals, rest) := by
  induction tpl generalizing vals with
  | nil => cases vals <;> simp_all [RecordWF, decodeFieldValues, encRecord, expRecord]
  | cons f fs ih =>
    cases vals with
    | nil => simp [RecordWF] at hwf
    | cons v vs =>
      obtain ⟨hv, hrest⟩ := hwf
      have ih' := ih vs hrest
      simp only [List.map_cons, encRecord, expRecord, List.append_assoc]
      unfold decodeFieldValues
      simp only [expField_length]
      unfold ValueWF at hv
      have hdf : (⟨(expField f).penProvided, (expField f).type, (expField f).pen, some v.bytes⟩ : DataField) = expDataField f v := by
        unfold expField expDataField; cases f.ent <;> rfl
      by_cases hvar : f.length = 0xffff
      · simp only [hvar, if_true] at hv ⊢
        obtain ⟨h16, hshort⟩ := hv
        unfold encValue
        simp only [hvar, if_true]
        by_cases hlong : v.long = true
        · simp only [hlong, if_true, List.append_assoc, List.singleton_append, List.cons_append]
          rw [readU1_cons]
          simp only [show (255 : UInt8).toNat = 0xff by rfl, if_true, List.nil_append]
          rw [readU_enc (n := 2) (v := v.bytes.length) _ (by simpa using h16)]
          simp only
          rw [nextN_append, ih', hdf]
        · have hl : v.long = false := by simpa using hlong
          have h255 := hshort hl
          simp only [hl, Bool.false_eq_true, if_false, List.append_assoc]
          rw [readU_enc (n := 1) (v := v.bytes.length) _ (by simp; omega)]
          have : ¬ v.bytes.length = 0xff := by omega
          simp only [this, if_false]
          rw [nextN_append, ih', hdf]
      · simp only [hvar, if_false] at hv ⊢
        unfold encValue
        simp only [hvar, if_false]
        rw [← hv, nextN_append, ih', hdf]

/-! ### data sets -/

private theorem templateSize_map_cons (f : SField) (fs : List SField) :
    templateSize ((f :: fs).map expField) = (if f.length = 0xffff then 1 else f.length) + templateSize (fs.map expField) := by
  rw [List.map_cons, templateSize_cons, expField_length]

/-- an encoded record occupies at least the template's minimal record size -/
theorem encRecord_length_ge (tpl : List SField) (vals : List SValue) (hwf : RecordWF tpl vals) :
    templateSize (tpl.map expField) ≤ (encRecord tpl vals).length := by
  induction tpl generalizing vals with
  | nil => simp [templateSize]
  | cons f fs ih =>
    cases vals with
    | nil => simp [RecordWF] at hwf
    | cons v vs =>
      obtain ⟨hv, hrest⟩ := hwf
      have := ih vs hrest
      rw [templateSize_map_cons]
      simp only [encRecord, List.length_append]
      unfold ValueWF at hv
      unfold encValue
      by_cases hvar : f.length = 0xffff
      · simp only [hvar, if_true] at hv ⊢
        by_cases hl : v.long = true <;> simp [hl] <;> omega
      · simp only [hvar, if_false] at hv ⊢
        omega

/-- DecodeDataSet: all records of the set, in order, then padding shorter than one record -/
theorem dataSet_roundtrip (tpl : List SField) (records : List (List SValue)) (pad : Bytes) (fuel : Nat)
    (hwf : ∀ r ∈ records, RecordWF tpl r) (hpos : 0 < templateSize (tpl.map expField))
    (hpad : pad.length < templateSize (tpl.map expField)) (hfuel : records.length < fuel) :
    decodeDataSet (tpl.map expField) fuel (records.flatMap (encRecord tpl) ++ pad) =
      .ok (records.map fun r => ⟨expRecord tpl r⟩) := by
  unfold decodeDataSet
  have : ¬ templateSize (tpl.map expField) = 0 := by omega
  simp only [this, if_false]
  induction records generalizing fuel with
  | nil =>
    cases fuel with
    | zero => simp at hfuel
    | succ fuel =>
      have : ¬ templateSize (tpl.map expField) ≤ pad.length := by omega
      simp [decodeDataSetLoop, this]
  | cons r rs ih =>
    cases fuel with
    | zero => simp at hfuel
    | succ fuel =>
      have hr := hwf r (by simp)
      have ih' := ih fuel (fun q hq => hwf q (by simp [hq])) (by simpa using hfuel)
      have hge := encRecord_length_ge tpl r hr
      simp only [List.flatMap_cons, List.append_assoc, List.map_cons]
      unfold decodeDataSetLoop
      have hle : templateSize (tpl.map expField) ≤ (encRecord tpl r ++ (List.flatMap (encRecord tpl) rs ++ pad)).length := by
        simp only [List.length_append]; omega
      simp only [hle, if_true, decodeDataSetUsingFields]
      rw [record_roundtrip tpl r _ hr]
      simp only
      rw [ih']

/-- DecodeOptionsDataSet: scope values and option values of every record -/
theorem optionsDataSet_roundtrip (scopes options : List SField) (records : List (List SValue × List SValue))
    (pad : Bytes) (fuel : Nat)
    (hwf : ∀ r ∈ records, RecordWF scopes r.1 ∧ RecordWF options r.2)
    (hpos : 0 < templateSize (scopes.map expField) + templateSize (options.map expField))
    (hpad : pad.length < templateSize (scopes.map expField) + templateSize (options.map expField))
    (hfuel : records.length < fuel) :
    decodeOptionsDataSet (scopes.map expField) (options.map expField) fuel
        (records.flatMap (fun r => encRecord scopes r.1 ++ encRecord options r.2) ++ pad) =
      .ok (records.map fun r => ⟨expRecord scopes r.1, expRecord options r.2⟩) := by
  unfold decodeOptionsDataSet
  have : ¬ templateSize (scopes.map expField) + templateSize (options.map expField) = 0 := by omega
  simp only [this, if_false]
  induction records generalizing fuel with
  | nil =>
    cases fuel with
    | zero => simp at hfuel
    | succ fuel =>
      have : ¬ templateSize (scopes.map expField) + templateSize (options.map expField) ≤ pad.length := by omega
      simp [decodeOptionsDataSetLoop, this]
  | cons r rs ih =>
    cases fuel with
    | zero => simp at hfuel
    | succ fuel =>
      obtain ⟨hs, ho⟩ := hwf r (by simp)
      have ih' := ih fuel (fun q hq => hwf q (by simp [hq])) (by simpa using hfuel)
      have hges := encRecord_length_ge scopes r.1 hs
      have hgeo := encRecord_length_ge options r.2 ho
      simp only [List.flatMap_cons, List.append_assoc, List.map_cons]
      unfold decodeOptionsDataSetLoop
      have hle : templateSize (scopes.map expField) + templateSize (options.map expField) ≤
          (encRecord scopes r.1 ++ (encRecord options r.2 ++ (List.flatMap (fun r => encRecord scopes r.1 ++ encRecord options r.2) rs ++ pad))).length := by
        simp only [List.length_append]; omega
      have hle1 : templateSize (scopes.map expField) ≤
          (encRecord scopes r.1 ++ (encRecord options r.2 ++ (List.flatMap (fun r => encRecord scopes r.1 ++ encRecord options r.2) rs ++ pad))).length := by
        simp only [List.length_append]; omega
      have hle2 : templateSize (options.map expField) ≤
          (encRecord options r.2 ++ (List.flatMap (fun r => encRecord scopes r.1 ++ encRecord options r.2) rs ++ pad)).length := by
        simp only [List.length_append]; omega
      simp only [hle, if_true, decodeDataSetUsingFields, hle1]
      rw [record_roundtrip scopes r.1 _ hs]
      simp only [hle2, if_true]
      rw [record_roundtrip options r.2 _ ho]
      simp only
      rw [ih']

/-! ### sets -/

/-- the store after a set has been processed: template and options-template sets announce, data sets do not -/
def setStore (version dom : Nat) (s : Store) (set : SSet) : Store := addTemplates version dom s (announces set)

/-- well-formedness of one set against the store in force when it is decoded (templates of the
    initial store or announced earlier in the message) -/
def SetWF (version dom : Nat) (s : Store) : SSet → Prop
  | .template recs pad =>
      (version = 9 ∨ version = 10) ∧ (∀ r ∈ recs, TemplateRecWF version r) ∧ pad < 4 ∧
      4 + (recs.flatMap encTemplateRec).length + pad < 65536
  | .v9opts recs pad =>
      version = 9 ∧ (∀ r ∈ recs, OptsRecWF 9 r) ∧ pad < 4 ∧ 4 + (recs.flatMap encV9OptsRec).length + pad < 65536
  | .ipfixopts recs pad =>
      version = 10 ∧ (∀ r ∈ recs, OptsRecWF 10 r) ∧ pad < 4 ∧ 4 + (recs.flatMap encIPFIXOptsRec).length + pad < 65536
  | .data tid tpl records pad =>
      256 ≤ tid ∧ tid < 65536 ∧
      s.get (templateKey version dom tid) = some (.data ⟨tid, tpl.length, tpl.map expField⟩) ∧
      (∀ r ∈ records, RecordWF tpl r) ∧ 0 < templateSize (tpl.map expField) ∧ pad < templateSize (tpl.map expField) ∧
      4 + (records.flatMap (encRecord tpl)).length + pad < 65536
  | .optsData tid scopes options records pad =>
      256 ≤ tid ∧ tid < 65536 ∧
      (s.get (templateKey version dom tid) = some (.v9opts ⟨tid, 4 * scopes.length, 4 * options.length, scopes.map expField, options.map expField⟩) ∨
       s.get (templateKey version dom tid) = some (.ipfixopts ⟨tid, scopes.length + options.length, scopes.length, options.map expField, scopes.map expField⟩)) ∧
      (∀ r ∈ records, RecordWF scopes r.1 ∧ RecordWF options r.2) ∧
      0 < templateSize (scopes.map expField) + templateSize (options.map expField) ∧
      pad < templateSize (scopes.map expField) + templateSize (options.map expField) ∧
      4 + (records.flatMap fun r => encRecord scopes r.1 ++ encRecord options r.2).length + pad < 65536

private theorem flatMap_length_ge {α} (xs : List α) (f : α → Bytes) (k : Nat) (h : ∀ x ∈ xs, k ≤ (f x).length) :
    k * xs.length ≤ (xs.flatMap f).length := by
  induction xs with
  | nil => simp
  | cons x xs ih =>
    have h1 := h x (by simp)
    have h2 := ih (fun y hy => h y (by simp [hy]))
    simp only [List.flatMap_cons, List.length_append, List.length_cons, Nat.mul_succ]
    omega

private theorem zeros_length (n : Nat) : (zeros n).length = n := by simp [zeros]

private theorem encSet_shape (id : Nat) (body : Bytes) (pad : Nat) (rest : Bytes)
    (hid : id < 65536) (hlen : 4 + body.length + pad < 65536) :
    readFields [2, 2] (encSet id body pad ++ rest) = .ok ([id, 4 + body.length + pad], body ++ zeros pad ++ rest) ∧
    nextN (4 + body.length + pad - 4) (body ++ zeros pad ++ rest) = (body ++ zeros pad, rest) := by
  constructor
  · unfold encSet
    simp only [List.append_assoc]
    exact readFields2 _ _ _ hid hlen
  · have : 4 + body.length + pad - 4 = (body ++ zeros pad).length := by simp [zeros_length]; omega
    rw [this]
    exact nextN_append _ _

/-- DecodeMessageCommonFlowSet on one encoded set, any kind: the decoded set is the expected one,
    nothing is reported missing, the store afterwards holds the announced templates, and exactly
    the bytes of the set are consumed. `fuel` only has to exceed the number of records of the set. -/
theorem flowSet_roundtrip (version dom : Nat) (s : Store) (set : SSet) (rest : Bytes) (fuel : Nat)
    (hwf : SetWF version dom s set) (hfuel : (encSSet version set).length < fuel) :
    ∃ o, decodeFlowSet fuel version dom s (encSSet version set ++ rest) = .ok o ∧
      o.flowSet = expSet version set ∧ o.tnf = false ∧ o.store = setStore version dom s set ∧ o.rest = rest := by
  cases set with
  | template recs pad =>
    obtain ⟨hv, hrecs, hpad, hlen⟩ := hwf
    have hid : (if version = 9 then 0 else 2) < 65536 := by split <;> omega
    obtain ⟨h1, h2⟩ := encSet_shape (if version = 9 then 0 else 2) (recs.flatMap encTemplateRec) pad rest hid hlen
    have hn : recs.length < fuel := by
      have := flatMap_length_ge recs encTemplateRec 4 (fun r _ => by simp only [encTemplateRec, List.length_append, encBE_length]; omega)
      simp only [encSSet, encSet, List.length_append, encBE_length] at hfuel
      omega
    have hts := templateSet_roundtrip version recs (zeros pad) fuel hrecs (by simpa [zeros_length] using hpad) hn
    unfold decodeFlowSet
    simp only [encSSet]
    rw [h1]
    have hge : ¬ 4 + (recs.flatMap encTemplateRec).length + pad < 4 := by omega
    simp only [hge, if_false]
    rw [h2]
    have hcond : ((if version = 9 then 0 else 2) = 0 ∧ version = 9 ∨ (if version = 9 then 0 else 2) = 2 ∧ version = 10) := by
      rcases hv with hv | hv <;> simp [hv]
    simp only [hcond, if_true, hts]
    refine ⟨_, rfl, ?_, rfl, ?_, rfl⟩
    · simp [expSet, setLen, encSSet, encSet, zeros_length]
      omega
    · simp [setStore, announces, List.map_map, Function.comp_def]
  | v9opts recs pad =>
    obtain ⟨hv, hrecs, hpad, hlen⟩ := hwf
    subst hv
    obtain ⟨h1, h2⟩ := encSet_shape 1 (recs.flatMap encV9OptsRec) pad rest (by decide) hlen
    have hn : recs.length < fuel := by
      have := flatMap_length_ge recs encV9OptsRec 4 (fun r _ => by simp only [encV9OptsRec, List.length_append, encBE_length]; omega)
      simp only [encSSet, encSet, List.length_append, encBE_length] at hfuel
      omega
    have hts := optionsTemplateSet_roundtrip_v9 recs (zeros pad) fuel hrecs (by simpa [zeros_length] using hpad) hn
    unfold decodeFlowSet
    simp only [encSSet]
    rw [h1]
    have hge : ¬ 4 + (recs.flatMap encV9OptsRec).length + pad < 4 := by omega
    simp only [hge, if_false]
    rw [h2]
    simp only [show ¬ ((1:Nat) = 0 ∧ (9:Nat) = 9 ∨ (1:Nat) = 2 ∧ (9:Nat) = 10) by decide, if_false,
      show ((1:Nat) = 1 ∧ (9:Nat) = 9) by decide, if_true, hts]
    refine ⟨_, rfl, ?_, rfl, ?_, rfl⟩
    · simp [expSet, setLen, encSSet, encSet, zeros_length]
      omega
    · simp [setStore, announces, List.map_map, Function.comp_def]
  | ipfixopts recs pad =>
    obtain ⟨hv, hrecs, hpad, hlen⟩ := hwf
    subst hv
    obtain ⟨h1, h2⟩ := encSet_shape 3 (recs.flatMap encIPFIXOptsRec) pad rest (by decide) hlen
    have hn : recs.length < fuel := by
      have := flatMap_length_ge recs encIPFIXOptsRec 4 (fun r _ => by simp only [encIPFIXOptsRec, List.length_append, encBE_length]; omega)
      simp only [encSSet, encSet, List.length_append, encBE_length] at hfuel
      omega
    have hts := optionsTemplateSet_roundtrip_ipfix recs (zeros pad) fuel hrecs (by simpa [zeros_length] using hpad) hn
    unfold decodeFlowSet
    simp only [encSSet]
    rw [h1]
    have hge : ¬ 4 + (recs.flatMap encIPFIXOptsRec).length + pad < 4 := by omega
    simp only [hge, if_false]
    rw [h2]
    simp only [show ¬ ((3:Nat) = 0 ∧ (10:Nat) = 9 ∨ (3:Nat) = 2 ∧ (10:Nat) = 10) by decide, if_false,
      show ¬ ((3:Nat) = 1 ∧ (10:Nat) = 9) by decide, show ((3:Nat) = 3 ∧ (10:Nat) = 10) by decide, if_true, hts]
    refine ⟨_, rfl, ?_, rfl, ?_, rfl⟩
    · simp [expSet, setLen, encSSet, encSet, zeros_length]
      omega
    · simp [setStore, announces, List.map_map, Function.comp_def]
  | data tid tpl records pad =>
    obtain ⟨hlo, hhi, hget, hrecs, hpos, hpad, hlen⟩ := hwf
    obtain ⟨h1, h2⟩ := encSet_shape tid (records.flatMap (encRecord tpl)) pad rest hhi hlen
    have hn : records.length < fuel := by
      have := flatMap_length_ge records (encRecord tpl) 1 (fun r hr => by
        have := encRecord_length_ge tpl r (hrecs r hr); omega)
      simp only [encSSet, encSet, List.length_append, encBE_length] at hfuel
      omega
    have hts := dataSet_roundtrip tpl records (zeros pad) fuel hrecs hpos (by simpa [zeros_length] using hpad) hn
    unfold decodeFlowSet
    simp only [encSSet]
    rw [h1]
    have hge : ¬ 4 + (records.flatMap (encRecord tpl)).length + pad < 4 := by omega
    simp only [hge, if_false]
    rw [h2]
    have c1 : ¬ (tid = 0 ∧ version = 9 ∨ tid = 2 ∧ version = 10) := by omega
    have c2 : ¬ (tid = 1 ∧ version = 9) := by omega
    have c3 : ¬ (tid = 3 ∧ version = 10) := by omega
    simp only [c1, c2, c3, if_false, ge_iff_le, hlo, if_true, hget, hts]
    refine ⟨_, rfl, ?_, rfl, ?_, rfl⟩
    · simp [expSet, setLen, encSSet, encSet, zeros_length]
      omega
    · simp [setStore, announces, addTemplates]
  | optsData tid scopes options records pad =>
    obtain ⟨hlo, hhi, hget, hrecs, hpos, hpad, hlen⟩ := hwf
    obtain ⟨h1, h2⟩ := encSet_shape tid (records.flatMap fun r => encRecord scopes r.1 ++ encRecord options r.2) pad rest hhi hlen
    have hn : records.length < fuel := by
      have := flatMap_length_ge records (fun r => encRecord scopes r.1 ++ encRecord options r.2) 1 (fun r hr => by
        have a := encRecord_length_ge scopes r.1 (hrecs r hr).1
        have b := encRecord_length_ge options r.2 (hrecs r hr).2
        simp only [List.length_append]; omega)
      simp only [encSSet, encSet, List.length_append, encBE_length] at hfuel
      omega
    have hts := optionsDataSet_roundtrip scopes options records (zeros pad) fuel hrecs hpos (by simpa [zeros_length] using hpad) hn
    unfold decodeFlowSet
    simp only [encSSet]
    rw [h1]
    have hge : ¬ 4 + (records.flatMap fun r => encRecord scopes r.1 ++ encRecord options r.2).length + pad < 4 := by omega
    simp only [hge, if_false]
    rw [h2]
    have c1 : ¬ (tid = 0 ∧ version = 9 ∨ tid = 2 ∧ version = 10) := by omega
    have c2 : ¬ (tid = 1 ∧ version = 9) := by omega
    have c3 : ¬ (tid = 3 ∧ version = 10) := by omega
    rcases hget with hget | hget
    · simp only [c1, c2, c3, if_false, ge_iff_le, hlo, if_true, hget, hts]
      refine ⟨_, rfl, ?_, rfl, ?_, rfl⟩
      · simp [expSet, setLen, encSSet, encSet, zeros_length]
        omega
      · simp [setStore, announces, addTemplates]
    · simp only [c1, c2, c3, if_false, ge_iff_le, hlo, if_true, hget, hts]
      refine ⟨_, rfl, ?_, rfl, ?_, rfl⟩
      · simp [expSet, setLen, encSSet, encSet, zeros_length]
        omega
      · simp [setStore, announces, addTemplates]

/-! ### messages -/

def SetsWF (version dom : Nat) : Store → List SSet → Prop
  | _, [] => True
  | s, set :: rest => SetWF version dom s set ∧ SetsWF version dom (setStore version dom s set) rest

/-- the store after a whole message -/
def storeAfter (version dom : Nat) (s : Store) (sets : List SSet) : Store := sets.foldl (setStore version dom) s

private theorem encSSet_length_ge (version : Nat) (set : SSet) : 4 ≤ (encSSet version set).length := by
  cases set <;> simp only [encSSet, encSet, List.length_append, encBE_length] <;> omega

/-- DecodeMessageCommon on the concatenation of the encoded sets: several sets per message, the
    templates announced by one set are in force for the next ones -/
theorem messageCommon_roundtrip (version dom size startLen : Nat) (sets : List SSet) (s : Store) (i fuel : Nat)
    (hwf : SetsWF version dom s sets) (hfuel : sets.length < fuel)
    (h9 : version = 9 → i + sets.length ≤ size)
    (h10 : version = 10 → (sets.flatMap (encSSet version)).length ≤ startLen ∧ startLen ≤ size ∧ startLen < 65536)
    (hv : version = 9 ∨ version = 10) :
    decodeSets version dom size startLen fuel i s (sets.flatMap (encSSet version)) =
      ⟨sets.map (expSet version), false, storeAfter version dom s sets, none⟩ := by
  induction sets generalizing s i fuel with
  | nil =>
    cases fuel with
    | zero => simp at hfuel
    | succ fuel => simp [decodeSets, storeAfter]
  | cons set rest ih =>
    cases fuel with
    | zero => simp at hfuel
    | succ fuel =>
      obtain ⟨hset, hrest⟩ := hwf
      simp only [List.flatMap_cons, List.map_cons]
      unfold decodeSets
      have hlen4 := encSSet_length_ge version set
      have hpos : 0 < (encSSet version set ++ List.flatMap (encSSet version) rest).length := by
        simp only [List.length_append]; omega
      have hcond : ((i < size ∧ version = 9) ∨ ((startLen - (encSSet version set ++ List.flatMap (encSSet version) rest).length) % 65536 < size ∧ version = 10)) := by
        rcases hv with hv | hv
        · left
          have := h9 hv
          simp only [List.length_cons] at this
          exact ⟨by omega, hv⟩
        · right
          obtain ⟨a, b, c⟩ := h10 hv
          simp only [List.flatMap_cons] at a
          refine ⟨?_, hv⟩
          have : (startLen - (encSSet version set ++ List.flatMap (encSSet version) rest).length) < 65536 := by omega
          rw [Nat.mod_eq_of_lt this]
          omega
      simp only [hcond, hpos, and_self, if_true]
      obtain ⟨o, ho, hfs, htnf, hst, hr⟩ := flowSet_roundtrip version dom s set (List.flatMap (encSSet version) rest)
        ((encSSet version set ++ List.flatMap (encSSet version) rest).length + 2) hset
        (by simp only [List.length_append]; omega)
      rw [ho]
      simp only
      rw [hr, hst]
      have := ih (setStore version dom s set) (i + 1) fuel hrest (by simpa using hfuel)
        (fun hv => by have := h9 hv; simp only [List.length_cons] at this; omega)
        (fun hv => by
          obtain ⟨a, b, c⟩ := h10 hv
          simp only [List.flatMap_cons, List.length_append] at a
          exact ⟨by omega, b, c⟩)
      rw [this]
      simp [hfs, htnf, storeAfter]

/-- well-formed abstract message against an initial template store -/
def MsgWF (s : Store) (m : Msg) : Prop :=
  (m.version = 9 ∨ m.version = 10) ∧ m.count < 65536 ∧ m.uptime < 2 ^ 32 ∧ m.time < 2 ^ 32 ∧ m.seq < 2 ^ 32 ∧
  m.domain < 2 ^ 32 ∧ SetsWF m.version m.domain s m.sets ∧
  (m.version = 9 → m.sets.length ≤ m.count) ∧
  (m.version = 10 → 16 + (m.sets.flatMap (encSSet m.version)).length < 65536)

/-- **C03** — decode (encode M) = M: header fields, the sequence of sets, every template and
    options-template record, every data and options-data record with every field value, and the
    template store afterwards; nothing is reported missing and no error is raised. -/
theorem roundtrip (s : Store) (m : Msg) (hwf : MsgWF s m) :
    decodeMessageVersion s (encode m) =
      ⟨expected m, false, storeAfter m.version m.domain s m.sets, none⟩ := by
  obtain ⟨hv, hc, hu, ht, hs, hd, hsets, h9, h10⟩ := hwf
  have hn : m.sets.length < (m.sets.flatMap (encSSet m.version)).length + 2 := by
    have := flatMap_length_ge m.sets (encSSet m.version) 4 (fun x _ => encSSet_length_ge m.version x)
    omega
  rcases hv with hv | hv
  · -- NetFlow v9
    unfold decodeMessageVersion encode
    simp only [hv, if_true, List.append_assoc]
    rw [readU_enc _ (by decide)]
    simp only [if_true, decodeMessageNetFlow]
    have hf : Fits [2, 4, 4, 4, 4] [m.count, m.uptime, m.time, m.seq, m.domain] := by
      simp only [Fits, Nat.reducePow, and_true] at *; omega
    have := readFields_enc [2, 4, 4, 4, 4] [m.count, m.uptime, m.time, m.seq, m.domain] (m.sets.flatMap (encSSet 9)) hf
    simp only [encFields, List.append_nil, List.append_assoc] at this
    rw [this]
    simp only
    have hmc := messageCommon_roundtrip 9 m.domain m.count (m.sets.flatMap (encSSet 9)).length m.sets s 0
      ((m.sets.flatMap (encSSet 9)).length + 2) (hv ▸ hsets) (hv ▸ hn) (fun _ => by have := h9 hv; omega)
      (fun h => by cases h) (Or.inl rfl)
    rw [hmc]
    simp [expected, hv]
  · -- IPFIX
    have hlen := h10 hv
    unfold decodeMessageVersion encode
    have hne : ¬ m.version = 9 := by omega
    simp only [hne, if_false, List.append_assoc]
    rw [readU_enc _ (by decide)]
    simp only [show ¬ ((10:Nat) = 9) by decide, if_false, if_true, decodeMessageIPFIX]
    rw [hv] at hlen ⊢
    have hf : Fits [2, 4, 4, 4] [16 + (m.sets.flatMap (encSSet 10)).length, m.time, m.seq, m.domain] := by
      simp only [Fits, Nat.reducePow, and_true] at *; omega
    have := readFields_enc [2, 4, 4, 4] [16 + (m.sets.flatMap (encSSet 10)).length, m.time, m.seq, m.domain] (m.sets.flatMap (encSSet 10)) hf
    simp only [encFields, List.append_nil, List.append_assoc] at this
    rw [this]
    simp only
    have hsize : (16 + (m.sets.flatMap (encSSet 10)).length + 65536 - 16) % 65536 = (m.sets.flatMap (encSSet 10)).length := by omega
    rw [hsize]
    have hmc := messageCommon_roundtrip 10 m.domain (m.sets.flatMap (encSSet 10)).length (m.sets.flatMap (encSSet 10)).length m.sets s 0
      ((m.sets.flatMap (encSSet 10)).length + 2) (hv ▸ hsets) (hv ▸ hn) (fun h => by cases h)
      (fun _ => ⟨Nat.le_refl _, Nat.le_refl _, by omega⟩) (Or.inr rfl)
    rw [hmc]
    simp [expected, hv]

/-! ### non-vacuity: a concrete message with every kind of set meets the hypotheses -/

def RecordWF.dec : (fs : List SField) → (vs : List SValue) → Decidable (RecordWF fs vs)
  | [], [] => isTrue trivial
  | f :: fs, v :: vs =>
    match RecordWF.dec fs vs with
    | isTrue h => if hv : ValueWF f v then isTrue ⟨hv, h⟩ else isFalse (fun h' => hv h'.1)
    | isFalse h => isFalse (fun h' => h h'.2)
  | [], _ :: _ => isFalse (fun h => h)
  | _ :: _, [] => isFalse (fun h => h)
instance (fs : List SField) (vs : List SValue) : Decidable (RecordWF fs vs) := RecordWF.dec fs vs
instance (v : Nat) (r : Nat × List SField) : Decidable (TemplateRecWF v r) := by unfold TemplateRecWF; infer_instance
instance (v : Nat) (r : Nat × List SField × List SField) : Decidable (OptsRecWF v r) := by unfold OptsRecWF; infer_instance
instance (v d : Nat) (s : Store) (set : SSet) : Decidable (SetWF v d s set) := by
  cases set <;> unfold SetWF <;> infer_instance
def SetsWF.dec (v d : Nat) : (s : Store) → (sets : List SSet) → Decidable (SetsWF v d s sets)
  | _, [] => isTrue trivial
  | s, set :: rest =>
    match SetsWF.dec v d (setStore v d s set) rest with
    | isTrue h => if hs : SetWF v d s set then isTrue ⟨hs, h⟩ else isFalse (fun h' => hs h'.1)
    | isFalse h => isFalse (fun h' => h h'.2)
instance (v d : Nat) (s : Store) (sets : List SSet) : Decidable (SetsWF v d s sets) := SetsWF.dec v d s sets
instance (s : Store) (m : Msg) : Decidable (MsgWF s m) := by unfold MsgWF; infer_instance

def sampleIPFIX : Msg := ⟨10, 0, 0, 1700000000, 42, 7, [
  .template [(256, [⟨8, 4, none⟩, ⟨1, 0xffff, none⟩, ⟨5, 2, some 9⟩])] 0,
  .ipfixopts [(257, [⟨1, 4, none⟩], [⟨34, 4, none⟩])] 2,
  .data 256 [⟨8, 4, none⟩, ⟨1, 0xffff, none⟩, ⟨5, 2, some 9⟩]
     [[⟨[10, 0, 0, 1], false⟩, ⟨[1, 2, 3], false⟩, ⟨[0, 7], false⟩], [⟨[10, 0, 0, 2], false⟩, ⟨[], true⟩, ⟨[0, 8], false⟩]] 3,
  .optsData 257 [⟨1, 4, none⟩] [⟨34, 4, none⟩] [([⟨[0, 0, 0, 1], false⟩], [⟨[0, 0, 0, 100], false⟩])] 0]⟩

def sampleV9 : Msg := ⟨9, 3, 1000, 1700000000, 1, 2, [
  .template [(300, [⟨8, 4, none⟩, ⟨7, 2, none⟩])] 0,
  .v9opts [(301, [⟨1, 4, none⟩], [⟨34, 4, none⟩, ⟨50, 4, none⟩])] 2,
  .data 300 [⟨8, 4, none⟩, ⟨7, 2, none⟩] [[⟨[10, 0, 0, 1], false⟩, ⟨[0, 80], false⟩]] 2]⟩

example : MsgWF [] sampleIPFIX ∧ MsgWF [] sampleV9 := by decide +kernel

end Goflow.C03
