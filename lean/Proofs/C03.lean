import Goflow.Spec.Netflow
