import Goflow.Generated.JsonTags
/-!
  C03 / C04 / C05 — the member names of the raw producer's JSON.

  The differential run checks on every decoded datagram that the JSON printed by `producer/raw` + `encoding/json` says what
  the decoded packet holds, *given* the member names of the struct tags (harness `rawFaithful`, and `Goflow.Raw.rawJsonV5`
  for NetFlow v5). The names themselves — the interface a consumer of `-produce raw` parses — are pinned here against the
  tags regenerated from the source on every run, together with the set of `MarshalJSON` / `MarshalText` methods (and their
  receiver kinds: `*MacAddress` has a pointer receiver, so a MAC inside a record held by an interface value is printed in
  base64 — an observation, not changed).
-/
namespace Goflow.RawJson
open Goflow.Generated

set_option maxRecDepth 100000 in
theorem raw_json_member_names :
    jsonTags = [
  ("netflow.DataField", [("PenProvided", "pen-provided"), ("Type", "type"), ("Pen", "pen"), ("Value", "value")]),
  ("netflow.DataFlowSet", [("<FlowSetHeader>", ""), ("Records", "records")]),
  ("netflow.DataRecord", [("Values", "values")]),
  ("netflow.Field", [("PenProvided", "pen-provided"), ("Type", "type"), ("Length", "length"), ("Pen", "pen")]),
  ("netflow.FlowSetHeader", [("Id", "id"), ("Length", "length")]),
  ("netflow.IPFIXOptionsTemplateFlowSet", [("<FlowSetHeader>", ""), ("Records", "records")]),
  ("netflow.IPFIXOptionsTemplateRecord", [("TemplateId", "template-id"), ("FieldCount", "field-count"), ("ScopeFieldCount", "scope-field-count"), ("Options", "options"), ("Scopes", "scopes")]),
  ("netflow.IPFIXPacket", [("Version", "version"), ("Length", "length"), ("ExportTime", "export-time"), ("SequenceNumber", "sequence-number"), ("ObservationDomainId", "observation-domain-id"), ("FlowSets", "flow-sets")]),
  ("netflow.NFv9OptionsTemplateFlowSet", [("<FlowSetHeader>", ""), ("Records", "records")]),
  ("netflow.NFv9OptionsTemplateRecord", [("TemplateId", "template-id"), ("ScopeLength", "scope-length"), ("OptionLength", "option-length"), ("Scopes", "scopes"), ("Options", "options")]),
  ("netflow.NFv9Packet", [("Version", "version"), ("Count", "count"), ("SystemUptime", "system-uptime"), ("UnixSeconds", "unix-seconds"), ("SequenceNumber", "sequence-number"), ("SourceId", "source-id"), ("FlowSets", "flow-sets")]),
  ("netflow.OptionsDataFlowSet", [("<FlowSetHeader>", ""), ("Records", "records")]),
  ("netflow.OptionsDataRecord", [("ScopesValues", "scope-values"), ("OptionsValues", "option-values")]),
  ("netflow.RawFlowSet", [("<FlowSetHeader>", ""), ("Records", "records")]),
  ("netflow.TemplateFlowSet", [("<FlowSetHeader>", ""), ("Records", "records")]),
  ("netflow.TemplateRecord", [("TemplateId", "template-id"), ("FieldCount", "field-count"), ("Fields", "fields")]),
  ("netflowlegacy.PacketNetFlowV5", [("Version", "version"), ("Count", "count"), ("SysUptime", "sys-uptime"), ("UnixSecs", "unix-secs"), ("UnixNSecs", "unix-nsecs"), ("FlowSequence", "flow-sequence"), ("EngineType", "engine-type"), ("EngineId", "engine-id"), ("SamplingInterval", "sampling-interval"), ("Records", "records")]),
  ("netflowlegacy.RecordsNetFlowV5", [("SrcAddr", "src-addr"), ("DstAddr", "dst-addr"), ("NextHop", "next-hop"), ("Input", "input"), ("Output", "output"), ("DPkts", "dpkts"), ("DOctets", "doctets"), ("First", "first"), ("Last", "last"), ("SrcPort", "src-port"), ("DstPort", "dst-port"), ("Pad1", "pad1"), ("TCPFlags", "tcp-flags"), ("Proto", "proto"), ("Tos", "tos"), ("SrcAS", "src-as"), ("DstAS", "dst-as"), ("SrcMask", "src-mask"), ("DstMask", "dst-mask"), ("Pad2", "pad2")]),
  ("rawproducer.RawMessage", [("Message", "message"), ("Src", "src"), ("TimeReceived", "time_received")]),
  ("rawproducer.RawProducer", []),
  ("sflow.CounterRecord", [("Header", "header"), ("Data", "data")]),
  ("sflow.CounterSample", [("Header", "header"), ("CounterRecordsCount", "counter-records-count"), ("Records", "records")]),
  ("sflow.DropSample", [("Header", "header"), ("Drops", "drops"), ("Input", "input"), ("Output", "output"), ("Reason", "reason"), ("FlowRecordsCount", "flow-records-count"), ("Records", "records")]),
  ("sflow.EgressQueue", [("Queue", "queue")]),
  ("sflow.EthernetCounters", [("Dot3StatsAlignmentErrors", "dot3-stats-aligment-errors"), ("Dot3StatsFCSErrors", "dot3-stats-fcse-errors"), ("Dot3StatsSingleCollisionFrames", "dot3-stats-single-collision-frames"), ("Dot3StatsMultipleCollisionFrames", "dot3-stats-multiple-collision-frames"), ("Dot3StatsSQETestErrors", "dot3-stats-seq-test-errors"), ("Dot3StatsDeferredTransmissions", "dot3-stats-deferred-transmissions"), ("Dot3StatsLateCollisions", "dot3-stats-late-collisions"), ("Dot3StatsExcessiveCollisions", "dot3-stats-excessive-collisions"), ("Dot3StatsInternalMacTransmitErrors", "dot3-stats-internal-mac-transmit-errors"), ("Dot3StatsCarrierSenseErrors", "dot3-stats-carrier-sense-errors"), ("Dot3StatsFrameTooLongs", "dot3-stats-frame-too-longs"), ("Dot3StatsInternalMacReceiveErrors", "dot3-stats-internal-mac-receive-errors"), ("Dot3StatsSymbolErrors", "dot3-stats-symbol-errors")]),
  ("sflow.ExpandedFlowSample", [("Header", "header"), ("SamplingRate", "sampling-rate"), ("SamplePool", "sample-pool"), ("Drops", "drops"), ("InputIfFormat", "input-if-format"), ("InputIfValue", "input-if-value"), ("OutputIfFormat", "output-if-format"), ("OutputIfValue", "output-if-value"), ("FlowRecordsCount", "flow-records-count"), ("Records", "records")]),
  ("sflow.ExtendedACL", [("Number", "number"), ("Name", "name"), ("Direction", "direction")]),
  ("sflow.ExtendedFunction", [("Symbol", "symbol")]),
  ("sflow.ExtendedGateway", [("NextHopIPVersion", "next-hop-ip-version"), ("NextHop", "next-hop"), ("AS", "as"), ("SrcAS", "src-as"), ("SrcPeerAS", "src-peer-as"), ("ASDestinations", "as-destinations"), ("ASPathType", "as-path-type"), ("ASPathLength", "as-path-length"), ("ASPath", "as-path"), ("CommunitiesLength", "communities-length"), ("Communities", "communities"), ("LocalPref", "local-pref")]),
  ("sflow.ExtendedRouter", [("NextHopIPVersion", "next-hop-ip-version"), ("NextHop", "next-hop"), ("SrcMaskLen", "src-mask-len"), ("DstMaskLen", "dst-mask-len")]),
  ("sflow.ExtendedSwitch", [("SrcVlan", "src-vlan"), ("SrcPriority", "src-priority"), ("DstVlan", "dst-vlan"), ("DstPriority", "dst-priority")]),
  ("sflow.FlowRecord", [("Header", "header"), ("Data", "data")]),
  ("sflow.FlowSample", [("Header", "header"), ("SamplingRate", "sampling-rate"), ("SamplePool", "sample-pool"), ("Drops", "drops"), ("Input", "input"), ("Output", "output"), ("FlowRecordsCount", "flow-records-count"), ("Records", "records")]),
  ("sflow.IfCounters", [("IfIndex", "if-index"), ("IfType", "if-type"), ("IfSpeed", "if-speed"), ("IfDirection", "if-direction"), ("IfStatus", "if-status"), ("IfInOctets", "if-in-octets"), ("IfInUcastPkts", "if-in-ucast-pkts"), ("IfInMulticastPkts", "if-in-multicast-pkts"), ("IfInBroadcastPkts", "if-in-broadcast-pkts"), ("IfInDiscards", "if-in-discards"), ("IfInErrors", "if-in-errors"), ("IfInUnknownProtos", "if-in-unknown-protos"), ("IfOutOctets", "if-out-octets"), ("IfOutUcastPkts", "if-out-ucast-pkts"), ("IfOutMulticastPkts", "if-out-multicast-pkts"), ("IfOutBroadcastPkts", "if-out-broadcast-pkts"), ("IfOutDiscards", "if-out-discards"), ("IfOutErrors", "if-out-errors"), ("IfPromiscuousMode", "if-promiscuous-mode")]),
  ("sflow.Packet", [("Version", "version"), ("IPVersion", "ip-version"), ("AgentIP", "agent-ip"), ("SubAgentId", "sub-agent-id"), ("SequenceNumber", "sequence-number"), ("Uptime", "uptime"), ("SamplesCount", "samples-count"), ("Samples", "samples")]),
  ("sflow.RawRecord", [("Data", "data")]),
  ("sflow.RecordHeader", [("DataFormat", "data-format"), ("Length", "length")]),
  ("sflow.SampleHeader", [("Format", "format"), ("Length", "length"), ("SampleSequenceNumber", "sample-sequence-number"), ("SourceIdType", "source-id-type"), ("SourceIdValue", "source-id-value")]),
  ("sflow.SampledEthernet", [("Length", "length"), ("SrcMac", "src-mac"), ("DstMac", "dst-mac"), ("EthType", "eth-type")]),
  ("sflow.SampledHeader", [("Protocol", "protocol"), ("FrameLength", "frame-length"), ("Stripped", "stripped"), ("OriginalLength", "original-length"), ("HeaderData", "header-data")]),
  ("sflow.SampledIPBase", [("Length", "length"), ("Protocol", "protocol"), ("SrcIP", "src-ip"), ("DstIP", "dst-ip"), ("SrcPort", "src-port"), ("DstPort", "dst-port"), ("TcpFlags", "tcp-flags")]),
  ("sflow.SampledIPv4", [("<SampledIPBase>", ""), ("Tos", "tos")]),
  ("sflow.SampledIPv6", [("<SampledIPBase>", ""), ("Priority", "priority")])
] := by
  decide +kernel

theorem raw_json_marshalers :
    marshalMethods = [
  ("decoders/netflow", "*IPFIXPacket", "MarshalJSON"),
  ("decoders/netflow", "*IPFIXPacket", "MarshalText"),
  ("decoders/netflow", "*NFv9Packet", "MarshalJSON"),
  ("decoders/netflow", "*NFv9Packet", "MarshalText"),
  ("decoders/netflowlegacy", "*IPAddress", "MarshalJSON"),
  ("decoders/netflowlegacy", "*PacketNetFlowV5", "MarshalJSON"),
  ("decoders/netflowlegacy", "*PacketNetFlowV5", "MarshalText"),
  ("decoders/sflow", "*Packet", "MarshalJSON"),
  ("decoders/sflow", "*Packet", "MarshalText"),
  ("decoders/utils", "*MacAddress", "MarshalJSON"),
  ("decoders/utils", "IPAddress", "MarshalJSON"),
  ("producer/raw", "RawMessage", "MarshalJSON"),
  ("producer/raw", "RawMessage", "MarshalText")
] := by
  decide +kernel

end Goflow.RawJson
