import Proofs.C14Bits
/-!
  C14 — bit-range extraction (reflect.go GetBytes), the general case: for EVERY buffer, bit offset,
  bit length and mode the implementation's shifting/masking equals the bit-list reference
  (`getBytes_eq_extract`).
-/
namespace Goflow.C14
open Goflow Goflow.Producer Goflow.Spec.Bits

/-! ### single-byte facts (finite: 256 × 8 cases each) -/

theorem byteBits_shl8_fin : ∀ x : Fin 256, ∀ s : Fin 8,
    byteBits (shl8 (UInt8.ofNat x.val) s.val) =
      (byteBits (UInt8.ofNat x.val)).drop s.val ++ List.replicate s.val false := by
  decide +kernel

theorem byteBits_shr8_fin : ∀ x : Fin 256, ∀ s : Fin 8,
    byteBits (shr8 (UInt8.ofNat x.val) (8 - s.val)) =
      List.replicate (8 - s.val) false ++ (byteBits (UInt8.ofNat x.val)).take s.val := by
  decide +kernel

theorem last_shift_fin : ∀ x : Fin 256, ∀ k : Fin 8,
    UInt8.ofNat (bitsVal ((byteBits (UInt8.ofNat x.val)).take (8 - k.val))) =
      shr8 (UInt8.ofNat x.val) k.val := by
  decide +kernel

theorem last_mask_fin : ∀ x : Fin 256, ∀ k : Fin 8,
    UInt8.ofNat (bitsVal ((byteBits (UInt8.ofNat x.val)).take (8 - k.val)) * 2 ^ k.val) =
      (UInt8.ofNat x.val) &&& shl8 0xFF k.val := by
  decide +kernel

theorem ofNat_toNat8 (x : UInt8) : UInt8.ofNat (x.toNat) = x := by simp

theorem byteBits_shl8 (x : UInt8) (s : Nat) (hs : s < 8) :
    byteBits (shl8 x s) = (byteBits x).drop s ++ List.replicate s false := by
  have := byteBits_shl8_fin ⟨x.toNat, UInt8.toNat_lt x⟩ ⟨s, hs⟩
  simpa only [ofNat_toNat8] using this

theorem byteBits_shr8 (x : UInt8) (s : Nat) (hs : s < 8) :
    byteBits (shr8 x (8 - s)) = List.replicate (8 - s) false ++ (byteBits x).take s := by
  have := byteBits_shr8_fin ⟨x.toNat, UInt8.toNat_lt x⟩ ⟨s, hs⟩
  simpa only [ofNat_toNat8] using this

theorem last_shift (x : UInt8) (k : Nat) (hk : k < 8) :
    UInt8.ofNat (bitsVal ((byteBits x).take (8 - k))) = shr8 x k := by
  have := last_shift_fin ⟨x.toNat, UInt8.toNat_lt x⟩ ⟨k, hk⟩
  simpa only [ofNat_toNat8] using this

theorem last_mask (x : UInt8) (k : Nat) (hk : k < 8) :
    UInt8.ofNat (bitsVal ((byteBits x).take (8 - k)) * 2 ^ k) = x &&& shl8 0xFF k := by
  have := last_mask_fin ⟨x.toNat, UInt8.toNat_lt x⟩ ⟨k, hk⟩
  simpa only [ofNat_toNat8] using this

/-- bits of a bitwise or -/
theorem byteBits_or (a b : UInt8) :
    byteBits (a ||| b) = List.zipWith (· || ·) (byteBits a) (byteBits b) := by
  unfold byteBits
  rw [List.zipWith_map, List.zipWith_self]
  apply List.map_congr_left
  intro i _
  simp only [UInt8.toNat_or, ← Nat.testBit_eq_decide_div_mod_eq, Nat.testBit_or]

theorem zipWith_or_replicate_right (A : List Bool) (n : Nat) (h : A.length = n) :
    List.zipWith (· || ·) A (List.replicate n false) = A := by
  induction A generalizing n with
  | nil => simp
  | cons a A ih =>
    cases n with
    | zero => simp at h
    | succ n => simp [List.replicate_succ, ih n (by simpa using h)]

theorem zipWith_or_replicate_left (A : List Bool) (n : Nat) (h : A.length = n) :
    List.zipWith (· || ·) (List.replicate n false) A = A := by
  induction A generalizing n with
  | nil => simp
  | cons a A ih =>
    cases n with
    | zero => simp at h
    | succ n => simp [List.replicate_succ, ih n (by simpa using h)]

/-- the two-byte step of the shifting pass, in bits -/
theorem byteBits_shl_or_shr (x y : UInt8) (s : Nat) (hs : s < 8) :
    byteBits (shl8 x s ||| shr8 y (8 - s)) = (byteBits x).drop s ++ (byteBits y).take s := by
  rw [byteBits_or, byteBits_shl8 x s hs, byteBits_shr8 y s hs]
  have l1 : ((byteBits x).drop s).length = 8 - s := by simp [byteBits_length]
  have l2 : ((byteBits y).take s).length = s := by simp [byteBits_length]; omega
  rw [List.zipWith_append (by simp [l1])]
  rw [zipWith_or_replicate_right _ _ l1, zipWith_or_replicate_left _ _ l2]

/-! ### zero-padded prefixes of bit lists -/

/-- the first `k` bits of `l`, reading zeros past its end -/
def pad (k : Nat) (l : List Bool) : List Bool := l.take k ++ List.replicate (k - l.length) false

theorem pad_length (k : Nat) (l : List Bool) : (pad k l).length = k := by
  simp [pad, List.length_take]; omega

theorem pad_nil (k : Nat) : pad k [] = List.replicate k false := by simp [pad]

theorem pad_append_left (k : Nat) (A C : List Bool) (h : A.length ≤ k) :
    pad k (A ++ C) = A ++ pad (k - A.length) C := by
  unfold pad
  rw [List.take_append, List.take_of_length_le h, List.append_assoc, List.length_append]
  congr 2
  congr 1
  omega

theorem take_pad (j k : Nat) (l : List Bool) (h : j ≤ k) : (pad k l).take j = pad j l := by
  unfold pad
  rw [List.take_append, List.take_take, Nat.min_eq_left h, List.take_replicate, List.length_take]
  congr 2
  omega

theorem pad_take (j k : Nat) (l : List Bool) (h : k ≤ j) : pad k (l.take j) = pad k l := by
  unfold pad
  rw [List.take_take, Nat.min_eq_left h, List.length_take]
  by_cases hl : l.length ≤ j
  · rw [Nat.min_eq_right hl]
  · have e1 : k - min j l.length = 0 := by omega
    have e2 : k - l.length = 0 := by omega
    rw [e1, e2]

/-! ### the shifting pass, in bits -/

theorem toBits_shiftPass (s : Nat) (hs : s < 8) (n : Nat) (u : Bytes) :
    toBits (shiftPass s n u) = pad (8 * n) ((toBits u).drop s) := by
  induction n generalizing u with
  | zero => simp [shiftPass, pad, toBits]
  | succ n ih =>
    match u with
    | [] =>
      simp only [shiftPass]
      rw [toBits_zeros]
      simp [toBits, pad_nil]
    | [x] =>
      simp only [shiftPass]
      rw [toBits_cons, toBits_zeros, byteBits_shl8 x s hs, toBits_cons]
      have hnil : toBits [] = [] := rfl
      rw [hnil, List.append_nil]
      have := pad_append_left (8 * (n + 1)) ((byteBits x).drop s) [] (by simp [byteBits_length]; omega)
      rw [List.append_nil] at this
      rw [this, pad_nil, List.append_assoc, List.replicate_append_replicate]
      congr 2
      simp [byteBits_length]; omega
    | x :: y :: rest =>
      simp only [shiftPass]
      rw [toBits_cons, ih (y :: rest), byteBits_shl_or_shr x y s hs, toBits_cons x, toBits_cons y]
      have lx : (byteBits x).length = 8 := byteBits_length x
      have ly : (byteBits y).length = 8 := byteBits_length y
      rw [List.drop_append_of_le_length (by omega : s ≤ (byteBits x).length)]
      have e : byteBits y ++ toBits rest =
          (byteBits y).take s ++ (byteBits y ++ toBits rest).drop s := by
        rw [List.drop_append_of_le_length (by omega : s ≤ (byteBits y).length), ← List.append_assoc,
          List.take_append_drop]
      conv => rhs; rw [e, ← List.append_assoc]
      rw [pad_append_left _ _ _ (by simp [lx, ly]; omega)]
      congr 2
      simp [lx, ly]; omega

/-! ### regrouping -/

theorem groups_toBits_append (b : Bytes) (g : List Bool) (hg : g ≠ []) (fuel : Nat)
    (h : b.length + 1 < fuel) : groups fuel (toBits b ++ g) = b.map byteBits ++ [g.take 8] ++ groups (fuel - b.length - 1) (g.drop 8) := by
  induction b generalizing fuel with
  | nil =>
    cases fuel with
    | zero => simp at h
    | succ n =>
      have hnil : toBits [] = [] := rfl
      rw [hnil, List.nil_append]
      cases g with
      | nil => exact absurd rfl hg
      | cons a g => simp [groups]
  | cons x xs ih =>
    cases fuel with
    | zero => simp at h
    | succ n =>
      rw [toBits_cons, List.append_assoc]
      have hne : byteBits x ++ (toBits xs ++ g) ≠ [] := by
        intro e; have := congrArg List.length e; simp [byteBits_length] at this
      have e : groups (n + 1) (byteBits x ++ (toBits xs ++ g)) =
          (byteBits x ++ (toBits xs ++ g)).take 8 :: groups n ((byteBits x ++ (toBits xs ++ g)).drop 8) := by
        cases hb : byteBits x ++ (toBits xs ++ g) with
        | nil => exact absurd hb hne
        | cons _ _ => rfl
      rw [e]
      have l8 : (byteBits x).length = 8 := byteBits_length x
      rw [show (8 : Nat) = (byteBits x).length from l8.symm, List.take_left, List.drop_left]
      rw [l8, ih n (by simp at h; omega)]
      have : n + 1 - (x :: xs).length - 1 = n - xs.length - 1 := by simp
      rw [this]
      simp

theorem groups_nil (fuel : Nat) : groups fuel [] = [] := by cases fuel <;> rfl

theorem setLast_append (init : Bytes) (x : UInt8) (f : UInt8 → UInt8) :
    setLast (init ++ [x]) f = init ++ [f x] := by
  simp [setLast]

theorem exists_init_last (l : Bytes) (h : 0 < l.length) : ∃ init x, l = init ++ [x] := by
  have hne : l ≠ [] := by intro e; rw [e] at h; simp at h
  exact ⟨l.dropLast, l.getLast hne, (List.dropLast_concat_getLast hne).symm⟩

/-! ### the unaligned path -/

/-- the reference, given the bits of the shifted buffer: regroup the first `len` bits -/
theorem map_groups_eq_setLast (dFinal : Bytes) (len k : Nat) (shift : Bool) (hk : k < 8)
    (hlen : len + k = 8 * dFinal.length) (hpos : 0 < dFinal.length) :
    ((groups (len + 1) ((toBits dFinal).take len)).map fun g =>
      if g.length = 8 ∨ shift then UInt8.ofNat (bitsVal g)
      else UInt8.ofNat (bitsVal g * 2 ^ (8 - g.length))) =
    (if shift then setLast dFinal fun x => shr8 x k
     else setLast dFinal fun x => x &&& shl8 0xFF k) := by
  obtain ⟨init, x, rfl⟩ := exists_init_last dFinal hpos
  have hl : len = 8 * init.length + (8 - k) := by simp at hlen; omega
  have lx : (byteBits x).length = 8 := byteBits_length x
  have e1 : (toBits (init ++ [x])).take len = toBits init ++ (byteBits x).take (8 - k) := by
    rw [toBits_append, toBits_cons]
    have hnil : toBits [] = [] := rfl
    rw [hnil, List.append_nil, List.take_append, toBits_length,
      List.take_of_length_le (by rw [toBits_length]; omega)]
    congr 2
    omega
  have lg : ((byteBits x).take (8 - k)).length = 8 - k := by simp [lx]
  have hg : (byteBits x).take (8 - k) ≠ [] := by
    intro e; rw [e] at lg; simp at lg; omega
  rw [e1, groups_toBits_append init _ hg _ (by omega)]
  rw [List.take_of_length_le (by omega), List.drop_of_length_le (by omega), groups_nil]
  simp only [List.append_nil, List.map_append, List.map_map, List.map_cons, List.map_nil]
  have hinit : init.map ((fun g => if g.length = 8 ∨ shift = true then UInt8.ofNat (bitsVal g)
      else UInt8.ofNat (bitsVal g * 2 ^ (8 - g.length))) ∘ byteBits) = init := by
    conv => rhs; rw [← List.map_id init]
    apply List.map_congr_left
    intro c _
    simp [byteBits_length, bitsVal_byteBits]
  rw [hinit]
  cases shift with
  | true =>
    simp only [or_true, if_true]
    rw [setLast_append, last_shift x k hk]
  | false =>
    simp only [Bool.false_eq_true, or_false, if_false]
    rw [setLast_append, lg]
    have e8 : 8 - (8 - k) = k := by omega
    rw [e8, ← last_mask x k hk]
    by_cases h0 : 8 - k = 8
    · have : k = 0 := by omega
      simp [this]
    · simp [h0]

/-- the bits GetBytes works on (`dUsed`, dropped by the sub-byte offset) against the bits the
    reference works on: the same zero-padded prefix -/
theorem pad_dUsed (d : Bytes) (off len e : Nat)
    (he : e = d.length ∨ off + len ≤ 8 * e) :
    pad len ((toBits ((d.take e).drop (off / 8))).drop (off % 8)) = pad len ((toBits d).drop off) := by
  rw [← toBits_drop, ← toBits_take, List.drop_drop]
  have : 8 * (off / 8) + off % 8 = off := by omega
  rw [this]
  cases he with
  | inl h =>
    rw [h, List.take_of_length_le (by rw [toBits_length]; omega)]
  | inr h =>
    rw [List.drop_take, pad_take _ _ _ (by omega)]

/-- C14: GetBytes equals the bit-list reference — for every buffer, every bit offset, every bit
    length and both alignment modes -/
theorem getBytes_eq_extract (d : Bytes) (off len : Nat) (shift : Bool) :
    getBytes d (off : Int) (len : Int) shift = .ok ((extract d off len shift).getD []) := by
  by_cases h1 : d.length * 8 < off
  · have h1' : (d.length : Int) * 8 < (off : Int) := by omega
    simp [getBytes, extract, h1, h1']
  by_cases h2 : len = 0
  · simp [getBytes, extract, h2]
  by_cases ha : off % 8 = 0 ∧ len % 8 = 0
  · have eo : off = 8 * (off / 8) := by omega
    have el : len = 8 * (len / 8) := by omega
    rw [eo, el]
    exact getBytes_eq_extract_aligned d (off / 8) (len / 8) shift (by omega) (by omega)
  -- the shifting path
  have h1' : ¬ ((d.length : Int) * 8 < (off : Int)) := by omega
  have h2' : ¬ ((len : Int) = 0) := by omega
  have h3 : ¬ ((len : Int) < 0 ∨ (off : Int) ≤ -8) := by omega
  have h4 : ¬ ((off : Int) < 0) := by omega
  unfold getBytes
  simp only [h1', h2', h3, h4, if_false, Int.toNat_natCast, ha]
  unfold extract
  have c1 : ¬ (d.length * 8 < off ∨ len = 0) := by omega
  simp only [c1, if_false, Option.getD_some]
  generalize hn : len / 8 + (if len % 8 > 0 then 1 else 0) = n
  generalize he0 : (off + len) / 8 + (if (off + len) % 8 > 0 then 1 else 0) = end0
  generalize he : (if end0 > d.length then d.length else end0) = e
  generalize hk : (8 - len % 8) % 8 = k
  have hs : off % 8 < 8 := Nat.mod_lt _ (by omega)
  have hk8 : k < 8 := by omega
  have hnk : len + k = 8 * n := by
    rw [← hn, ← hk]; split <;> omega
  have hee : e = d.length ∨ off + len ≤ 8 * e := by
    rw [← he]
    split
    · exact Or.inl rfl
    · right; rw [← he0]; split <;> omega
  -- the reference's selection is the first `len` bits of the shifted buffer
  have hsel : ((toBits d).drop off).take len ++
        List.replicate (len - (((toBits d).drop off).take len).length) false =
      (toBits (shiftPass (off % 8) n ((d.take e).drop (off / 8)))).take len := by
    rw [toBits_shiftPass _ hs, take_pad _ _ _ (by omega), pad_dUsed d off len e hee]
    unfold pad
    congr 2
    rw [List.length_take]; omega
  rw [hsel]
  have := map_groups_eq_setLast (shiftPass (off % 8) n ((d.take e).drop (off / 8))) len k shift hk8
    (by rw [shiftPass_length]; exact hnk) (by rw [shiftPass_length]; omega)
  rw [this]
  cases shift <;> simp

end Goflow.C14
