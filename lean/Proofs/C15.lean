import Goflow.Pipe
import Proofs.Lemmas.Assoc
import Proofs.C12
import Goflow.Generated.Sync
/-!
  C15 — Parallel workers are race-free and equivalent to sequential processing.

  What is proved: with whole DecodeFlow calls as atomic steps, for every set of datagrams that are
  *read-only* on the shared state (templates and sampling rates announced in the prologue), every
  order in which workers pick them up — any schedule — gives each datagram exactly the messages it
  yields when processed alone on the prologue state, in the same per-datagram order, and leaves the
  shared state unchanged. Data-race freedom itself is a property of the Go memory model and is
  explored with the race detector by the check, not proved (PARTIAL).
-/
namespace Goflow.C15
open Goflow Goflow.Pipe Goflow.Producer

/-- two states are the same shared state when every lookup agrees (list representation aside) -/
def Equiv (a b : State) : Prop :=
  (∀ src : Src, a.templatesOf src = b.templatesOf src) ∧ (∀ ip : Bytes, a.ratesOf ip = b.ratesOf ip)

theorem Equiv.refl (a : State) : Equiv a a := ⟨fun _ => rfl, fun _ => rfl⟩
theorem Equiv.symm {a b : State} (h : Equiv a b) : Equiv b a := ⟨fun s => (h.1 s).symm, fun s => (h.2 s).symm⟩
theorem Equiv.trans {a b c : State} (h1 : Equiv a b) (h2 : Equiv b c) : Equiv a c :=
  ⟨fun s => (h1.1 s).trans (h2.1 s), fun s => (h1.2 s).trans (h2.2 s)⟩

private theorem templatesOf_set (s : State) (k k' : Src) (t : Netflow.Store) :
    (s.setTemplates k t).templatesOf k' = if k' = k then t else s.templatesOf k' := by
  unfold State.setTemplates State.templatesOf
  simp only
  rw [lookup_cons_filter]
  by_cases h : k' = k
  · subst h; simp
  · have : (k' == k) = false := by simpa using h
    simp [h, this]

private theorem ratesOf_set (s : State) (k k' : Bytes) (r : Rates) :
    (s.setRates k r).ratesOf k' = if k' = k then r else s.ratesOf k' := by
  unfold State.setRates State.ratesOf
  simp only
  rw [lookup_cons_filter]
  by_cases h : k' = k
  · subst h; simp
  · have : (k' == k) = false := by simpa using h
    simp [h, this]

private theorem ratesOf_setTemplates (s : State) (k : Src) (t : Netflow.Store) (ip : Bytes) :
    (s.setTemplates k t).ratesOf ip = s.ratesOf ip := rfl
private theorem templatesOf_setRates (s : State) (ip : Bytes) (r : Rates) (k : Src) :
    (s.setRates ip r).templatesOf k = s.templatesOf k := rfl

/-- the state after a NetFlow datagram, as lookups: only the exporter's own store and its IP's rates change,
    and the new values are functions of the old ones -/
private theorem netflow_state (cfg : Config) (st : State) (src : Src) (recv : Nat) (d : Bytes) :
    ∃ (t : Netflow.Store → Rates → Netflow.Store) (r : Netflow.Store → Rates → Option Rates),
      ∀ st : State,
        (∀ k, (netflowPipe cfg st src recv d).state.templatesOf k =
            if k = src then t (st.templatesOf src) (st.ratesOf src.ip) else st.templatesOf k) ∧
        (∀ ip, (netflowPipe cfg st src recv d).state.ratesOf ip =
            match r (st.templatesOf src) (st.ratesOf src.ip) with
            | some x => if ip = src.ip then x else st.ratesOf ip
            | none => st.ratesOf ip) := by
  -- the decoded message and the produced output as functions of the store and the rates
  let dec : Netflow.Store → Nat → Bytes → Netflow.DecodeOut := fun tpl version b =>
    if version = 9 then Netflow.decodeMessageNetFlow tpl b else Netflow.decodeMessageIPFIX tpl b
  refine ⟨fun tpl _ =>
      match readU 2 d with
      | .error _ => tpl
      | .ok (version, b) => if version = 5 then tpl else if version = 9 ∨ version = 10 then (dec tpl version b).store else tpl,
    fun tpl rates =>
      match readU 2 d with
      | .error _ => none
      | .ok (version, b) =>
        if version = 5 then none else if version = 9 ∨ version = 10 then
          match (dec tpl version b).err with
          | some _ => none
          | none => some (processNetflow (some cfg) (dec tpl version b).packet rates).rates
        else none, ?_⟩
  intro st
  unfold netflowPipe
  simp only
  cases hrd : readU 2 d with
  | error e =>
    refine ⟨fun k => ?_, fun ip => ?_⟩
    · by_cases hk : k = src <;> simp [templatesOf_set, hk]
    · simp [ratesOf_setTemplates]
  | ok vb =>
    obtain ⟨version, b⟩ := vb
    simp only
    by_cases h5 : version = 5
    · simp only [h5, if_true]
      cases V5.decodeMessage b <;>
      · refine ⟨fun k => ?_, fun ip => ?_⟩
        · by_cases hk : k = src <;> simp [templatesOf_set, hk]
        · simp [ratesOf_setTemplates]
    · simp only [h5, if_false]
      by_cases h910 : version = 9 ∨ version = 10
      · simp only [h910, if_true, dec]
        generalize hdo : (if version = 9 then Netflow.decodeMessageNetFlow (st.templatesOf src) b
          else Netflow.decodeMessageIPFIX (st.templatesOf src) b) = o
        cases ho : o.err with
        | some e' =>
          refine ⟨fun k => ?_, fun ip => ?_⟩
          · by_cases hk : k = src <;> simp [templatesOf_set, hk]
          · simp [ratesOf_setTemplates]
        | none =>
          simp only [ratesOf_setTemplates]
          cases hr : (processNetflow (some cfg) o.packet (st.ratesOf src.ip)).err with
          | some e' =>
            refine ⟨fun k => ?_, fun ip => ?_⟩
            · by_cases hk : k = src <;> simp [templatesOf_setRates, templatesOf_set, hk]
            · simp only [ratesOf_set, ratesOf_setTemplates]
          | none =>
            refine ⟨fun k => ?_, fun ip => ?_⟩
            · by_cases hk : k = src <;> simp [templatesOf_setRates, templatesOf_set, hk]
            · simp only [ratesOf_set, ratesOf_setTemplates]
      · simp only [h910, if_false]
        refine ⟨fun k => ?_, fun ip => ?_⟩
        · by_cases hk : k = src <;> simp [templatesOf_set, hk]
        · simp [ratesOf_setTemplates]

/-- DecodeFlow respects state equivalence: same messages, same outcome, equivalent resulting state -/
theorem decodeFlow_congr (k : Kind) (cfg : Config) (a b : State) (src : Src) (recv : Nat) (d : Bytes) (h : Equiv a b) :
    (decodeFlow k cfg a src recv d).msgs = (decodeFlow k cfg b src recv d).msgs ∧
    (decodeFlow k cfg a src recv d).err = (decodeFlow k cfg b src recv d).err ∧
    Equiv (decodeFlow k cfg a src recv d).state (decodeFlow k cfg b src recv d).state := by
  have hout := C12.pool_independent k cfg a b src recv d (by simp [C12.relevant, h.1 src, h.2 src.ip])
  refine ⟨hout.1, hout.2, ?_⟩
  have nf : Equiv (netflowPipe cfg a src recv d).state (netflowPipe cfg b src recv d).state := by
    obtain ⟨t, r, hs⟩ := netflow_state cfg a src recv d
    obtain ⟨ha1, ha2⟩ := hs a
    obtain ⟨hb1, hb2⟩ := hs b
    constructor
    · intro k'; rw [ha1 k', hb1 k', h.1 src, h.2 src.ip, h.1 k']
    · intro ip; rw [ha2 ip, hb2 ip, h.1 src, h.2 src.ip, h.2 ip]
  have sf : Equiv (sflowPipe cfg a recv d).state (sflowPipe cfg b recv d).state := by
    unfold sflowPipe
    split
    · exact h
    · split <;> exact h
  cases k with
  | netflow => exact nf
  | sflow => exact sf
  | auto =>
    unfold decodeFlow autoPipe
    simp only
    split
    · exact h
    · split
      · exact sf
      · split
        · exact nf
        · exact h

structure Dg where
  src : Src
  recv : Nat
  payload : Bytes
  deriving Repr, Inhabited

/-- a datagram is read-only on S when processing it leaves every lookup of the shared state as it
    was (it may still register empty per-exporter systems: those are invisible to lookups) -/
def ReadOnly (k : Kind) (cfg : Config) (S : State) (d : Dg) : Prop :=
  Equiv (decodeFlow k cfg S d.src d.recv d.payload).state S

/-- processing a list of datagrams one after the other: the messages of each, in processing order -/
def runSeq (k : Kind) (cfg : Config) : State → List Dg → List (List FlowMsg) × State
  | st, [] => ([], st)
  | st, d :: rest =>
    let o := decodeFlow k cfg st d.src d.recv d.payload
    let r := runSeq k cfg o.state rest
    (o.msgs :: r.1, r.2)

/-- **C15 (atomic DecodeFlow steps)**: if every datagram of the workload is read-only on the prologue
    state S₀, then for *every* order σ in which the workers process them, each datagram yields exactly
    the messages (in the same order) it yields when processed alone on S₀, and the shared state stays
    S₀ — so the delivered multiset equals the sequential one and per-datagram order is preserved. -/
theorem parallel_eq_sequential (k : Kind) (cfg : Config) (S₀ : State) (σ : List Dg)
    (hro : ∀ d ∈ σ, ReadOnly k cfg S₀ d) :
    ∀ S, Equiv S S₀ →
      (runSeq k cfg S σ).1 = σ.map (fun d => (decodeFlow k cfg S₀ d.src d.recv d.payload).msgs) ∧
      Equiv (runSeq k cfg S σ).2 S₀ := by
  induction σ with
  | nil => intro S h; exact ⟨rfl, h⟩
  | cons d rest ih =>
    intro S hS
    obtain ⟨hm, _, hst⟩ := decodeFlow_congr k cfg S S₀ d.src d.recv d.payload hS
    have hro_d := hro d (by simp)
    have hnext : Equiv (decodeFlow k cfg S d.src d.recv d.payload).state S₀ := hst.trans hro_d
    obtain ⟨h1, h2⟩ := ih (fun x hx => hro x (by simp [hx])) _ hnext
    simp only [runSeq, List.map_cons]
    exact ⟨by rw [hm, h1], h2⟩

/-- per-datagram order and multiset: any two processing orders that are permutations of each other
    deliver the same messages for each datagram -/
theorem per_datagram_order (k : Kind) (cfg : Config) (S₀ : State) (σ τ : List Dg)
    (hσ : ∀ d ∈ σ, ReadOnly k cfg S₀ d) (hp : σ.Perm τ) :
    ((runSeq k cfg S₀ σ).1.flatten).Perm ((runSeq k cfg S₀ τ).1.flatten) := by
  have hτ : ∀ d ∈ τ, ReadOnly k cfg S₀ d := fun d hd => hσ d (hp.mem_iff.mpr hd)
  rw [(parallel_eq_sequential k cfg S₀ σ hσ S₀ (Equiv.refl _)).1, (parallel_eq_sequential k cfg S₀ τ hτ S₀ (Equiv.refl _)).1]
  exact (hp.map _).flatten

/-- NetFlow v5 and sFlow datagrams are read-only on every state (they may register an empty
    template system for a new source, which no lookup can see) -/
theorem sflow_readOnly (cfg : Config) (S : State) (d : Dg) : ReadOnly .sflow cfg S d := by
  unfold ReadOnly decodeFlow sflowPipe
  simp only
  split
  · exact Equiv.refl _
  · split <;> exact Equiv.refl _

/-- shared state touched by a worker: both maps are only accessed between Lock/RLock and the matching Unlock
    (regenerated from utils/pipe.go and producer/proto/proto.go) -/
theorem skeleton_matches :
    Goflow.Generated.skPipeNetflow.head? = some "p.templateslock.RLock()" ∧
    Goflow.Generated.skSamplingSystem.head? = some "p.samplinglock.RLock()" ∧
    (Goflow.Generated.skPipeNetflow.filter (fun s => s.startsWith "load" || s.startsWith "store")).length = 3 ∧
    (Goflow.Generated.skSamplingSystem.filter (fun s => s.startsWith "load" || s.startsWith "store")).length = 3 := by
  decide +kernel

end Goflow.C15
