package main

// The raw producer's JSON (`-produce raw -format json`) as the second observation point of the wire-decoding properties:
// the decoded packet is handed to producer/raw and printed by encoding/json; rawFaithful walks the decoded value and the
// JSON text in parallel and reports the first place where the text does not say what the value holds (member names from
// the struct tags, numbers in decimal, byte strings in base64, addresses through their marshalers, nil slices as null,
// no member more or less). The message is then marshalled by several goroutines at once: every copy must be the same text.

import (
	"bytes"
	"encoding/base64"
	"encoding/json"
	"fmt"
	"net"
	"net/netip"
	"reflect"
	"strconv"
	"strings"
	"sync"
	"time"
	"unicode/utf8"

	decutils "github.com/netsampler/goflow2/v2/decoders/utils"
	"github.com/netsampler/goflow2/v2/producer"
	rawproducer "github.com/netsampler/goflow2/v2/producer/raw"
)

var (
	macType = reflect.TypeOf(decutils.MacAddress{})
	ipType  = reflect.TypeOf(decutils.IPAddress{})
)

func jsonString(s string) string {
	// what encoding/json writes for a Go string, read back: invalid UTF-8 bytes become U+FFFD one by one
	var b strings.Builder
	for i := 0; i < len(s); {
		r, size := utf8.DecodeRuneInString(s[i:])
		if r == utf8.RuneError && size == 1 {
			b.WriteString("�")
		} else {
			b.WriteString(s[i : i+size])
		}
		i += size
	}
	return b.String()
}

func isNull(raw json.RawMessage) bool { return string(bytes.TrimSpace(raw)) == "null" }

func rawCompare(v reflect.Value, raw json.RawMessage, path string) string {
	if !v.IsValid() {
		if isNull(raw) {
			return ""
		}
		return path + ": null expected"
	}
	t := v.Type()
	switch t {
	case macType:
		var s string
		if json.Unmarshal(raw, &s) != nil {
			return path + ": a string expected"
		}
		b := v.Bytes()
		if len(b) == 0 {
			if s == "" {
				return ""
			}
			return path + ": empty hardware address expected, got " + s
		}
		// MarshalJSON of MacAddress has a pointer receiver: a record held in an interface value is not addressable, so
		// encoding/json prints the bytes in base64 there (an observation, DESIGN 0.6) — both forms say what the value holds
		if raw64, err := base64.StdEncoding.DecodeString(s); err == nil && bytes.Equal(raw64, b) {
			return ""
		}
		hw, err := net.ParseMAC(s)
		if err != nil || !bytes.Equal(hw, b) {
			return fmt.Sprintf("%s: hardware address %x printed as %q", path, b, s)
		}
		return ""
	case ipType:
		var s string
		if json.Unmarshal(raw, &s) != nil {
			return path + ": a string expected"
		}
		b := v.Bytes()
		if len(b) != 4 && len(b) != 16 {
			if s == "invalid IP" {
				return ""
			}
			return fmt.Sprintf("%s: address of %d bytes printed as %q", path, len(b), s)
		}
		a, err := netip.ParseAddr(s)
		if err != nil {
			return fmt.Sprintf("%s: address %x printed as %q", path, b, s)
		}
		want, _ := netip.AddrFromSlice(b)
		if a != want {
			return fmt.Sprintf("%s: address %x printed as %q", path, b, s)
		}
		return ""
	}
	switch v.Kind() {
	case reflect.Interface, reflect.Ptr:
		if v.IsNil() {
			if isNull(raw) {
				return ""
			}
			return path + ": null expected"
		}
		return rawCompare(v.Elem(), raw, path)
	case reflect.Struct:
		var obj map[string]json.RawMessage
		if err := json.Unmarshal(raw, &obj); err != nil || obj == nil {
			return path + ": an object expected"
		}
		seen := 0
		var walk func(v reflect.Value) string
		walk = func(v reflect.Value) string {
			t := v.Type()
			for i := 0; i < t.NumField(); i++ {
				f := t.Field(i)
				if f.PkgPath != "" && !f.Anonymous {
					continue
				}
				tag := f.Tag.Get("json")
				name, opts, _ := strings.Cut(tag, ",")
				if name == "-" && opts == "" {
					continue
				}
				if f.Anonymous && name == "" && f.Type.Kind() == reflect.Struct {
					if r := walk(v.Field(i)); r != "" {
						return r
					}
					continue
				}
				if name == "" {
					name = f.Name
				}
				m, ok := obj[name]
				if !ok {
					if strings.Contains(opts, "omitempty") && v.Field(i).IsZero() {
						continue
					}
					return path + "." + name + ": member missing"
				}
				seen++
				if r := rawCompare(v.Field(i), m, path+"."+name); r != "" {
					return r
				}
			}
			return ""
		}
		if r := walk(v); r != "" {
			return r
		}
		if seen != len(obj) {
			return fmt.Sprintf("%s: %d members printed, %d fields", path, len(obj), seen)
		}
		return ""
	case reflect.Slice, reflect.Array:
		if v.Kind() == reflect.Slice && v.IsNil() {
			if isNull(raw) {
				return ""
			}
			return path + ": null expected for a nil slice"
		}
		if t.Elem().Kind() == reflect.Uint8 && v.Kind() == reflect.Slice {
			var s string
			if json.Unmarshal(raw, &s) != nil {
				return path + ": a base64 string expected"
			}
			b, err := base64.StdEncoding.DecodeString(s)
			if err != nil || !bytes.Equal(b, v.Bytes()) {
				return fmt.Sprintf("%s: bytes %x printed as %q", path, v.Bytes(), s)
			}
			return ""
		}
		var arr []json.RawMessage
		if err := json.Unmarshal(raw, &arr); err != nil || arr == nil {
			return path + ": an array expected"
		}
		if len(arr) != v.Len() {
			return fmt.Sprintf("%s: %d elements printed, %d present", path, len(arr), v.Len())
		}
		for i := 0; i < v.Len(); i++ {
			if r := rawCompare(v.Index(i), arr[i], fmt.Sprintf("%s[%d]", path, i)); r != "" {
				return r
			}
		}
		return ""
	case reflect.Uint8, reflect.Uint16, reflect.Uint32, reflect.Uint64, reflect.Uint:
		if string(bytes.TrimSpace(raw)) != strconv.FormatUint(v.Uint(), 10) {
			return fmt.Sprintf("%s: %d printed as %s", path, v.Uint(), raw)
		}
		return ""
	case reflect.Int8, reflect.Int16, reflect.Int32, reflect.Int64, reflect.Int:
		if string(bytes.TrimSpace(raw)) != strconv.FormatInt(v.Int(), 10) {
			return fmt.Sprintf("%s: %d printed as %s", path, v.Int(), raw)
		}
		return ""
	case reflect.Bool:
		if string(bytes.TrimSpace(raw)) != strconv.FormatBool(v.Bool()) {
			return fmt.Sprintf("%s: %v printed as %s", path, v.Bool(), raw)
		}
		return ""
	case reflect.String:
		var s string
		if json.Unmarshal(raw, &s) != nil || s != jsonString(v.String()) {
			return fmt.Sprintf("%s: string %q printed as %s", path, v.String(), raw)
		}
		return ""
	}
	return fmt.Sprintf("%s: kind %s not handled", path, v.Kind())
}

// rawFaithful: pkt is a pointer to a decoded packet; typ the type name RawMessage must print
func rawFaithful(pkt interface{}, typ string) []string {
	pargs := &producer.ProduceArgs{Src: netip.MustParseAddrPort("10.0.0.1:2055"), TimeReceived: time.Unix(1700000000, 0).UTC()}
	rp := &rawproducer.RawProducer{}
	msgs, err := rp.Produce(pkt, pargs)
	if err != nil || len(msgs) != 1 {
		return []string{fmt.Sprintf("rawjson producer: %v, %d messages", err, len(msgs))}
	}
	seq, err := json.Marshal(msgs[0])
	if err != nil {
		return []string{"rawjson marshal: " + strings.ReplaceAll(err.Error(), "\n", " ")}
	}
	var top map[string]json.RawMessage
	if err := json.Unmarshal(seq, &top); err != nil {
		return []string{"rawjson not an object"}
	}
	var gotTyp string
	json.Unmarshal(top["type"], &gotTyp)
	if gotTyp != typ || len(top) != 4 {
		return []string{fmt.Sprintf("rawjson type %q, %d members", gotTyp, len(top))}
	}
	if string(top["src"]) != `"10.0.0.1:2055"` || string(top["time_received"]) != `"2023-11-14T22:13:20Z"` {
		return []string{fmt.Sprintf("rawjson src %s time %s", top["src"], top["time_received"])}
	}
	out := []string{"rawjson ok"}
	if r := rawCompare(reflect.ValueOf(pkt), top["message"], "message"); r != "" {
		out = []string{"rawjson " + r}
	}
	var wg sync.WaitGroup
	var mu sync.Mutex
	differs := 0
	for g := 0; g < 4; g++ {
		wg.Add(1)
		go func() {
			defer wg.Done()
			for k := 0; k < 10; k++ {
				b, err := json.Marshal(msgs[0])
				if err != nil || !bytes.Equal(b, seq) {
					mu.Lock()
					differs++
					mu.Unlock()
				}
			}
		}()
	}
	wg.Wait()
	if differs > 0 {
		out = append(out, fmt.Sprintf("concurrent-differs %d", differs))
	}
	return out
}
