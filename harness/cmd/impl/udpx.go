package main

import (
	"encoding/binary"
	"errors"
	"fmt"
	"hash/crc32"
	"net"
	"os"
	"runtime"
	"strconv"
	"strings"
	"sync"
	"sync/atomic"
	"time"

	"github.com/netsampler/goflow2/v2/utils"
	"github.com/netsampler/goflow2/v2/utils/debug"
)

func init() {
	ops["udp"] = opUDP
	ops["updown"] = opUpDown
	ops["drain"] = opDrain
	ops["startbusy"] = opStartBusy
}

// self-describing datagram: id(4) len(4) crc32(4) payload
func mkDatagram(id uint32, size int) []byte {
	if size < 12 {
		size = 12
	}
	b := make([]byte, size)
	binary.BigEndian.PutUint32(b[0:], id)
	binary.BigEndian.PutUint32(b[4:], uint32(size))
	for i := 12; i < size; i++ {
		b[i] = byte(id*31 + uint32(i)*7)
	}
	binary.BigEndian.PutUint32(b[8:], crc32.ChecksumIEEE(b[12:]))
	return b
}

func checkDatagram(b []byte) (uint32, bool) {
	if len(b) < 12 {
		return 0, false
	}
	id := binary.BigEndian.Uint32(b[0:])
	if int(binary.BigEndian.Uint32(b[4:])) != len(b) {
		return id, false
	}
	return id, binary.BigEndian.Uint32(b[8:]) == crc32.ChecksumIEEE(b[12:])
}

func freeUDPPort() int {
	a, _ := net.ResolveUDPAddr("udp", "127.0.0.1:0")
	l, err := net.ListenUDP("udp", a)
	if err != nil {
		return 0
	}
	defer l.Close()
	return l.LocalAddr().(*net.UDPAddr).Port
}

type dropCB struct {
	mu      sync.Mutex
	dropped map[uint32]int
	corrupt int
	// the callback keeps the message for this long (as a callback that logs or counts per source does) and reads it again
	hold time.Duration
	// destination port every message must carry (0: not checked)
	wantPort int32
}

func (d *dropCB) Dropped(m utils.Message) {
	id, ok := checkDatagram(m.Payload)
	if d.hold > 0 {
		time.Sleep(d.hold)
	}
	// the message handed to the callback must still be this datagram at the end of the call
	id2, ok2 := checkDatagram(m.Payload)
	d.mu.Lock()
	d.dropped[id]++
	if !ok || !ok2 || id != id2 {
		d.corrupt++
	}
	if wp := atomic.LoadInt32(&d.wantPort); wp != 0 && int32(m.Dst.Port()) != wp {
		d.corrupt++
	}
	d.mu.Unlock()
}

type udpRun struct {
	reads   int64
	mu      sync.Mutex
	decoded map[uint32]int
	corrupt int
	gate    chan struct{}
	cb      *dropCB
	// behaviour "error": source address of each datagram as the decoder saw it, and what the error consumer read later
	srcOf  map[uint32]string
	errSrc int
	// destination port the messages of the current session must carry (0: not checked)
	wantPort int32
}

func (u *udpRun) decoder(behaviour string) utils.DecoderFunc {
	f := func(msg interface{}) error {
		m := msg.(*utils.Message)
		id, ok := checkDatagram(m.Payload)
		switch behaviour {
		case "slow":
			time.Sleep(300 * time.Microsecond)
		case "gated":
			<-u.gate
		}
		// the buffer must still hold this datagram at the end of the call
		id2, ok2 := checkDatagram(m.Payload)
		u.mu.Lock()
		u.decoded[id]++
		if !ok || !ok2 || id != id2 {
			u.corrupt++
		}
		// … and it is addressed to the port this session listens on
		if wp := atomic.LoadInt32(&u.wantPort); wp != 0 && int32(m.Dst.Port()) != wp {
			u.corrupt++
		}
		u.mu.Unlock()
		switch behaviour {
		case "error":
			// as the pipes do: the error carries the message it is about; the consumer of Errors() reads it later
			u.mu.Lock()
			if u.srcOf == nil {
				u.srcOf = map[uint32]string{}
			}
			u.srcOf[id] = m.Src.String()
			u.mu.Unlock()
			return &utils.PipeMessageError{Message: m, Err: fmt.Errorf("decoder error id=%d", id)}
		case "panic":
			panic("decoder panic")
		}
		return nil
	}
	if behaviour == "panic" {
		return debug.PanicDecoderWrapper(f)
	}
	return f
}

func sendBurst(port int, ids []uint32, sources int, pace time.Duration) {
	conns := make([]net.Conn, sources)
	for i := range conns {
		c, err := net.Dial("udp", fmt.Sprintf("127.0.0.1:%d", port))
		if err != nil {
			return
		}
		conns[i] = c
		defer c.Close()
	}
	sizes := []int{12, 13, 100, 512, 1400, 1472, 4000, 8999, 9000, 64}
	for k, id := range ids {
		conns[k%sources].Write(mkDatagram(id, sizes[int(id)%len(sizes)]))
		if k%23 == 22 {
			// an empty UDP datagram now and then (legal on the wire): the receiver skips it, nothing else changes
			conns[k%sources].Write([]byte{})
		}
		if pace > 0 && k%16 == 15 {
			time.Sleep(pace)
		}
	}
}

// udp <sockets> <workers> <queue> <blocking> <behaviour> <n>
func opUDP(st *state, args []string) []string {
	if len(args) != 6 {
		return []string{"bad-op"}
	}
	sockets, _ := strconv.Atoi(args[0])
	workers, _ := strconv.Atoi(args[1])
	queue, _ := strconv.Atoi(args[2])
	blocking := args[3] == "1"
	behaviour := args[4]
	n, _ := strconv.Atoi(args[5])
	u := &udpRun{decoded: map[uint32]int{}, gate: make(chan struct{}), cb: &dropCB{dropped: map[uint32]int{}}}
	utils.VerifEvent = func(name string, sz int) {
		if name == "udp.read" && sz > 0 { // empty datagrams are read and skipped: nothing to decode or drop
			atomic.AddInt64(&u.reads, 1)
		}
	}
	defer func() { utils.VerifEvent = nil }()
	base := runtime.NumGoroutine()
	r, err := utils.NewUDPReceiver(&utils.UDPReceiverConfig{Sockets: sockets, Workers: workers, QueueSize: queue, Blocking: blocking, ReceiverCallback: u.cb})
	if err != nil {
		return []string{resErr(err)}
	}
	port := freeUDPPort()
	atomic.StoreInt32(&u.wantPort, int32(port))
	atomic.StoreInt32(&u.cb.wantPort, int32(port))
	if behaviour == "gated1" {
		// one P, and a drop callback that keeps its message for a moment: a buffer given back to the pool before the
		// callback is over is handed to the next read of another socket on the same P
		behaviour = "gated"
		u.cb.hold = 200 * time.Microsecond
		defer runtime.GOMAXPROCS(runtime.GOMAXPROCS(1))
	}
	if err := r.Start("127.0.0.1", port, u.decoder(behaviour)); err != nil {
		return []string{resErr(err)}
	}
	go func() { // the consumer of the error channel, as main.go: it reads the message an error is about, a little later
		for e := range r.Errors() {
			var pe *utils.PipeMessageError
			if errors.As(e, &pe) && pe.Message != nil {
				var id uint32
				if _, err := fmt.Sscanf(pe.Err.Error(), "decoder error id=%d", &id); err == nil {
					time.Sleep(50 * time.Microsecond)
					got := pe.Message.Src.String()
					u.mu.Lock()
					if want, ok := u.srcOf[id]; ok && want != got {
						u.errSrc++
					}
					u.mu.Unlock()
				}
			}
		}
	}()
	ids := make([]uint32, n)
	for i := range ids {
		ids[i] = uint32(i + 1)
	}
	if behaviour == "gated" {
		// release the gate a little later, while the burst is still arriving
		go func() { time.Sleep(20 * time.Millisecond); close(u.gate) }()
	}
	sendBurst(port, ids, 3, 200*time.Microsecond)
	// quiescence: reads == decoded + dropped and stable
	deadline := time.Now().Add(8 * time.Second)
	var reads int64
	var dec, drp int
	for {
		time.Sleep(30 * time.Millisecond)
		reads = atomic.LoadInt64(&u.reads)
		u.mu.Lock()
		dec = 0
		for _, c := range u.decoded {
			dec += c
		}
		u.mu.Unlock()
		u.cb.mu.Lock()
		drp = 0
		for _, c := range u.cb.dropped {
			drp += c
		}
		u.cb.mu.Unlock()
		if int(reads) == dec+drp {
			time.Sleep(30 * time.Millisecond)
			if atomic.LoadInt64(&u.reads) == reads {
				break
			}
		}
		if time.Now().After(deadline) {
			break
		}
	}
	stopDone := make(chan error, 1)
	go func() { stopDone <- r.Stop() }()
	stopRes := "ok"
	select {
	case e := <-stopDone:
		if e != nil {
			stopRes = "err"
		}
	case <-time.After(5 * time.Second):
		stopRes = "timeout"
	}
	dup, both := 0, 0
	u.mu.Lock()
	u.cb.mu.Lock()
	for id, c := range u.decoded {
		if c > 1 {
			dup++
		}
		if u.cb.dropped[id] > 0 {
			both++
		}
	}
	for _, c := range u.cb.dropped {
		if c > 1 {
			dup++
		}
	}
	corrupt := u.corrupt + u.cb.corrupt
	u.cb.mu.Unlock()
	u.mu.Unlock()
	blockingDrops := 0
	if blocking {
		blockingDrops = drp
	}
	// goroutines back to baseline (+1 for the error drainer), port bindable again
	leak := 0
	for i := 0; i < 50; i++ {
		if runtime.NumGoroutine() <= base+1 {
			break
		}
		time.Sleep(10 * time.Millisecond)
	}
	if g := runtime.NumGoroutine(); g > base+1 {
		leak = g - base - 1
	}
	rebind := 1
	if c, err := net.ListenUDP("udp", &net.UDPAddr{IP: net.ParseIP("127.0.0.1"), Port: port}); err != nil {
		rebind = 0
	} else {
		c.Close()
	}
	fmt.Fprintf(os.Stderr, "udp stats: sent=%d reads=%d decoded=%d dropped=%d\n", n, reads, dec, drp)
	st.extra["udp.last"] = fmt.Sprintf("sent=%d reads=%d decoded=%d dropped=%d", n, reads, dec, drp)
	u.mu.Lock()
	errSrc := u.errSrc
	u.mu.Unlock()
	return []string{fmt.Sprintf("res ok dup=%d both=%d corrupt=%d unaccounted=%d blockingdrops=%d stop=%s leak=%d rebind=%d errsrc=%d",
		dup, both, corrupt, int(reads)-dec-drp, blockingDrops, stopRes, leak, rebind, errSrc)}
}

// updown <sockets> <workers> <queue> <blocking> <calls>: calls is a string over S (Start) and T (Stop);
// traffic runs during the calls; every call must return within the watchdog; prints which calls errored
func opUpDown(st *state, args []string) []string {
	if len(args) != 5 {
		return []string{"bad-op"}
	}
	sockets, _ := strconv.Atoi(args[0])
	workers, _ := strconv.Atoi(args[1])
	queue, _ := strconv.Atoi(args[2])
	blocking := args[3] == "1"
	u := &udpRun{decoded: map[uint32]int{}, gate: make(chan struct{}), cb: &dropCB{dropped: map[uint32]int{}}}
	base := runtime.NumGoroutine()
	r, err := utils.NewUDPReceiver(&utils.UDPReceiverConfig{Sockets: sockets, Workers: workers, QueueSize: queue, Blocking: blocking, ReceiverCallback: u.cb})
	if err != nil {
		return []string{resErr(err)}
	}
	// the Start calls alternate between two ports (a receiver restarted on another port); traffic goes to both
	ports := [2]int{freeUDPPort(), freeUDPPort()}
	port := ports[0]
	stopTraffic := make(chan struct{})
	var twg sync.WaitGroup
	twg.Add(1)
	go func() {
		defer twg.Done()
		c, err := net.Dial("udp", fmt.Sprintf("127.0.0.1:%d", ports[0]))
		if err != nil {
			return
		}
		defer c.Close()
		c2, err := net.Dial("udp", fmt.Sprintf("127.0.0.1:%d", ports[1]))
		if err != nil {
			return
		}
		defer c2.Close()
		var id uint32
		for {
			select {
			case <-stopTraffic:
				return
			default:
			}
			id++
			c.Write(mkDatagram(id, 64))
			id++
			c2.Write(mkDatagram(id, 64))
			if id%16 == 0 {
				c.Write([]byte{})
				c2.Write([]byte{})
			}
			if id%32 == 0 {
				time.Sleep(100 * time.Microsecond)
			}
		}
	}()
	var results []string
	started := false
	dead := 0
	callNo, lastStart, stolen := 0, 0, 0
	refused := map[int]bool{}
	byCall := map[int]int{}
	for _, c := range args[4] {
		done := make(chan error, 1)
		var holder *net.UDPConn
		if c == 'S' || c == 'F' {
			port = ports[callNo%2]
		}
		switch c {
		case 'S', 'F':
			// 'F': a foreign socket without SO_REUSEPORT holds the port while Start runs (when the receiver is stopped the
			// bind fails; when it is started the foreign socket cannot bind and Start is refused as "already started")
			if c == 'F' {
				holder, _ = net.ListenUDP("udp", &net.UDPAddr{IP: net.ParseIP("127.0.0.1"), Port: port})
			}
			// every Start call hands over a decoder of its own: the decoder of a refused Start must never see a datagram
			callNo++
			mine := callNo
			inner := u.decoder("slow")
			dec := func(msg interface{}) error {
				u.mu.Lock()
				if refused[mine] {
					stolen++
				}
				byCall[mine]++
				// odd ids were sent to the first port, even ids to the second: the message says so whatever session decodes it
				if m, isM := msg.(*utils.Message); isM {
					if id, ok := checkDatagram(m.Payload); ok && int(m.Dst.Port()) != ports[(id+1)%2] {
						u.corrupt++
					}
				}
				u.mu.Unlock()
				return inner(msg)
			}
			lastStart = mine
			go func() { done <- r.Start("127.0.0.1", port, dec) }()
		case 'T':
			go func() { done <- r.Stop() }()
		default:
			close(stopTraffic)
			return []string{"bad-op"}
		}
		select {
		case e := <-done:
			if holder != nil {
				holder.Close()
			}
			if e != nil {
				results = append(results, "1")
				// a Start refused because the receiver is started must not have changed anything: its decoder never sees a
				// datagram. (A Start that fails to bind on a stopped receiver had its workers running for a moment; they may
				// decode what a reader of the previous session put in the queue behind Stop's sentinels — not a refusal.)
				if c == 'S' || (c == 'F' && started) {
					u.mu.Lock()
					refused[lastStart] = true
					stolen += byCall[lastStart]
					u.mu.Unlock()
				}
			} else {
				results = append(results, "0")
				started = c == 'S' || c == 'F'

				if started {
					// a receiver that reports it has started must decode the traffic that keeps arriving
					u.mu.Lock()
					before := len(u.decoded)
					u.mu.Unlock()
					alive := false
					for k := 0; k < 200 && !alive; k++ {
						time.Sleep(5 * time.Millisecond)
						u.mu.Lock()
						alive = len(u.decoded) > before
						u.mu.Unlock()
					}
					if !alive {
						dead++
					}
				}
			}
		case <-time.After(5 * time.Second):
			close(stopTraffic)
			return []string{"res timeout"}
		}
		time.Sleep(2 * time.Millisecond)
	}
	close(stopTraffic)
	twg.Wait()
	if started {
		r.Stop()
	}
	leak := 0
	for i := 0; i < 50; i++ {
		if runtime.NumGoroutine() <= base {
			break
		}
		time.Sleep(10 * time.Millisecond)
	}
	if g := runtime.NumGoroutine(); g > base {
		leak = g - base
	}
	rebind := 1
	if c, err := net.ListenUDP("udp", &net.UDPAddr{IP: net.ParseIP("127.0.0.1"), Port: port}); err != nil {
		rebind = 0
	} else {
		c.Close()
	}
	u.mu.Lock()
	corrupt := u.corrupt
	u.mu.Unlock()
	st2 := stolen
	return []string{fmt.Sprintf("res ok results=%s corrupt=%d leak=%d rebind=%d dead=%d stolen=%d", strings.Join(results, ","), corrupt, leak, rebind, dead, st2)}
}

// drain <sockets> <workers> <queue> <k>: k datagrams are read and queued behind gated decoders, Stop is
// called, then the gate opens: when Stop returns all k must have been decoded
func opDrain(st *state, args []string) []string {
	if len(args) != 4 {
		return []string{"bad-op"}
	}
	sockets, _ := strconv.Atoi(args[0])
	workers, _ := strconv.Atoi(args[1])
	queue, _ := strconv.Atoi(args[2])
	k, _ := strconv.Atoi(args[3])
	u := &udpRun{decoded: map[uint32]int{}, gate: make(chan struct{}), cb: &dropCB{dropped: map[uint32]int{}}}
	utils.VerifEvent = func(name string, sz int) {
		if name == "udp.read" && sz > 0 { // empty datagrams are read and skipped: nothing to decode or drop
			atomic.AddInt64(&u.reads, 1)
		}
	}
	defer func() { utils.VerifEvent = nil }()
	r, err := utils.NewUDPReceiver(&utils.UDPReceiverConfig{Sockets: sockets, Workers: workers, QueueSize: queue, Blocking: true, ReceiverCallback: u.cb})
	if err != nil {
		return []string{resErr(err)}
	}
	port := freeUDPPort()
	if err := r.Start("127.0.0.1", port, u.decoder("gated")); err != nil {
		return []string{resErr(err)}
	}
	ids := make([]uint32, k)
	for i := range ids {
		ids[i] = uint32(i + 1)
	}
	sendBurst(port, ids, 2, 300*time.Microsecond)
	// wait until everything sent has been read (and hence queued or handed to a gated worker)
	for i := 0; i < 200 && atomic.LoadInt64(&u.reads) < int64(k); i++ {
		time.Sleep(10 * time.Millisecond)
	}
	reads := atomic.LoadInt64(&u.reads)
	time.Sleep(20 * time.Millisecond) // let the readers finish dispatching what they read
	stopDone := make(chan error, 1)
	go func() { stopDone <- r.Stop() }()
	time.Sleep(20 * time.Millisecond)
	close(u.gate)
	stopRes := "ok"
	select {
	case e := <-stopDone:
		if e != nil {
			stopRes = "err"
		}
	case <-time.After(5 * time.Second):
		stopRes = "timeout"
	}
	u.mu.Lock()
	dec := len(u.decoded)
	u.mu.Unlock()
	fmt.Fprintf(os.Stderr, "drain stats: sent=%d reads=%d decoded=%d\n", k, reads, dec)
	return []string{fmt.Sprintf("res ok stop=%s undecoded=%d", stopRes, int(reads)-dec)}
}

// startbusy <sockets> <workers> <queue> <blocking>: Start on a port that another socket (without SO_REUSEPORT) holds must
// return an error — not hang, not leave the receiver half started —, and the same receiver must start on a free port
// afterwards, decode traffic there and stop.
func opStartBusy(st *state, args []string) []string {
	if len(args) != 4 {
		return []string{"bad-op"}
	}
	sockets, _ := strconv.Atoi(args[0])
	workers, _ := strconv.Atoi(args[1])
	queue, _ := strconv.Atoi(args[2])
	blocking := args[3] == "1"
	u := &udpRun{decoded: map[uint32]int{}, gate: make(chan struct{}), cb: &dropCB{dropped: map[uint32]int{}}}
	r, err := utils.NewUDPReceiver(&utils.UDPReceiverConfig{Sockets: sockets, Workers: workers, QueueSize: queue, Blocking: blocking, ReceiverCallback: u.cb})
	if err != nil {
		return []string{resErr(err)}
	}
	holder, err := net.ListenUDP("udp", &net.UDPAddr{IP: net.ParseIP("127.0.0.1"), Port: 0})
	if err != nil {
		return []string{"bad-op"}
	}
	busy := holder.LocalAddr().(*net.UDPAddr).Port
	call := func(f func() error) (string, bool) {
		done := make(chan error, 1)
		go func() { done <- f() }()
		select {
		case e := <-done:
			if e != nil {
				return "err", true
			}
			return "ok", true
		case <-time.After(4 * time.Second):
			return "timeout", false
		}
	}
	r1, fin := call(func() error { return r.Start("127.0.0.1", busy, u.decoder("instant")) })
	holder.Close()
	if !fin {
		return []string{"res timeout"}
	}
	port := freeUDPPort()
	r2, fin := call(func() error { return r.Start("127.0.0.1", port, u.decoder("instant")) })
	if !fin {
		return []string{"res timeout"}
	}
	alive := "no"
	if r2 == "ok" {
		ids := []uint32{1, 2, 3, 4, 5, 6, 7, 8}
		sendBurst(port, ids, 1, 200*time.Microsecond)
		for k := 0; k < 100 && alive == "no"; k++ {
			time.Sleep(5 * time.Millisecond)
			u.mu.Lock()
			if len(u.decoded) > 0 {
				alive = "yes"
			}
			u.mu.Unlock()
		}
	}
	r3, fin := call(r.Stop)
	if !fin {
		return []string{"res timeout"}
	}
	return []string{fmt.Sprintf("res ok busy=%s later=%s alive=%s stop=%s", r1, r2, alive, r3)}
}
