package main

import (
	"bytes"
	"errors"
	"fmt"
	"net/netip"
	"os"
	"reflect"
	"runtime"
	"strconv"
	"strings"
	"sync"
	"time"

	"github.com/netsampler/goflow2/v2/decoders/netflow"
	"github.com/netsampler/goflow2/v2/metrics"
	"github.com/netsampler/goflow2/v2/producer"
	protoproducer "github.com/netsampler/goflow2/v2/producer/proto"
	"github.com/netsampler/goflow2/v2/utils"
	"github.com/netsampler/goflow2/v2/utils/debug"
	"gopkg.in/yaml.v3"

	"verifharness/internal/canon"
)

func init() {
	ops["cfg"] = opCfg
	ops["pipe"] = opPipe
	ops["pipew"] = opPipeW
	ops["pkt"] = opPkt
	ops["poison"] = opPoison
	ops["stage"] = opStage
	ops["allocpkt"] = opAllocPkt
	ops["failat"] = opFailAt
	ops["par"] = opPar
}

// persistent across `reset`: compiled configurations
var cfgs = map[string]protoproducer.ProtoProducerConfig{}

// LoadMapping of cmd/goflow2/main.go (package main there, so repeated here verbatim)
func loadMapping(b []byte) (*protoproducer.ProducerConfig, error) {
	config := &protoproducer.ProducerConfig{}
	dec := yaml.NewDecoder(bytes.NewReader(b))
	err := dec.Decode(config)
	return config, err
}

func opCfg(st *state, args []string) []string {
	if len(args) < 2 {
		return []string{"bad-op"}
	}
	var pc *protoproducer.ProducerConfig
	if args[1] != "none" {
		y, ok := unhex(args[1])
		if !ok {
			return []string{"bad-op"}
		}
		var err error
		pc, err = loadMapping(y)
		if err != nil {
			return []string{resErr(err)}
		}
	}
	var pre []string
	if pc != nil {
		pre = []string{"twin " + twinOf(pc)}
	}
	c, err := pc.Compile()
	if err != nil {
		return append(pre, resErr(err))
	}
	cfgs[args[0]] = c
	return append(pre, "res ok")
}

// dumpMsg renders the canonical `msg` line: non-zero exported fields in struct order, then unk
func dumpMsg(m *protoproducer.ProtoProducerMessage) string {
	var sb strings.Builder
	sb.WriteString("msg")
	v := reflect.ValueOf(&m.FlowMessage).Elem()
	t := v.Type()
	for i := 0; i < t.NumField(); i++ {
		f := t.Field(i)
		if !f.IsExported() {
			continue
		}
		fv := v.Field(i)
		switch fv.Kind() {
		case reflect.Uint32, reflect.Uint64:
			if fv.Uint() != 0 {
				fmt.Fprintf(&sb, " %s=%d", f.Name, fv.Uint())
			}
		case reflect.Int32:
			if fv.Int() != 0 {
				fmt.Fprintf(&sb, " %s=%d", f.Name, fv.Int())
			}
		case reflect.Slice:
			if fv.Len() == 0 {
				continue
			}
			if fv.Type().Elem().Kind() == reflect.Uint8 {
				fmt.Fprintf(&sb, " %s=%s", f.Name, canon.Hex(fv.Bytes()))
			} else {
				fmt.Fprintf(&sb, " %s=%s", f.Name, canon.Dump(fv.Interface()))
			}
		}
	}
	if unk := m.ProtoReflect().GetUnknown(); len(unk) > 0 {
		fmt.Fprintf(&sb, " unk=%s", canon.Hex(unk))
	}
	return sb.String()
}

// captureFormat is a format.FormatInterface that records the message structure at the
// moment the pipe hands it to the formatter
type captureFormat struct {
	lines []string
	// parallel mode: lines are attributed to the calling goroutine
	mu     sync.Mutex
	byGoid map[int][]string
	// allocation measurement: only count the messages, allocate nothing
	countOnly bool
	count     int
	// also record the four output forms of each message
	full bool
	// parallel mode without any synchronisation of the harness's own between the workers (a lock here
	// would order the workers' accesses and hide data races from the race detector): goroutine id ->
	// that worker's private buffer; the map is built before the workers are released and only read after
	slots map[int]*[]string
	// full mode: the forms of every message of the datagram, held uncopied until the datagram is done
	held []*formed
	// … and across the next datagram: the records of the previous datagram (an asynchronous transport such as the Kafka
	// producer still holds them when the next datagram is formatted) with copies taken when they were produced
	prev     []*formed
	prevSnap [][4][]byte
	// failat: Format refuses its failAt-th call of the current datagram (1-based; 0: never)
	failAt, nfmt int
}

// stale: how many byte slices handed out for the previous datagram have changed since
func (c *captureFormat) stale() int {
	n := 0
	for i, f := range c.prev {
		cur := [4][]byte{f.js, f.tx, f.bin, f.ky}
		for k := 0; k < 4; k++ {
			if !bytes.Equal(cur[k], c.prevSnap[i][k]) {
				n++
			}
		}
	}
	return n
}

// roll: the datagram is done — its records become the "previous" ones
func (c *captureFormat) roll() {
	c.prev = c.held
	c.prevSnap = nil
	for _, f := range c.prev {
		c.prevSnap = append(c.prevSnap, [4][]byte{append([]byte(nil), f.js...), append([]byte(nil), f.tx...), append([]byte(nil), f.bin...), append([]byte(nil), f.ky...)})
	}
}

const heldMark = "\x00held "

// resolve renders the held forms in place of their markers (after DecodeFlow has returned)
func (c *captureFormat) resolve(lines []string) []string {
	if len(c.held) == 0 {
		return lines
	}
	var out []string
	for _, l := range lines {
		if strings.HasPrefix(l, heldMark) {
			i, _ := strconv.Atoi(l[len(heldMark):])
			if i >= 0 && i < len(c.held) {
				out = append(out, c.held[i].lines()...)
			}
			continue
		}
		out = append(out, l)
	}
	return out
}

func (c *captureFormat) Format(data interface{}) ([]byte, []byte, error) {
	if c.countOnly {
		c.count++
		return nil, nil, nil
	}
	if c.failAt > 0 {
		c.nfmt++
		if c.nfmt == c.failAt {
			return nil, nil, errors.New("format refused (failat)")
		}
	}
	var line string
	m, ok := data.(*protoproducer.ProtoProducerMessage)
	if !ok {
		line = fmt.Sprintf("msg <not a ProtoProducerMessage: %T>", data)
	} else {
		line = dumpMsg(m)
	}
	var extra []string
	if c.full && ok {
		c.mu.Lock()
		c.held = append(c.held, fmtForms(m))
		extra = []string{heldMark + strconv.Itoa(len(c.held)-1)}
		c.mu.Unlock()
	}
	if c.slots != nil {
		if p := c.slots[goid()]; p != nil {
			*p = append(*p, line)
			*p = append(*p, extra...)
		}
		return nil, nil, nil
	}
	c.mu.Lock()
	if extra != nil {
		c.lines = append(c.lines, line)
		c.lines = append(c.lines, extra...)
		c.mu.Unlock()
		return nil, nil, nil
	}
	if c.byGoid != nil {
		g := goid()
		c.byGoid[g] = append(c.byGoid[g], line)
	} else {
		c.lines = append(c.lines, line)
	}
	c.mu.Unlock()
	return nil, nil, nil
}

func countMsgs(lines []string) int {
	n := 0
	for _, l := range lines {
		if l == "msg" || strings.HasPrefix(l, "msg ") {
			n++
		}
	}
	return n
}

type pipeEntry struct {
	pipe utils.FlowPipe
	cap  *captureFormat
	prod producer.ProducerInterface
	// wired with the panic wrappers of main.go
	wrapped bool
}

// poison <pid> <n>: Commit() n fully populated messages into the producer's message pool, so that
// the next Get() hands back an object with every column, every repeated field and unknown fields set
func opPoison(st *state, args []string) []string {
	if len(args) != 2 {
		return []string{"bad-op"}
	}
	pe, ok := st.extra["pipe:"+args[0]].(*pipeEntry)
	n, err := strconv.Atoi(args[1])
	if !ok || err != nil {
		return []string{"bad-op"}
	}
	var set []producer.ProducerMessage
	for i := 0; i < n; i++ {
		m := &protoproducer.ProtoProducerMessage{}
		v := reflect.ValueOf(&m.FlowMessage).Elem()
		t := v.Type()
		for j := 0; j < t.NumField(); j++ {
			f := t.Field(j)
			if !f.IsExported() {
				continue
			}
			fv := v.Field(j)
			switch fv.Kind() {
			case reflect.Uint32, reflect.Uint64:
				fv.SetUint(uint64(0xA5A5A500 + j))
			case reflect.Int32:
				fv.SetInt(4)
			case reflect.Slice:
				switch fv.Type().Elem().Kind() {
				case reflect.Uint8:
					fv.SetBytes([]byte{0xde, 0xad, 0xbe, 0xef, byte(j)})
				case reflect.Uint32:
					fv.Set(reflect.ValueOf([]uint32{0xdead, uint32(j)}))
				case reflect.Int32:
					s := reflect.MakeSlice(fv.Type(), 2, 2)
					s.Index(0).SetInt(9)
					s.Index(1).SetInt(3)
					fv.Set(s)
				case reflect.Slice:
					fv.Set(reflect.ValueOf([][]byte{{0xba, 0xad}, {0xf0, 0x0d, byte(j)}}))
				}
			}
		}
		// custom (unknown) fields: varint 1000 and bytes 1001
		m.ProtoReflect().SetUnknown([]byte{0xc0, 0x3e, 0x2a, 0xca, 0x3e, 0x03, 0x61, 0x62, 0x63})
		set = append(set, m)
	}
	pe.prod.Commit(set)
	return []string{"res ok"}
}

// pipew: the pipe as cmd/goflow2/main.go wires it — the producer behind debug.WrapPanicProducer, the decoder function
// behind debug.PanicDecoderWrapper: a panic of conversion or dissection is recovered and comes back as an error
func opPipeW(st *state, args []string) []string {
	wrapNext = true
	defer func() { wrapNext = false }()
	return opPipe(st, args)
}

var wrapNext bool

func opPipe(st *state, args []string) []string {
	if len(args) != 3 {
		return []string{"bad-op"}
	}
	cfg, ok := cfgs[args[2]]
	if !ok {
		c, err := (*protoproducer.ProducerConfig)(nil).Compile()
		if err != nil {
			return []string{resErr(err)}
		}
		cfg = c
	}
	prod, err := protoproducer.CreateProtoProducer(cfg, protoproducer.CreateSamplingSystem)
	if err != nil {
		return []string{resErr(err)}
	}
	wrapped := wrapNext
	if wrapped {
		prod = debug.WrapPanicProducer(prod)
	}
	capf := &captureFormat{}
	// the `flow` (auto) pipe is wired as cmd/goflow2/main.go wires it: Prometheus-instrumented template
	// systems; the `netflow` pipe uses the plain in-memory one
	pcfg := &utils.PipeConfig{Format: capf, Producer: prod, NetFlowTemplater: func(key string) netflow.NetFlowTemplateSystem {
		return netflow.CreateTemplateSystem()
	}}
	if args[1] == "flow" {
		pcfg.NetFlowTemplater = metrics.NewDefaultPromTemplateSystem
	}
	var p utils.FlowPipe
	switch args[1] {
	case "netflow":
		p = utils.NewNetFlowPipe(pcfg)
	case "sflow":
		p = utils.NewSFlowPipe(pcfg)
	case "flow":
		p = utils.NewFlowPipe(pcfg)
	default:
		return []string{"bad-op"}
	}
	st.extra["pipe:"+args[0]] = &pipeEntry{pipe: p, cap: capf, prod: prod, wrapped: wrapped}
	return []string{"res ok"}
}

// addrOf: 4 or 16 address bytes; more than 16 bytes are an IPv6 address followed by its zone (fe80::1%eth0)
func addrOf(b []byte) (netip.Addr, bool) {
	if len(b) > 16 {
		return netip.AddrFrom16([16]byte(b[:16])).WithZone(string(b[16:])), true
	}
	return netip.AddrFromSlice(b)
}

func opPkt(st *state, args []string) []string {
	if len(args) != 5 {
		return []string{"bad-op"}
	}
	pe, ok := st.extra["pipe:"+args[0]].(*pipeEntry)
	if !ok {
		return []string{"bad-op"}
	}
	ipb, ok1 := unhex(args[1])
	port, err1 := strconv.ParseUint(args[2], 10, 16)
	ns, err2 := strconv.ParseInt(args[3], 10, 64)
	d, ok2 := unhex(args[4])
	addr, ok3 := addrOf(ipb)
	if !ok1 || !ok2 || !ok3 || err1 != nil || err2 != nil {
		return []string{"bad-op"}
	}
	pe.cap.lines = nil
	pe.cap.held = nil
	pe.cap.nfmt = 0
	defer func() { pe.cap.failAt = 0 }()
	msg := &utils.Message{
		Src:      netip.AddrPortFrom(addr, uint16(port)),
		Dst:      netip.AddrPortFrom(netip.MustParseAddr("127.0.0.1"), 2055),
		Payload:  d,
		Received: time.Unix(0, ns),
	}
	var lines []string
	func() {
		defer func() {
			if r := recover(); r != nil {
				lines = append([]string{fmt.Sprintf("res panic n=%d # %v", countMsgs(pe.cap.lines), r)}, pe.cap.resolve(pe.cap.lines)...)
			}
		}()
		decode := utils.DecoderFunc(pe.pipe.DecodeFlow)
		if pe.wrapped {
			decode = debug.PanicDecoderWrapper(decode)
		}
		err := decode(msg)
		cls := classify(err)
		if err != nil && errors.Is(err, debug.PanicError) {
			cls = "res err:recovered"
		}
		res := cls + fmt.Sprintf(" n=%d", countMsgs(pe.cap.lines))
		if err != nil {
			res += " # " + strings.ReplaceAll(err.Error(), "\n", " | ")
		}
		lines = append([]string{res}, pe.cap.resolve(pe.cap.lines)...)
		// the payloads of earlier datagrams belong to the receiver (it recycles its buffers for the datagrams that follow):
		// nothing that processes a later datagram may write into them
		if n := inputsChanged(d); n > 0 {
			lines = append(lines, fmt.Sprintf("input-changed %d", n))
		}
		if pe.cap.full {
			if n := pe.cap.stale(); n > 0 {
				lines = append(lines, fmt.Sprintf("held-changed %d", n))
			}
			pe.cap.roll()
		}
	}()
	return lines
}

type staged struct {
	pipe string
	msg  *utils.Message
}

// stage <pid> <ip> <port> <recv-ns> <hex>: remember a datagram for the next `par`
func opStage(st *state, args []string) []string {
	if len(args) != 5 {
		return []string{"bad-op"}
	}
	ipb, ok1 := unhex(args[1])
	port, err1 := strconv.ParseUint(args[2], 10, 16)
	ns, err2 := strconv.ParseInt(args[3], 10, 64)
	d, ok2 := unhex(args[4])
	addr, ok3 := addrOf(ipb)
	if !ok1 || !ok2 || !ok3 || err1 != nil || err2 != nil {
		return []string{"bad-op"}
	}
	l, _ := st.extra["staged"].([]staged)
	l = append(l, staged{args[0], &utils.Message{Src: netip.AddrPortFrom(addr, uint16(port)),
		Dst: netip.AddrPortFrom(netip.MustParseAddr("127.0.0.1"), 2055), Payload: d, Received: time.Unix(0, ns)}})
	st.extra["staged"] = l
	return []string{"res ok"}
}

// par <goroutines>: process every staged datagram concurrently on its (shared) pipe from the given
// number of goroutines with random yields; print the outcome of each datagram in staging order
func opPar(st *state, args []string) []string {
	if len(args) != 1 {
		return []string{"bad-op"}
	}
	g, err := strconv.Atoi(args[0])
	l, _ := st.extra["staged"].([]staged)
	st.extra["staged"] = nil
	if err != nil || g < 1 {
		return []string{"bad-op"}
	}
	type out struct {
		res   string
		lines []string
	}
	outs := make([]out, len(l))
	caps := map[*captureFormat]bool{}
	pes := make([]*pipeEntry, len(l))
	for i, s := range l {
		pe, ok := st.extra["pipe:"+s.pipe].(*pipeEntry)
		if !ok {
			return []string{"bad-op"}
		}
		caps[pe.cap] = true
		pes[i] = pe
	}
	// workers report their goroutine ids, the coordinator builds the read-only slot map, then releases
	// them all at once; datagram i goes to worker i % g; nothing of the harness synchronises the
	// workers with each other while they decode
	ids := make([]int, g)
	bufs := make([][]string, g)
	var ready, wg sync.WaitGroup
	start := make(chan struct{})
	for w := 0; w < g; w++ {
		ready.Add(1)
		wg.Add(1)
		go func(w int) {
			defer wg.Done()
			ids[w] = goid()
			ready.Done()
			<-start
			for i := w; i < len(l); i += g {
				if (i+w)%3 == 0 {
					runtime.Gosched()
				}
				before := len(bufs[w])
				func() {
					defer func() {
						if r := recover(); r != nil {
							outs[i].res = "panic"
						}
					}()
					e := pes[i].pipe.DecodeFlow(l[i].msg)
					outs[i].res = strings.TrimPrefix(classify(e), "res ")
				}()
				outs[i].lines = append([]string{}, bufs[w][before:]...)
			}
		}(w)
	}
	ready.Wait()
	slots := map[int]*[]string{}
	for w := 0; w < g; w++ {
		slots[ids[w]] = &bufs[w]
	}
	for c := range caps {
		c.slots = slots
	}
	close(start)
	wg.Wait()
	for c := range caps {
		c.slots = nil
	}
	lines := []string{fmt.Sprintf("res ok n=%d", len(l))}
	for i, o := range outs {
		lines = append(lines, fmt.Sprintf("d %d %s n=%d", i, o.res, len(o.lines)))
		lines = append(lines, o.lines...)
	}
	return lines
}

// allocpkt <pid> <ip> <port> <recv-ns> <hex> <widest>: DecodeFlow with the bytes requested from the
// allocator measured (runtime.MemStats.TotalAlloc) against the budget of C02:
// 16 MiB + 256 bytes x datagram length x (1 + fields of the widest referenced template)
func opAllocPkt(st *state, args []string) []string {
	if len(args) != 6 {
		return []string{"bad-op"}
	}
	pe, ok := st.extra["pipe:"+args[0]].(*pipeEntry)
	ipb, ok1 := unhex(args[1])
	port, err1 := strconv.ParseUint(args[2], 10, 16)
	ns, err2 := strconv.ParseInt(args[3], 10, 64)
	d, ok2 := unhex(args[4])
	widest, err3 := strconv.Atoi(args[5])
	addr, ok3 := addrOf(ipb)
	if !ok || !ok1 || !ok2 || !ok3 || err1 != nil || err2 != nil || err3 != nil {
		return []string{"bad-op"}
	}
	msg := &utils.Message{Src: netip.AddrPortFrom(addr, uint16(port)), Dst: netip.AddrPortFrom(netip.MustParseAddr("127.0.0.1"), 2055),
		Payload: d, Received: time.Unix(0, ns)}
	pe.cap.countOnly = true
	pe.cap.count = 0
	defer func() { pe.cap.countOnly = false }()
	var before, after runtime.MemStats
	runtime.GC()
	runtime.ReadMemStats(&before)
	err := pe.pipe.DecodeFlow(msg)
	runtime.ReadMemStats(&after)
	alloc := after.TotalAlloc - before.TotalAlloc
	budget := uint64(16<<20) + 256*uint64(len(d))*uint64(1+widest)
	verdict := "ok"
	if alloc > budget {
		verdict = "exceeded"
	}
	fmt.Fprintf(os.Stderr, "alloc: len=%d widest=%d alloc=%d budget=%d\n", len(d), widest, alloc, budget)
	return []string{fmt.Sprintf("%s n=%d budget=%s", classify(err), pe.cap.count, verdict), fmt.Sprintf("alloc %d %d", alloc, len(d))}
}

// failat <pid> <k>: the format of the pipe refuses the k-th message of the next datagram (`pkt`)
func opFailAt(st *state, args []string) []string {
	if len(args) != 2 {
		return []string{"bad-op"}
	}
	pe, ok := st.extra["pipe:"+args[0]].(*pipeEntry)
	k, err := strconv.Atoi(args[1])
	if !ok || err != nil {
		return []string{"bad-op"}
	}
	pe.cap.failAt = k
	return []string{"res ok"}
}

type keptInput struct{ buf, snap []byte }

var keptInputs []keptInput

// inputsChanged: how many of the last 16 payloads differ from the copy taken when they were handed in; then remembers cur
func inputsChanged(cur []byte) int {
	n := 0
	for i := range keptInputs {
		if !bytes.Equal(keptInputs[i].buf, keptInputs[i].snap) {
			n++
			keptInputs[i].snap = append([]byte(nil), keptInputs[i].buf...)
		}
	}
	keptInputs = append(keptInputs, keptInput{cur, append([]byte(nil), cur...)})
	if len(keptInputs) > 16 {
		keptInputs = keptInputs[len(keptInputs)-16:]
	}
	return n
}
