package main

import (
	"bytes"
	"fmt"
	"net/netip"
	"reflect"
	"strconv"
	"strings"
	"time"

	"github.com/netsampler/goflow2/v2/decoders/netflow"
	"github.com/netsampler/goflow2/v2/producer"
	protoproducer "github.com/netsampler/goflow2/v2/producer/proto"
	"github.com/netsampler/goflow2/v2/utils"
	"gopkg.in/yaml.v3"

	"verifharness/internal/canon"
)

func init() {
	ops["cfg"] = opCfg
	ops["pipe"] = opPipe
	ops["pkt"] = opPkt
	ops["poison"] = opPoison
}

// persistent across `reset`: compiled configurations
var cfgs = map[string]protoproducer.ProtoProducerConfig{}

// LoadMapping of cmd/goflow2/main.go (package main there, so repeated here verbatim)
func loadMapping(b []byte) (*protoproducer.ProducerConfig, error) {
	config := &protoproducer.ProducerConfig{}
	dec := yaml.NewDecoder(bytes.NewReader(b))
	err := dec.Decode(config)
	return config, err
}

func opCfg(st *state, args []string) []string {
	if len(args) < 2 {
		return []string{"bad-op"}
	}
	var pc *protoproducer.ProducerConfig
	if args[1] != "none" {
		y, ok := unhex(args[1])
		if !ok {
			return []string{"bad-op"}
		}
		var err error
		pc, err = loadMapping(y)
		if err != nil {
			return []string{resErr(err)}
		}
	}
	c, err := pc.Compile()
	if err != nil {
		return []string{resErr(err)}
	}
	cfgs[args[0]] = c
	return []string{"res ok"}
}

// dumpMsg renders the canonical `msg` line: non-zero exported fields in struct order, then unk
func dumpMsg(m *protoproducer.ProtoProducerMessage) string {
	var sb strings.Builder
	sb.WriteString("msg")
	v := reflect.ValueOf(&m.FlowMessage).Elem()
	t := v.Type()
	for i := 0; i < t.NumField(); i++ {
		f := t.Field(i)
		if !f.IsExported() {
			continue
		}
		fv := v.Field(i)
		switch fv.Kind() {
		case reflect.Uint32, reflect.Uint64:
			if fv.Uint() != 0 {
				fmt.Fprintf(&sb, " %s=%d", f.Name, fv.Uint())
			}
		case reflect.Int32:
			if fv.Int() != 0 {
				fmt.Fprintf(&sb, " %s=%d", f.Name, fv.Int())
			}
		case reflect.Slice:
			if fv.Len() == 0 {
				continue
			}
			if fv.Type().Elem().Kind() == reflect.Uint8 {
				fmt.Fprintf(&sb, " %s=%s", f.Name, canon.Hex(fv.Bytes()))
			} else {
				fmt.Fprintf(&sb, " %s=%s", f.Name, canon.Dump(fv.Interface()))
			}
		}
	}
	if unk := m.ProtoReflect().GetUnknown(); len(unk) > 0 {
		fmt.Fprintf(&sb, " unk=%s", canon.Hex(unk))
	}
	return sb.String()
}

// captureFormat is a format.FormatInterface that records the message structure at the
// moment the pipe hands it to the formatter
type captureFormat struct {
	lines []string
}

func (c *captureFormat) Format(data interface{}) ([]byte, []byte, error) {
	m, ok := data.(*protoproducer.ProtoProducerMessage)
	if !ok {
		c.lines = append(c.lines, fmt.Sprintf("msg <not a ProtoProducerMessage: %T>", data))
		return nil, nil, nil
	}
	c.lines = append(c.lines, dumpMsg(m))
	return nil, nil, nil
}

type pipeEntry struct {
	pipe utils.FlowPipe
	cap  *captureFormat
	prod producer.ProducerInterface
}

// poison <pid> <n>: Commit() n fully populated messages into the producer's message pool, so that
// the next Get() hands back an object with every column, every repeated field and unknown fields set
func opPoison(st *state, args []string) []string {
	if len(args) != 2 {
		return []string{"bad-op"}
	}
	pe, ok := st.extra["pipe:"+args[0]].(*pipeEntry)
	n, err := strconv.Atoi(args[1])
	if !ok || err != nil {
		return []string{"bad-op"}
	}
	var set []producer.ProducerMessage
	for i := 0; i < n; i++ {
		m := &protoproducer.ProtoProducerMessage{}
		v := reflect.ValueOf(&m.FlowMessage).Elem()
		t := v.Type()
		for j := 0; j < t.NumField(); j++ {
			f := t.Field(j)
			if !f.IsExported() {
				continue
			}
			fv := v.Field(j)
			switch fv.Kind() {
			case reflect.Uint32, reflect.Uint64:
				fv.SetUint(uint64(0xA5A5A500 + j))
			case reflect.Int32:
				fv.SetInt(4)
			case reflect.Slice:
				switch fv.Type().Elem().Kind() {
				case reflect.Uint8:
					fv.SetBytes([]byte{0xde, 0xad, 0xbe, 0xef, byte(j)})
				case reflect.Uint32:
					fv.Set(reflect.ValueOf([]uint32{0xdead, uint32(j)}))
				case reflect.Int32:
					s := reflect.MakeSlice(fv.Type(), 2, 2)
					s.Index(0).SetInt(9)
					s.Index(1).SetInt(3)
					fv.Set(s)
				case reflect.Slice:
					fv.Set(reflect.ValueOf([][]byte{{0xba, 0xad}, {0xf0, 0x0d, byte(j)}}))
				}
			}
		}
		// custom (unknown) fields: varint 1000 and bytes 1001
		m.ProtoReflect().SetUnknown([]byte{0xc0, 0x3e, 0x2a, 0xca, 0x3e, 0x03, 0x61, 0x62, 0x63})
		set = append(set, m)
	}
	pe.prod.Commit(set)
	return []string{"res ok"}
}

func opPipe(st *state, args []string) []string {
	if len(args) != 3 {
		return []string{"bad-op"}
	}
	cfg, ok := cfgs[args[2]]
	if !ok {
		c, err := (*protoproducer.ProducerConfig)(nil).Compile()
		if err != nil {
			return []string{resErr(err)}
		}
		cfg = c
	}
	prod, err := protoproducer.CreateProtoProducer(cfg, protoproducer.CreateSamplingSystem)
	if err != nil {
		return []string{resErr(err)}
	}
	capf := &captureFormat{}
	pcfg := &utils.PipeConfig{Format: capf, Producer: prod, NetFlowTemplater: func(key string) netflow.NetFlowTemplateSystem {
		return netflow.CreateTemplateSystem()
	}}
	var p utils.FlowPipe
	switch args[1] {
	case "netflow":
		p = utils.NewNetFlowPipe(pcfg)
	case "sflow":
		p = utils.NewSFlowPipe(pcfg)
	case "flow":
		p = utils.NewFlowPipe(pcfg)
	default:
		return []string{"bad-op"}
	}
	st.extra["pipe:"+args[0]] = &pipeEntry{p, capf, prod}
	return []string{"res ok"}
}

func addrOf(b []byte) (netip.Addr, bool) {
	return netip.AddrFromSlice(b)
}

func opPkt(st *state, args []string) []string {
	if len(args) != 5 {
		return []string{"bad-op"}
	}
	pe, ok := st.extra["pipe:"+args[0]].(*pipeEntry)
	if !ok {
		return []string{"bad-op"}
	}
	ipb, ok1 := unhex(args[1])
	port, err1 := strconv.ParseUint(args[2], 10, 16)
	ns, err2 := strconv.ParseInt(args[3], 10, 64)
	d, ok2 := unhex(args[4])
	addr, ok3 := addrOf(ipb)
	if !ok1 || !ok2 || !ok3 || err1 != nil || err2 != nil {
		return []string{"bad-op"}
	}
	pe.cap.lines = nil
	msg := &utils.Message{
		Src:      netip.AddrPortFrom(addr, uint16(port)),
		Dst:      netip.AddrPortFrom(netip.MustParseAddr("127.0.0.1"), 2055),
		Payload:  d,
		Received: time.Unix(0, ns),
	}
	var lines []string
	func() {
		defer func() {
			if r := recover(); r != nil {
				lines = append([]string{fmt.Sprintf("res panic n=%d # %v", len(pe.cap.lines), r)}, pe.cap.lines...)
			}
		}()
		err := pe.pipe.DecodeFlow(msg)
		res := classify(err) + fmt.Sprintf(" n=%d", len(pe.cap.lines))
		if err != nil {
			res += " # " + strings.ReplaceAll(err.Error(), "\n", " | ")
		}
		lines = append([]string{res}, pe.cap.lines...)
	}()
	return lines
}
