package main

import (
	"bytes"

	"github.com/netsampler/goflow2/v2/decoders/sflow"

	"verifharness/internal/canon"
)

func init() {
	calls["sf"] = func(st *state, args []string) []string {
		if len(args) != 1 {
			return []string{"bad-op"}
		}
		d, ok := unhex(args[0])
		if !ok {
			return []string{"bad-op"}
		}
		var p sflow.Packet
		if err := sflow.DecodeMessageVersion(bytes.NewBuffer(d), &p); err != nil {
			return []string{resErr(err)}
		}
		return append([]string{"res ok", "sf " + canon.Dump(p)}, rawFaithful(&p, "sflow")...)
	}
}
