package main

import (
	"bytes"
	"flag"
	"fmt"
	"os"
	"path/filepath"
	"regexp"
	"runtime"
	"sort"
	"strconv"
	"strings"
	"sync"
	"syscall"
	"time"

	"github.com/netsampler/goflow2/v2/transport"
	filetr "github.com/netsampler/goflow2/v2/transport/file"
)

func init() {
	ops["file"] = opFile
}

func goid() int {
	var buf [64]byte
	n := runtime.Stack(buf[:], false)
	f := strings.Fields(string(buf[:n]))
	if len(f) >= 2 {
		id, _ := strconv.Atoi(f[1])
		return id
	}
	return -1
}

var fileRunSeq int

// file <nsenders> <sep-hex> <plan>: drive the real file transport. Plan events (comma separated):
//
//	P<i>  start sender i and let it run to the schedule point between picking the writer and writing
//	W<i>  let sender i write and return
//	ROT   rotate: rename the output file and deliver SIGHUP; wait (briefly) for the reopen
//
// Every step waits at most a short while, so a rotation blocked behind a reader simply completes
// later. At the end everything is released and the files are checked.
func opFile(st *state, args []string) []string {
	if len(args) != 3 {
		return []string{"bad-op"}
	}
	n, err := strconv.Atoi(args[0])
	sep, ok := unhex(args[1])
	if err != nil || !ok || n < 1 || n > 64 {
		return []string{"bad-op"}
	}
	fileRunSeq++
	dir, err := os.MkdirTemp("", "verif-file-")
	if err != nil {
		return []string{"bad-op"}
	}
	defer os.RemoveAll(dir)
	path := filepath.Join(dir, "out.log")
	flag.Set("transport.file", path)
	flag.Set("transport.file.sep", string(sep))

	var mu sync.Mutex
	senderOf := map[int]int{}         // goroutine id -> sender
	tokens := map[int]chan struct{}{} // sender -> release channel (present once arrived)
	autoRelease := map[int]bool{}
	arrived := make(chan int, 256)
	reopened := make(chan struct{}, 64)
	filetr.VerifHook = func(point string) {
		switch point {
		case "file.send.picked":
			mu.Lock()
			i, ok := senderOf[goid()]
			if !ok {
				mu.Unlock()
				return
			}
			if autoRelease[i] {
				mu.Unlock()
				return
			}
			ch := make(chan struct{})
			tokens[i] = ch
			mu.Unlock()
			arrived <- i
			<-ch
		case "file.reopened":
			reopened <- struct{}{}
		}
	}
	defer func() { filetr.VerifHook = nil }()

	tr, err := transport.FindTransport("file")
	if err != nil {
		return []string{resErr(err)}
	}
	msg := func(i int) []byte {
		// total message lengths include buffer-size boundaries (and their neighbours) besides ordinary sizes
		totals := []int{5, 17, 4096, 100, 4097, 1000, 4095, 20000, 8192, 250, 1024, 16384, 65536, 32768}
		total := totals[(i+fileRunSeq)%len(totals)]
		head := fmt.Sprintf("<%d:", i)
		fill := total - len(head) - 1
		if fill < 0 {
			fill = 0
		}
		// a payload may itself end in bytes of the separator (binary output, a text form ending in a line feed)
		tail := ""
		if len(sep) > 0 {
			switch (i + fileRunSeq) % 4 {
			case 1:
				tail = string(sep[len(sep)-1:])
			case 2:
				tail = string(sep)
			case 3:
				tail = string(sep[:1])
			}
		}
		return []byte(head + strings.Repeat(string(rune('a'+i%26)), fill) + ">" + tail)
	}
	// the messages are handed to Send as sub-slices of one batch buffer, packed back to back (len < cap: the bytes behind
	// a message belong to the next one) — the transport must not write into the caller's buffer
	var packed []byte
	offs := make([]int, n+1)
	for i := 0; i < n; i++ {
		offs[i] = len(packed)
		packed = append(packed, msg(i)...)
	}
	offs[n] = len(packed)
	packedMsg := func(i int) []byte { return packed[offs[i]:offs[i+1]] }
	done := make([]chan error, n)
	started := make([]bool, n)
	results := make([]error, n)
	finished := make([]bool, n)
	step := 150 * time.Millisecond
	rotations, reopens := 0, 0
	release := func(i int) {
		mu.Lock()
		if ch, ok := tokens[i]; ok {
			close(ch)
			delete(tokens, i)
		} else {
			autoRelease[i] = true
		}
		mu.Unlock()
	}
	waitDone := func(i int, d time.Duration) {
		if finished[i] || !started[i] {
			return
		}
		select {
		case e := <-done[i]:
			results[i] = e
			finished[i] = true
		case <-time.After(d):
		}
	}
	for _, ev := range strings.Split(args[2], ",") {
		switch {
		case ev == "ROT":
			os.Rename(path, fmt.Sprintf("%s.%d", path, rotations))
			rotations++
			syscall.Kill(os.Getpid(), syscall.SIGHUP)
			select {
			case <-reopened:
				reopens++
			case <-time.After(step):
			}
		case strings.HasPrefix(ev, "P"):
			i, err := strconv.Atoi(ev[1:])
			if err != nil || i < 0 || i >= n || started[i] {
				return []string{"bad-op"}
			}
			started[i] = true
			done[i] = make(chan error, 1)
			go func(i int) {
				mu.Lock()
				senderOf[goid()] = i
				mu.Unlock()
				done[i] <- tr.Send(nil, packedMsg(i))
			}(i)
			// until it reaches the schedule point, returns, or the step times out
			deadline := time.After(step)
		waitLoop:
			for {
				select {
				case j := <-arrived:
					if j == i {
						break waitLoop
					}
				case e := <-done[i]:
					results[i] = e
					finished[i] = true
					break waitLoop
				case <-deadline:
					break waitLoop
				}
			}
		case strings.HasPrefix(ev, "W"):
			i, err := strconv.Atoi(ev[1:])
			if err != nil || i < 0 || i >= n || !started[i] {
				return []string{"bad-op"}
			}
			release(i)
			waitDone(i, step)
		default:
			return []string{"bad-op"}
		}
	}
	// release everything and let pending rotations complete
	for i := 0; i < n; i++ {
		if started[i] {
			release(i)
		}
	}
	for i := 0; i < n; i++ {
		waitDone(i, 3*time.Second)
		if started[i] && !finished[i] {
			return []string{"res timeout"}
		}
	}
	// SIGHUPs delivered while the handler is busy coalesce (signal channel of capacity 1), so the
	// number of reopens may be smaller than the number of signals: wait until no more arrive
	for reopens < rotations {
		quiet := false
		select {
		case <-reopened:
			reopens++
		case <-time.After(250 * time.Millisecond):
			quiet = true
		}
		if quiet {
			break
		}
	}
	if c, ok := interface{}(tr).(interface{ Close() error }); ok {
		c.Close()
	}
	// collect the files: rotated ones in order, then the current one
	var all []byte
	for k := 0; k < rotations; k++ {
		b, _ := os.ReadFile(fmt.Sprintf("%s.%d", path, k))
		all = append(all, b...)
	}
	b, _ := os.ReadFile(path)
	all = append(all, b...)
	// parse units
	re := regexp.MustCompile(`<(\d+):([a-z]*)>`)
	count := map[int]int{}
	junk := 0
	pos := 0
	for pos < len(all) {
		loc := re.FindSubmatchIndex(all[pos:])
		if loc == nil || loc[0] != 0 {
			junk++
			pos++
			continue
		}
		id, _ := strconv.Atoi(string(all[pos+loc[2] : pos+loc[3]]))
		if id >= 0 && id < n && bytes.HasPrefix(all[pos:], append(msg(id), sep...)) {
			count[id]++
			pos += len(msg(id)) + len(sep)
		} else {
			junk++
			pos++
		}
	}
	var failed, missing, dup []string
	for i := 0; i < n; i++ {
		if !started[i] {
			continue
		}
		if results[i] != nil {
			failed = append(failed, strconv.Itoa(i))
		}
		if count[i] == 0 {
			missing = append(missing, strconv.Itoa(i))
		}
		if count[i] > 1 {
			dup = append(dup, strconv.Itoa(i))
		}
	}
	sort.Strings(failed)
	return []string{fmt.Sprintf("res ok failed=[%s] missing=[%s] dup=[%s] junk=%d",
		strings.Join(failed, ","), strings.Join(missing, ","), strings.Join(dup, ","), junk)}
}

func init() { ops["filestress"] = opFileStress; ops["filefault"] = opFileFault }

// filefault <n> <sep-hex>: n messages are sent, then the output is rotated with a SIGHUP whose reopen FAILS (the file is
// renamed away and a directory sits at the path), then n more messages are sent. A message whose Send reported success
// must be in the old or the new file; a Send that cannot write must say so.
func opFileFault(st *state, args []string) []string {
	if len(args) != 2 {
		return []string{"bad-op"}
	}
	n, err := strconv.Atoi(args[0])
	sep, ok := unhex(args[1])
	if err != nil || !ok || n < 1 || n > 200 {
		return []string{"bad-op"}
	}
	dir, err := os.MkdirTemp("", "verif-filefault-")
	if err != nil {
		return []string{"bad-op"}
	}
	defer os.RemoveAll(dir)
	path := filepath.Join(dir, "out.log")
	flag.Set("transport.file", path)
	flag.Set("transport.file.sep", string(sep))
	reopened := make(chan struct{}, 8)
	filetr.VerifHook = func(point string) {
		if point == "file.reopened" {
			select {
			case reopened <- struct{}{}:
			default:
			}
		}
	}
	defer func() { filetr.VerifHook = nil }()
	tr, err := transport.FindTransport("file")
	if err != nil {
		return []string{resErr(err)}
	}
	msg := func(i int) []byte { return []byte(fmt.Sprintf("<%d:%s>", i, strings.Repeat("m", 10+i%40))) }
	acked := map[int]bool{}
	for i := 0; i < n; i++ {
		if tr.Send(nil, msg(i)) == nil {
			acked[i] = true
		}
	}
	os.Rename(path, path+".0")
	os.Mkdir(path, 0o755)
	syscall.Kill(os.Getpid(), syscall.SIGHUP)
	select {
	case <-reopened:
	case <-time.After(500 * time.Millisecond):
	}
	time.Sleep(20 * time.Millisecond)
	for i := n; i < 2*n; i++ {
		if tr.Send(nil, msg(i)) == nil {
			acked[i] = true
		}
	}
	if c, ok := interface{}(tr).(interface{ Close() error }); ok {
		c.Close()
	}
	all, _ := os.ReadFile(path + ".0")
	if b, err := os.ReadFile(path); err == nil {
		all = append(all, b...)
	}
	lost := 0
	for i := range acked {
		if !bytes.Contains(all, append(msg(i), sep...)) {
			lost++
		}
	}
	var ack []int
	for i := range acked {
		ack = append(ack, i)
	}
	sort.Ints(ack)
	var acks []string
	for _, i := range ack {
		acks = append(acks, strconv.Itoa(i))
	}
	return []string{fmt.Sprintf("res ok lostacked=%d", lost), "acked " + strings.Join(acks, ",")}
}

// filestress <workers> <msgs-per-worker> <rotations> <sep-hex>: unscheduled concurrent senders on the real
// file transport (message sizes from a few bytes to well above 16 KiB), with rename + SIGHUP rotations in
// between; afterwards every message must be found exactly once, intact and followed by the separator.
func opFileStress(st *state, args []string) []string {
	if len(args) != 4 {
		return []string{"bad-op"}
	}
	workers, e1 := strconv.Atoi(args[0])
	per, e2 := strconv.Atoi(args[1])
	rots, e3 := strconv.Atoi(args[2])
	sep, ok := unhex(args[3])
	if e1 != nil || e2 != nil || e3 != nil || !ok || workers < 1 || workers > 64 || per < 1 || per > 2000 {
		return []string{"bad-op"}
	}
	dir, err := os.MkdirTemp("", "verif-filestress-")
	if err != nil {
		return []string{"bad-op"}
	}
	defer os.RemoveAll(dir)
	path := filepath.Join(dir, "out.log")
	flag.Set("transport.file", path)
	flag.Set("transport.file.sep", string(sep))
	reopened := make(chan struct{}, 64)
	filetr.VerifHook = func(point string) {
		if point == "file.reopened" {
			select {
			case reopened <- struct{}{}:
			default:
			}
		}
	}
	defer func() { filetr.VerifHook = nil }()
	tr, err := transport.FindTransport("file")
	if err != nil {
		return []string{resErr(err)}
	}
	totals := []int{7, 60, 300, 1500, 4096, 4097, 9000, 16384, 16385, 17000, 20000, 33000}
	msg := func(w, i int) []byte {
		total := totals[(w*7+i)%len(totals)]
		head := fmt.Sprintf("<%d.%d:", w, i)
		fill := total - len(head) - 1
		if fill < 0 {
			fill = 0
		}
		tail := ""
		if len(sep) > 0 {
			switch (w + i) % 5 {
			case 1:
				tail = string(sep[len(sep)-1:])
			case 2:
				tail = string(sep)
			case 3:
				tail = string(sep[:1])
			}
		}
		return []byte(head + strings.Repeat(string(rune('a'+(w+i)%26)), fill) + ">" + tail)
	}
	var wg sync.WaitGroup
	var failed int64
	var fmu sync.Mutex
	start := make(chan struct{})
	for w := 0; w < workers; w++ {
		wg.Add(1)
		go func(w int) {
			defer wg.Done()
			<-start
			for i := 0; i < per; i++ {
				if err := tr.Send(nil, msg(w, i)); err != nil {
					fmu.Lock()
					failed++
					fmu.Unlock()
				}
			}
		}(w)
	}
	close(start)
	rotated := 0
	for k := 0; k < rots; k++ {
		time.Sleep(3 * time.Millisecond)
		if err := os.Rename(path, fmt.Sprintf("%s.%d", path, rotated)); err != nil {
			continue
		}
		rotated++
		syscall.Kill(os.Getpid(), syscall.SIGHUP)
		select {
		case <-reopened:
		case <-time.After(2 * time.Second):
		}
	}
	wg.Wait()
	if c, ok := interface{}(tr).(interface{ Close() error }); ok {
		c.Close()
	}
	var all []byte
	for k := 0; k < rotated; k++ {
		b, _ := os.ReadFile(fmt.Sprintf("%s.%d", path, k))
		all = append(all, b...)
	}
	b, _ := os.ReadFile(path)
	all = append(all, b...)
	re := regexp.MustCompile(`<(\d+)\.(\d+):([a-z]*)>`)
	count := map[[2]int]int{}
	junk := 0
	pos := 0
	for pos < len(all) {
		// look at a bounded window only: a unit is at most 33 KB long
		win := all[pos:]
		if len(win) > 40000 {
			win = win[:40000]
		}
		loc := re.FindSubmatchIndex(win)
		if loc == nil || loc[0] != 0 {
			junk++
			nx := bytes.IndexByte(all[pos+1:], '<')
			if nx < 0 {
				break
			}
			pos += 1 + nx
			continue
		}
		w, _ := strconv.Atoi(string(all[pos+loc[2] : pos+loc[3]]))
		i, _ := strconv.Atoi(string(all[pos+loc[4] : pos+loc[5]]))
		if w >= 0 && w < workers && i >= 0 && i < per && bytes.HasPrefix(all[pos:], append(msg(w, i), sep...)) {
			count[[2]int{w, i}]++
			pos += len(msg(w, i)) + len(sep)
		} else {
			junk++
			nx := bytes.IndexByte(all[pos+1:], '<')
			if nx < 0 {
				break
			}
			pos += 1 + nx
		}
	}
	missing, dup := 0, 0
	for w := 0; w < workers; w++ {
		for i := 0; i < per; i++ {
			c := count[[2]int{w, i}]
			if c == 0 {
				missing++
			}
			if c > 1 {
				dup++
			}
		}
	}
	if junk > 0 {
		junk = 1 // how many stray bytes there are depends on the schedule: report only that there are some
	}
	return []string{fmt.Sprintf("res ok failed=%d missing=%d dup=%d junk=%d", failed, missing, dup, junk)}
}
