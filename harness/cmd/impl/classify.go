package main

import (
	"errors"

	"github.com/netsampler/goflow2/v2/decoders/netflow"
)

// classify maps a Go error to the outcome classes of the protocol.
func classify(err error) string {
	if err == nil {
		return "res ok"
	}
	if errors.Is(err, netflow.ErrorTemplateNotFound) {
		return "res err:template-not-found"
	}
	return "res err"
}
