package main

import (
	"encoding/binary"
	"errors"
	"fmt"
	"net/netip"
	"os"
	"runtime"
	"sort"
	"strconv"
	"strings"
	"sync"
	"time"

	"github.com/netsampler/goflow2/v2/decoders/netflow"
	"github.com/netsampler/goflow2/v2/metrics"
	"github.com/netsampler/goflow2/v2/producer"
	protoproducer "github.com/netsampler/goflow2/v2/producer/proto"
	"github.com/netsampler/goflow2/v2/utils"
)

func init() {
	ops["race"] = opRace
}

// gate: a factory call parked until released
type gate struct {
	release chan struct{}
}

type raceCtl struct {
	parked chan *gate
}

func (c *raceCtl) park() {
	g := &gate{release: make(chan struct{})}
	c.parked <- g
	<-g.release
}

func v9Header(count uint16, dom uint32) []byte {
	b := make([]byte, 20)
	binary.BigEndian.PutUint16(b[0:], 9)
	binary.BigEndian.PutUint16(b[2:], count)
	binary.BigEndian.PutUint32(b[4:], 1000)
	binary.BigEndian.PutUint32(b[8:], 1700000000)
	binary.BigEndian.PutUint32(b[12:], 1)
	binary.BigEndian.PutUint32(b[16:], dom)
	return b
}

func v9Template(tid uint16) []byte {
	b := v9Header(1, 7)
	set := []byte{0, 0, 0, 12, byte(tid >> 8), byte(tid), 0, 1, 0, 8, 0, 4}
	return append(b, set...)
}

// a template set followed by a set with a reserved id: the template is announced, then the datagram is refused
func v9TemplateBad(tid uint16) []byte {
	b := v9Header(2, 7)
	set := []byte{0, 0, 0, 12, byte(tid >> 8), byte(tid), 0, 1, 0, 8, 0, 4}
	bad := []byte{0, 100, 0, 8, 1, 2, 3, 4}
	return append(append(b, set...), bad...)
}

// parkTS: a template system whose AddTemplate of template 256 is a schedule point of its own — after the
// per-exporter system has been published, in the middle of decoding the first datagram
type parkTS struct {
	netflow.NetFlowTemplateSystem
	ctl  *raceCtl
	once *sync.Once
}

func (p *parkTS) AddTemplate(version uint16, obsDomainId uint32, templateId uint16, template interface{}) error {
	err := p.NetFlowTemplateSystem.AddTemplate(version, obsDomainId, templateId, template)
	if templateId == 256 {
		p.once.Do(func() { p.ctl.park() })
	}
	return err
}

// v9 options template `tid` with one 4-byte option
func v9OptionsTemplate(tid uint16) []byte {
	b := v9Header(1, 7)
	set := []byte{0, 1, 0, 16, byte(tid >> 8), byte(tid), 0, 0, 0, 4, 0, 34, 0, 4, 0, 0}
	return append(b, set...)
}

// stepTS: an inner template store in which every call made by one chosen goroutine is a schedule point (it parks
// after the call has taken effect). Used to probe the atomicity of whatever wraps it (the Prometheus template
// system of cmd/goflow2): between any two steps of an announcement another worker's lookup must not fail.
type stepTS struct {
	netflow.NetFlowTemplateSystem
	ctl   *raceCtl
	owner *int
}

func (p *stepTS) step() {
	if p.owner != nil && *p.owner == goid() {
		p.ctl.park()
	}
}

func (p *stepTS) AddTemplate(version uint16, obsDomainId uint32, templateId uint16, template interface{}) error {
	err := p.NetFlowTemplateSystem.AddTemplate(version, obsDomainId, templateId, template)
	p.step()
	return err
}

func (p *stepTS) RemoveTemplate(version uint16, obsDomainId uint32, templateId uint16) (interface{}, error) {
	t, err := p.NetFlowTemplateSystem.RemoveTemplate(version, obsDomainId, templateId)
	p.step()
	return t, err
}

func (p *stepTS) GetTemplate(version uint16, obsDomainId uint32, templateId uint16) (interface{}, error) {
	t, err := p.NetFlowTemplateSystem.GetTemplate(version, obsDomainId, templateId)
	p.step()
	return t, err
}

// race tplatomic <mode> -: the exporter has announced template 256 (mode o2d: as an options template, d2o: as a data
// template, same: as a data template); worker A re-announces it (as the other kind / the same kind) on the
// Prometheus-instrumented template system; at every step of A inside the inner store, worker B processes a data set
// of template 256. B must never see "template not found": a template for the key is known at every moment.
func opTplAtomic(mode string) []string {
	ctl := &raceCtl{parked: make(chan *gate, 4)}
	src := netip.MustParseAddrPort("10.1.2.3:4000")
	cfg, _ := (*protoproducer.ProducerConfig)(nil).Compile()
	prod, _ := protoproducer.CreateProtoProducer(cfg, protoproducer.CreateSamplingSystem)
	capf := &captureFormat{}
	owner := -1
	pipe := utils.NewNetFlowPipe(&utils.PipeConfig{Format: capf, Producer: prod,
		NetFlowTemplater: func(key string) netflow.NetFlowTemplateSystem {
			return metrics.NewPromTemplateSystem(key, &stepTS{NetFlowTemplateSystem: netflow.CreateTemplateSystem(), ctl: ctl, owner: &owner})
		}})
	first, second := v9OptionsTemplate(256), v9Template(256)
	switch mode {
	case "o2d":
	case "d2o":
		first, second = v9Template(256), v9OptionsTemplate(256)
	case "same":
		first = v9Template(256)
	default:
		return []string{"bad-op"}
	}
	if err := pipe.DecodeFlow(&utils.Message{Src: src, Payload: first, Received: time.Unix(1, 0)}); err != nil {
		return []string{"res err # prologue: " + err.Error()}
	}
	done := make(chan error, 1)
	ready := make(chan struct{})
	go func() {
		owner = goid()
		close(ready)
		done <- pipe.DecodeFlow(&utils.Message{Src: src, Payload: second, Received: time.Unix(2, 0)})
	}()
	<-ready
	probes, missing := 0, 0
	probe := func() {
		probes++
		err := pipe.DecodeFlow(&utils.Message{Src: src, Payload: v9Data(256), Received: time.Unix(3, 0)})
		if err != nil && errors.Is(err, netflow.ErrorTemplateNotFound) {
			missing++
		}
	}
	for {
		select {
		case g := <-ctl.parked:
			probe()
			close(g.release)
			continue
		case <-done:
		case <-time.After(3 * time.Second):
			return []string{"res timeout"}
		}
		break
	}
	probe()
	lost := ""
	if missing > 0 {
		lost = "1"
	}
	fmt.Fprintf(os.Stderr, "tplatomic %s: probes=%d missing=%d\n", mode, probes, missing)
	return []string{fmt.Sprintf("res ok lost=[%s]", lost)}
}

func v9Data(tid uint16) []byte {
	b := v9Header(1, 7)
	set := []byte{byte(tid >> 8), byte(tid), 0, 8, 10, 0, 0, 1}
	return append(b, set...)
}

// race <tpl|rate> <n> <plan>: run n workers on the first datagrams of a new exporter, parking each
// inside the public factory callback; S<i> starts worker i and waits until it is parked or has
// returned, R<i> releases it and waits for its return. Afterwards the follow-up datagrams are
// processed sequentially; `lost` lists the workers whose announcement is not seen.
func opRace(st *state, args []string) []string {
	if len(args) != 3 {
		return []string{"bad-op"}
	}
	if args[0] == "tplatomic" {
		return opTplAtomic(args[1])
	}
	if args[0] == "tplstress" || args[0] == "ratestress" {
		return opStoreStress(args[0], args[1])
	}
	n, err := strconv.Atoi(args[1])
	if err != nil || n < 1 || n > 8 {
		return []string{"bad-op"}
	}
	ctl := &raceCtl{parked: make(chan *gate, n)}
	src := netip.MustParseAddrPort("10.1.2.3:4000")
	cfg, _ := (*protoproducer.ProducerConfig)(nil).Compile()

	var work func(i int) error
	var visible func(i int) bool

	switch args[0] {
	case "tpl":
		prod, _ := protoproducer.CreateProtoProducer(cfg, protoproducer.CreateSamplingSystem)
		capf := &captureFormat{}
		pipe := utils.NewNetFlowPipe(&utils.PipeConfig{Format: capf, Producer: prod,
			NetFlowTemplater: func(key string) netflow.NetFlowTemplateSystem {
				ctl.park()
				return netflow.CreateTemplateSystem()
			}})
		work = func(i int) error {
			return pipe.DecodeFlow(&utils.Message{Src: src, Payload: v9Template(uint16(256 + i)), Received: time.Unix(1, 0)})
		}
		visible = func(i int) bool {
			return pipe.DecodeFlow(&utils.Message{Src: src, Payload: v9Data(uint16(256 + i)), Received: time.Unix(2, 0)}) == nil
		}
	case "tplx":
		// every worker is the first datagram of a DIFFERENT new exporter (its own source port): the registrations of
		// two exporters at the same moment must both survive
		prod, _ := protoproducer.CreateProtoProducer(cfg, protoproducer.CreateSamplingSystem)
		capf := &captureFormat{}
		pipe := utils.NewNetFlowPipe(&utils.PipeConfig{Format: capf, Producer: prod,
			NetFlowTemplater: func(key string) netflow.NetFlowTemplateSystem {
				ctl.park()
				return netflow.CreateTemplateSystem()
			}})
		srcOf := func(i int) netip.AddrPort { return netip.AddrPortFrom(src.Addr(), uint16(4000+i)) }
		work = func(i int) error {
			return pipe.DecodeFlow(&utils.Message{Src: srcOf(i), Payload: v9Template(uint16(256 + i)), Received: time.Unix(1, 0)})
		}
		visible = func(i int) bool {
			return pipe.DecodeFlow(&utils.Message{Src: srcOf(i), Payload: v9Data(uint16(256 + i)), Received: time.Unix(2, 0)}) == nil
		}
	case "ratex":
		// the same for the producer's per-address sampling systems: every worker announces a rate from its own address
		prod, _ := protoproducer.CreateProtoProducer(cfg, func() protoproducer.SamplingRateSystem {
			ctl.park()
			return protoproducer.CreateSamplingSystem()
		})
		argsOf := func(i int) *producer.ProduceArgs {
			a := netip.AddrFrom4([4]byte{10, 9, 8, byte(1 + i)})
			return &producer.ProduceArgs{Src: netip.AddrPortFrom(a, 4000), SamplerAddress: a, TimeReceived: time.Unix(1, 0)}
		}
		work = func(i int) error {
			v := make([]byte, 4)
			binary.BigEndian.PutUint32(v, uint32(100+i))
			pkt := &netflow.IPFIXPacket{Version: 10, ObservationDomainId: 7, FlowSets: []interface{}{
				netflow.OptionsDataFlowSet{Records: []netflow.OptionsDataRecord{{OptionsValues: []netflow.DataField{{Type: 34, Value: v}}}}}}}
			set, err := prod.Produce(pkt, argsOf(i))
			prod.Commit(set)
			return err
		}
		visible = func(i int) bool {
			pkt := &netflow.IPFIXPacket{Version: 10, ObservationDomainId: 7, FlowSets: []interface{}{
				netflow.DataFlowSet{Records: []netflow.DataRecord{{Values: []netflow.DataField{{Type: 1, Value: []byte{0, 0, 0, 5}}}}}}}}
			set, err := prod.Produce(pkt, argsOf(i))
			defer prod.Commit(set)
			if err != nil || len(set) != 1 {
				return false
			}
			m, ok := set[0].(*protoproducer.ProtoProducerMessage)
			return ok && m.SamplingRate == uint64(100+i)
		}
	case "tplbad":
		// worker 0's datagram announces template 256 and is then refused; it is parked a second time inside
		// AddTemplate, i.e. after the exporter's template system was published. The others announce 256+i.
		prod, _ := protoproducer.CreateProtoProducer(cfg, protoproducer.CreateSamplingSystem)
		capf := &captureFormat{}
		once := &sync.Once{}
		pipe := utils.NewNetFlowPipe(&utils.PipeConfig{Format: capf, Producer: prod,
			NetFlowTemplater: func(key string) netflow.NetFlowTemplateSystem {
				ctl.park()
				return &parkTS{NetFlowTemplateSystem: netflow.CreateTemplateSystem(), ctl: ctl, once: once}
			}})
		work = func(i int) error {
			if i == 0 {
				pipe.DecodeFlow(&utils.Message{Src: src, Payload: v9TemplateBad(256), Received: time.Unix(1, 0)})
				return fmt.Errorf("refused") // its own announcement is C06's subject, not checked here
			}
			return pipe.DecodeFlow(&utils.Message{Src: src, Payload: v9Template(uint16(256 + i)), Received: time.Unix(1, 0)})
		}
		visible = func(i int) bool {
			return pipe.DecodeFlow(&utils.Message{Src: src, Payload: v9Data(uint16(256 + i)), Received: time.Unix(2, 0)}) == nil
		}
	case "rate":
		prod, _ := protoproducer.CreateProtoProducer(cfg, func() protoproducer.SamplingRateSystem {
			ctl.park()
			return protoproducer.CreateSamplingSystem()
		})
		pargs := &producer.ProduceArgs{Src: src, SamplerAddress: src.Addr(), TimeReceived: time.Unix(1, 0)}
		work = func(i int) error {
			v := make([]byte, 4)
			binary.BigEndian.PutUint32(v, uint32(100+i))
			pkt := &netflow.IPFIXPacket{Version: 10, ObservationDomainId: uint32(i), FlowSets: []interface{}{
				netflow.OptionsDataFlowSet{Records: []netflow.OptionsDataRecord{{OptionsValues: []netflow.DataField{{Type: 34, Value: v}}}}}}}
			set, err := prod.Produce(pkt, pargs)
			prod.Commit(set)
			return err
		}
		visible = func(i int) bool {
			pkt := &netflow.IPFIXPacket{Version: 10, ObservationDomainId: uint32(i), FlowSets: []interface{}{
				netflow.DataFlowSet{Records: []netflow.DataRecord{{Values: []netflow.DataField{{Type: 1, Value: []byte{0, 0, 0, 5}}}}}}}}
			set, err := prod.Produce(pkt, pargs)
			defer prod.Commit(set)
			if err != nil || len(set) != 1 {
				return false
			}
			m, ok := set[0].(*protoproducer.ProtoProducerMessage)
			return ok && m.SamplingRate == uint64(100+i)
		}
	default:
		return []string{"bad-op"}
	}

	done := make([]chan error, n)
	gates := make([]*gate, n)
	finished := make([]bool, n)
	results := make([]error, n)
	started := make([]bool, n)
	for _, ev := range strings.Split(args[2], ",") {
		if len(ev) < 2 {
			return []string{"bad-op"}
		}
		i, err := strconv.Atoi(ev[1:])
		if err != nil || i < 0 || i >= n {
			return []string{"bad-op"}
		}
		switch ev[0] {
		case 'S':
			if started[i] {
				return []string{"bad-op"}
			}
			started[i] = true
			done[i] = make(chan error, 1)
			go func(i int) { done[i] <- work(i) }(i)
			select {
			case g := <-ctl.parked:
				gates[i] = g
			case e := <-done[i]:
				results[i] = e
				finished[i] = true
			case <-time.After(3 * time.Second):
				return []string{"res timeout"}
			}
		case 'R':
			if !started[i] {
				return []string{"bad-op"}
			}
			if finished[i] {
				continue
			}
			if gates[i] != nil {
				close(gates[i].release)
				gates[i] = nil
			}
			// until it returns or reaches its next schedule point (every other worker is parked or done)
			select {
			case e := <-done[i]:
				results[i] = e
				finished[i] = true
			case g := <-ctl.parked:
				gates[i] = g
			case <-time.After(3 * time.Second):
				return []string{"res timeout"}
			}
		default:
			return []string{"bad-op"}
		}
	}
	// the follow-up must not park: open the gate for any further factory call
	go func() {
		for g := range ctl.parked {
			close(g.release)
		}
	}()
	// whatever is still parked when the plan ends runs to its end now
	for i := 0; i < n; i++ {
		if started[i] && !finished[i] {
			select {
			case e := <-done[i]:
				results[i] = e
				finished[i] = true
			case <-time.After(3 * time.Second):
				return []string{"res timeout"}
			}
		}
	}
	var lost []int
	for i := 0; i < n; i++ {
		if finished[i] && (args[0] != "tplbad" || results[i] == nil) && !visible(i) {
			lost = append(lost, i)
		}
	}
	close(ctl.parked)
	sort.Ints(lost)
	ls := make([]string, len(lost))
	for k, v := range lost {
		ls[k] = strconv.Itoa(v)
	}
	return []string{fmt.Sprintf("res ok lost=[%s]", strings.Join(ls, ","))}
}

// race tplstress|ratestress <rounds> -: unscheduled announcements of ONE known exporter by several workers at the same
// moment (the real template system / sampling system, no factory callbacks): per round 2..4 workers are released together,
// each announces a template id (a rate for an observation domain) of its own; afterwards every announcement must be
// there. A store whose update is read-copy-publish without holding the lock over all three loses announcements here.
func opStoreStress(kind, roundsArg string) []string {
	rounds, err := strconv.Atoi(roundsArg)
	if err != nil || rounds < 1 || rounds > 5000 {
		return []string{"bad-op"}
	}
	if runtime.GOMAXPROCS(0) < 2 {
		defer runtime.GOMAXPROCS(runtime.GOMAXPROCS(2))
	}
	cfg, _ := (*protoproducer.ProducerConfig)(nil).Compile()
	src := netip.MustParseAddrPort("10.1.2.3:4000")
	prod, _ := protoproducer.CreateProtoProducer(cfg, protoproducer.CreateSamplingSystem)
	capf := &captureFormat{}
	pipe := utils.NewNetFlowPipe(&utils.PipeConfig{Format: capf, Producer: prod})
	pargs := &producer.ProduceArgs{Src: src, SamplerAddress: src.Addr(), TimeReceived: time.Unix(1, 0)}
	// first contact happens before the workers exist
	pipe.DecodeFlow(&utils.Message{Src: src, Payload: v9Template(255), Received: time.Unix(1, 0)})
	lostSet := map[int]bool{}
	for r := 0; r < rounds; r++ {
		k := 2 + r%3
		start := make(chan struct{})
		var wg sync.WaitGroup
		for i := 0; i < k; i++ {
			wg.Add(1)
			go func(i int) {
				defer wg.Done()
				id := 256 + (r*4+i)%60000
				<-start
				if kind == "tplstress" {
					pipe.DecodeFlow(&utils.Message{Src: src, Payload: v9Template(uint16(id)), Received: time.Unix(1, 0)})
				} else {
					v := make([]byte, 4)
					binary.BigEndian.PutUint32(v, uint32(id))
					pkt := &netflow.IPFIXPacket{Version: 10, ObservationDomainId: uint32(id), FlowSets: []interface{}{
						netflow.OptionsDataFlowSet{Records: []netflow.OptionsDataRecord{{OptionsValues: []netflow.DataField{{Type: 34, Value: v}}}}}}}
					set, _ := prod.Produce(pkt, pargs)
					prod.Commit(set)
				}
			}(i)
		}
		close(start)
		wg.Wait()
		for i := 0; i < k; i++ {
			id := 256 + (r*4+i)%60000
			ok := false
			if kind == "tplstress" {
				ok = pipe.DecodeFlow(&utils.Message{Src: src, Payload: v9Data(uint16(id)), Received: time.Unix(2, 0)}) == nil
			} else {
				pkt := &netflow.IPFIXPacket{Version: 10, ObservationDomainId: uint32(id), FlowSets: []interface{}{
					netflow.DataFlowSet{Records: []netflow.DataRecord{{Values: []netflow.DataField{{Type: 1, Value: []byte{0, 0, 0, 5}}}}}}}}
				set, err := prod.Produce(pkt, pargs)
				if err == nil && len(set) == 1 {
					if m, isM := set[0].(*protoproducer.ProtoProducerMessage); isM && m.SamplingRate == uint64(id) {
						ok = true
					}
				}
				prod.Commit(set)
			}
			if !ok {
				lostSet[i] = true
			}
		}
	}
	var lost []string
	for i := 0; i < 4; i++ {
		if lostSet[i] {
			lost = append(lost, strconv.Itoa(i))
		}
	}
	return []string{"res ok lost=[" + strings.Join(lost, ",") + "]"}
}
