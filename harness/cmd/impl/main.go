// impl: executes an op file against the real goflow2 packages and prints one
// canonical block per op (terminated by "end"), the same protocol the Lean
// driver `goflow-model run` speaks. A per-op watchdog prints "res timeout" and
// exits with status 3 (a runaway goroutine cannot be stopped from inside).
package main

import (
	"bufio"
	"bytes"
	"encoding/hex"
	"fmt"
	"os"
	"strconv"
	"strings"
	"time"

	"github.com/netsampler/goflow2/v2/decoders/netflowlegacy"

	"verifharness/internal/canon"
)

var out *bufio.Writer
var watchdog = 5 * time.Second

func unhex(s string) ([]byte, bool) {
	if s == "-" {
		return []byte{}, true
	}
	b, err := hex.DecodeString(s)
	return b, err == nil
}

func resErr(err error) string {
	return classify(err) + " # " + strings.ReplaceAll(err.Error(), "\n", " | ")
}

type state struct {
	extra map[string]interface{}
}

func newState() *state { return &state{extra: map[string]interface{}{}} }

func execCall(st *state, args []string) []string {
	if len(args) == 0 {
		return []string{"bad-op"}
	}
	switch args[0] {
	case "v5":
		if len(args) != 2 {
			return []string{"bad-op"}
		}
		d, ok := unhex(args[1])
		if !ok {
			return []string{"bad-op"}
		}
		var p netflowlegacy.PacketNetFlowV5
		if err := netflowlegacy.DecodeMessageVersion(bytes.NewBuffer(d), &p); err != nil {
			return []string{resErr(err)}
		}
		return []string{"res ok", "v5 " + canon.Dump(p)}
	case "v5r":
		// the same, decoding into ONE packet value kept across calls (a caller that recycles its packet): the result is the
		// datagram's header and records and nothing of what the value held before
		if len(args) != 2 {
			return []string{"bad-op"}
		}
		d, ok := unhex(args[1])
		if !ok {
			return []string{"bad-op"}
		}
		p, _ := st.extra["v5r"].(*netflowlegacy.PacketNetFlowV5)
		if p == nil {
			p = &netflowlegacy.PacketNetFlowV5{}
			st.extra["v5r"] = p
		}
		if err := netflowlegacy.DecodeMessageVersion(bytes.NewBuffer(d), p); err != nil {
			return []string{resErr(err)}
		}
		return []string{"res ok", "v5 " + canon.Dump(*p)}
	}
	if f, ok := calls[args[0]]; ok {
		return f(st, args[1:])
	}
	return []string{"bad-op"}
}

var calls = map[string]func(st *state, args []string) []string{}
var ops = map[string]func(st *state, args []string) []string{}

func execOp(st *state, line string) (res []string, produced bool) {
	ws := strings.Fields(line)
	if len(ws) == 0 || ws[0] == "#" || ws[0] == "expect" {
		return nil, false
	}
	defer func() {
		if r := recover(); r != nil {
			res = []string{fmt.Sprintf("res panic # %v", r)}
			produced = true
		}
	}()
	switch ws[0] {
	case "call":
		return execCall(st, ws[1:]), true
	}
	if f, ok := ops[ws[0]]; ok {
		return f(st, ws[1:]), true
	}
	return []string{"bad-op"}, true
}

func main() {
	if v := os.Getenv("VERIF_WATCHDOG_MS"); v != "" {
		if n, err := strconv.Atoi(v); err == nil {
			watchdog = time.Duration(n) * time.Millisecond
		}
	}
	in := bufio.NewReaderSize(os.Stdin, 1<<20)
	out = bufio.NewWriterSize(os.Stdout, 1<<16)
	defer out.Flush()
	st := newState()
	type result struct {
		lines    []string
		produced bool
	}
	for {
		line, err := in.ReadString('\n')
		if len(line) == 0 && err != nil {
			break
		}
		line = strings.TrimRight(line, "\r\n")
		ch := make(chan result, 1)
		go func() {
			l, p := execOp(st, line)
			ch <- result{l, p}
		}()
		select {
		case r := <-ch:
			if r.produced {
				for _, l := range r.lines {
					// drop the human-readable tail after " # " on res lines
					if strings.HasPrefix(l, "res ") {
						if i := strings.Index(l, " # "); i >= 0 {
							fmt.Fprintln(os.Stderr, l)
							l = l[:i]
						}
					}
					out.WriteString(l)
					out.WriteByte('\n')
				}
				out.WriteString("end\n")
				out.Flush()
			}
		case <-time.After(watchdog):
			out.WriteString("res timeout\nend\n")
			out.Flush()
			os.Exit(3)
		}
		if err != nil {
			break
		}
	}
}
