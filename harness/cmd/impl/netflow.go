package main

import (
	"bytes"

	"github.com/netsampler/goflow2/v2/decoders/netflow"

	"verifharness/internal/canon"
)

func init() {
	calls["nf"] = callNF
	ops["reset"] = func(st *state, args []string) []string {
		*st = *newState()
		return []string{"res ok"}
	}
}

func (st *state) templates(sid string) netflow.NetFlowTemplateSystem {
	k := "tpl:" + sid
	if t, ok := st.extra[k]; ok {
		return t.(netflow.NetFlowTemplateSystem)
	}
	t := netflow.CreateTemplateSystem()
	st.extra[k] = t
	return t
}

// call nf <store-id> <hex>: netflow.DecodeMessageVersion on a per-id template system
func callNF(st *state, args []string) []string {
	if len(args) != 2 {
		return []string{"bad-op"}
	}
	d, ok := unhex(args[1])
	if !ok {
		return []string{"bad-op"}
	}
	var p9 netflow.NFv9Packet
	var p10 netflow.IPFIXPacket
	err := netflow.DecodeMessageVersion(bytes.NewBuffer(d), st.templates(args[0]), &p9, &p10)
	cls := classify(err)
	if cls == "res err" {
		return []string{resErr(err)}
	}
	var dump string
	if p9.Version == 9 {
		dump = canon.Dump(p9)
	} else {
		dump = canon.Dump(p10)
	}
	var raw []string
	if p9.Version == 9 {
		raw = rawFaithful(&p9, "netflowv9")
	} else {
		raw = rawFaithful(&p10, "ipfix")
	}
	if err != nil {
		return append([]string{resErr(err), "nf " + dump}, raw...)
	}
	return append([]string{"res ok", "nf " + dump}, raw...)
}
