package main

import (
	protoproducer "github.com/netsampler/goflow2/v2/producer/proto"
)

func init() {
	// call parsepacket <cid> <hex>: the packet mapper of the compiled configuration on an empty message
	calls["parsepacket"] = func(st *state, args []string) []string {
		if len(args) != 2 {
			return []string{"bad-op"}
		}
		d, ok := unhex(args[1])
		if !ok {
			return []string{"bad-op"}
		}
		cfg, ok := cfgs[args[0]]
		if !ok {
			return []string{"bad-op"}
		}
		var m protoproducer.ProtoProducerMessage
		if err := cfg.GetPacketMapper().ParsePacket(&m, d); err != nil {
			return []string{resErr(err)}
		}
		return []string{"res ok", dumpMsg(&m)}
	}
}
