package main

import (
	"bytes"
	"encoding/json"
	"fmt"
	"net/netip"
	"sync"
	"time"

	"github.com/netsampler/goflow2/v2/decoders/netflowlegacy"
	"github.com/netsampler/goflow2/v2/producer"
	rawproducer "github.com/netsampler/goflow2/v2/producer/raw"
)

func init() { calls["rawv5"] = callRawV5 }

// call rawv5 <hex>: the datagram through DecodeMessageVersion and the raw producer, printed by encoding/json (the
// `-produce raw -format json` path). The same message is then marshalled by several goroutines at once, next to a
// variant with other addresses: what a worker prints must not depend on what another worker prints at that moment.
func callRawV5(st *state, args []string) []string {
	if len(args) != 1 {
		return []string{"bad-op"}
	}
	d, ok := unhex(args[0])
	if !ok {
		return []string{"bad-op"}
	}
	var p netflowlegacy.PacketNetFlowV5
	if err := netflowlegacy.DecodeMessageVersion(bytes.NewBuffer(d), &p); err != nil {
		return []string{resErr(err)}
	}
	pargs := &producer.ProduceArgs{Src: netip.MustParseAddrPort("10.0.0.1:2055"), TimeReceived: time.Unix(1700000000, 0).UTC()}
	rp := &rawproducer.RawProducer{}
	msgs, err := rp.Produce(&p, pargs)
	if err != nil || len(msgs) != 1 {
		return []string{resErr(fmt.Errorf("raw producer: %v, %d messages", err, len(msgs)))}
	}
	seq, err := json.Marshal(msgs[0])
	if err != nil {
		return []string{resErr(err)}
	}
	out := []string{"res ok", "json " + string(seq)}
	// the variant: every address complemented
	q := p
	q.Records = append([]netflowlegacy.RecordsNetFlowV5(nil), p.Records...)
	for i := range q.Records {
		q.Records[i].SrcAddr ^= 0xffffffff
		q.Records[i].DstAddr ^= 0xffffffff
		q.Records[i].NextHop ^= 0xffffffff
	}
	qm, _ := rp.Produce(&q, pargs)
	qseq, _ := json.Marshal(qm[0])
	if len(p.Records) == 0 {
		return out
	}
	var wg sync.WaitGroup
	var mu sync.Mutex
	differs := 0
	for g := 0; g < 4; g++ {
		wg.Add(1)
		go func(g int) {
			defer wg.Done()
			m, want := msgs[0], seq
			if g%2 == 1 {
				m, want = qm[0], qseq
			}
			for k := 0; k < 60; k++ {
				b, err := json.Marshal(m)
				if err != nil || !bytes.Equal(b, want) {
					mu.Lock()
					differs++
					mu.Unlock()
				}
			}
		}(g)
	}
	wg.Wait()
	if differs > 0 {
		out = append(out, fmt.Sprintf("concurrent-differs %d", differs))
	}
	return out
}
