package main

import (
	"flag"
	"fmt"
	"os"
	"reflect"
	"sort"
	"strconv"
	"sync"
	"time"
	"unsafe"

	"github.com/Shopify/sarama"
	"github.com/netsampler/goflow2/v2/transport"
	_ "github.com/netsampler/goflow2/v2/transport/kafka"
)

func init() {
	ops["kafka"] = opKafka
}

type quietReporter struct{ msgs []string }

func (q *quietReporter) Error(a ...interface{}) { q.msgs = append(q.msgs, fmt.Sprint(a...)) }
func (q *quietReporter) Errorf(f string, a ...interface{}) {
	q.msgs = append(q.msgs, fmt.Sprintf(f, a...))
}
func (q *quietReporter) Fatal(a ...interface{}) { q.msgs = append(q.msgs, fmt.Sprint(a...)) }
func (q *quietReporter) Fatalf(f string, a ...interface{}) {
	q.msgs = append(q.msgs, fmt.Sprintf(f, a...))
}

type rec struct {
	key, val  string
	partition int32
}

// produced records of a mock broker's history (ProduceRequest.records is unexported)
func producedRecords(b *sarama.MockBroker) []rec {
	var out []rec
	for _, rr := range b.History() {
		pr, ok := rr.Request.(*sarama.ProduceRequest)
		if !ok {
			continue
		}
		rv := reflect.ValueOf(pr).Elem().FieldByName("records")
		if !rv.IsValid() {
			continue
		}
		rv = reflect.NewAt(rv.Type(), unsafe.Pointer(rv.UnsafeAddr())).Elem()
		m, ok := rv.Interface().(map[string]map[int32]sarama.Records)
		if !ok {
			continue
		}
		for _, parts := range m {
			for p, rs := range parts {
				if rs.RecordBatch != nil {
					for _, r := range rs.RecordBatch.Records {
						out = append(out, rec{string(r.Key), string(r.Value), p})
					}
				}
				if rs.MsgSet != nil {
					for _, mb := range rs.MsgSet.Messages {
						out = append(out, rec{string(mb.Msg.Key), string(mb.Msg.Value), p})
					}
				}
			}
		}
	}
	return out
}

// kafka <n> <hashing> <flushbytes> <fault> <keys>: send n messages through the real Kafka transport
// to an in-process mock broker. fault ∈ none | produce-error | broker-closed
func opKafka(st *state, args []string) []string {
	if len(args) != 5 {
		return []string{"bad-op"}
	}
	n, _ := strconv.Atoi(args[0])
	hashing := args[1] == "1"
	flushBytes, _ := strconv.Atoi(args[2])
	fault := args[3]
	nkeys, _ := strconv.Atoi(args[4])
	if nkeys < 1 {
		nkeys = 1
	}
	rep := &quietReporter{}
	broker := sarama.NewMockBroker(rep, 1)
	brokerClosed := false
	defer func() {
		if !brokerClosed {
			broker.Close()
		}
	}()
	topic := "verif-topic"
	meta := sarama.NewMockMetadataResponse(rep).SetBroker(broker.Addr(), broker.BrokerID())
	for p := int32(0); p < 4; p++ {
		meta.SetLeader(topic, p, broker.BrokerID())
	}
	prod := sarama.NewMockProduceResponse(rep).SetVersion(3)
	if fault == "produce-error" {
		for p := int32(0); p < 4; p++ {
			prod.SetError(topic, p, sarama.ErrInvalidMessage) // not retriable
		}
	}
	broker.SetHandlerByMap(map[string]sarama.MockResponse{"MetadataRequest": meta, "ProduceRequest": prod, "ApiVersionsRequest": sarama.NewMockApiVersionsResponse(rep)})

	flag.Set("transport.kafka.brokers", broker.Addr())
	flag.Set("transport.kafka.topic", topic)
	flag.Set("transport.kafka.hashing", strconv.FormatBool(hashing))
	flag.Set("transport.kafka.flushbytes", strconv.Itoa(flushBytes))
	flag.Set("transport.kafka.flushfreq", "50ms")
	flag.Set("transport.kafka.version", "0.11.0.0")
	tr, err := transport.FindTransport("kafka")
	if err != nil {
		return []string{resErr(err)}
	}
	// a draining reader on the transport's error stream
	errSeen := 0
	var emu sync.Mutex
	stopDrain := make(chan struct{})
	if ec, ok := interface{}(tr.TransportDriver).(interface{ Errors() <-chan error }); ok {
		go func() {
			for {
				select {
				case e := <-ec.Errors():
					if e == nil {
						// cmd/goflow2/main.go stops listening at the nil end marker: nobody reads the stream from here on
						return
					}
					if e != nil {
						emu.Lock()
						if errSeen == 0 {
							fmt.Fprintf(os.Stderr, "kafka first error: %v\n", e)
						}
						errSeen++
						emu.Unlock()
					}
				case <-stopDrain:
					return
				}
			}
		}()
	}
	sent := map[string]int{}
	sizes := []int{1, 10, 100, 1000, 5000}
	for i := 0; i < n; i++ {
		key := fmt.Sprintf("k%d", i%nkeys)
		if i%nkeys == 0 {
			key = "" // what the format drivers hand over when no key field is configured
		}
		val := fmt.Sprintf("v%06d:%s", i, string(make([]byte, sizes[i%len(sizes)])))
		sent[key+"\x00"+val]++
		if fault == "broker-closed" && i == n/2 {
			broker.Close()
			brokerClosed = true
		}
		sendDone := make(chan error, 1)
		kb := []byte(key)
		if key == "" && i%2 == 1 {
			kb = nil
		}
		go func() { sendDone <- tr.Send(kb, []byte(val)) }()
		select {
		case <-sendDone:
		case <-time.After(5 * time.Second):
			close(stopDrain)
			return []string{"res timeout"}
		}
	}
	closeDone := make(chan error, 1)
	go func() { closeDone <- tr.Close() }()
	closed := "ok"
	select {
	case <-closeDone:
	case <-time.After(20 * time.Second):
		closed = "timeout"
	}
	time.Sleep(20 * time.Millisecond)
	close(stopDrain)
	emu.Lock()
	es := errSeen
	emu.Unlock()
	var recs []rec
	if !brokerClosed {
		recs = producedRecords(broker)
	}
	got := map[string]int{}
	keyPart := map[string]map[int32]bool{}
	corrupt := 0
	for _, r := range recs {
		k := r.key + "\x00" + r.val
		got[k]++
		if sent[k] == 0 {
			corrupt++
		}
		if keyPart[r.key] == nil {
			keyPart[r.key] = map[int32]bool{}
		}
		keyPart[r.key][r.partition] = true
	}
	delivered := "ok"
	if fault == "none" {
		for k, c := range sent {
			if got[k] != c {
				delivered = "mismatch"
			}
		}
		for k, c := range got {
			if sent[k] != c {
				delivered = "mismatch"
			}
		}
	}
	partitions := "ok"
	if hashing && fault == "none" {
		var ks []string
		for k := range keyPart {
			ks = append(ks, k)
		}
		sort.Strings(ks)
		for _, k := range ks {
			if len(keyPart[k]) > 1 {
				partitions = "split"
			}
		}
	}
	errors := "n/a"
	if fault != "none" {
		if es > 0 {
			errors = "seen"
		} else {
			errors = "none"
		}
	}
	fmt.Fprintf(os.Stderr, "kafka stats: sent=%d delivered=%d errors=%d reporter=%d\n", n, len(recs), es, len(rep.msgs))
	return []string{fmt.Sprintf("res ok delivered=%s corrupt=%d partitions=%s closed=%s errors=%s", delivered, corrupt, partitions, closed, errors)}
}
