package main

import (
	"bytes"
	"encoding/json"
	"fmt"
	"reflect"
	"sort"
	"strconv"
	"strings"

	"google.golang.org/protobuf/encoding/protodelim"
	"google.golang.org/protobuf/proto"

	flowpb "github.com/netsampler/goflow2/v2/pb"
	protoproducer "github.com/netsampler/goflow2/v2/producer/proto"

	"verifharness/internal/canon"
)

func init() {
	ops["fmt"] = opFmt
	ops["pktf"] = opPktf
}

func hexStr(s string) string { return canon.Hex([]byte(s)) }

// effectiveEndian: the `endianness` key, or the `endian` spelling when the tree under test knows it
// (looked up by reflection so that the harness also builds against trees without that field)
func effectiveEndian(entry interface{}) string {
	v := reflect.ValueOf(entry)
	e := v.FieldByName("Endian").String()
	if e == "" {
		if f := v.FieldByName("EndianShort"); f.IsValid() {
			e = f.String()
		}
	}
	return e
}

func bit(b bool) string {
	if b {
		return "1"
	}
	return "0"
}

// twinOf re-encodes a loaded mapping file in the twin form of lean/Goflow/Format/Twin.lean
func twinOf(pc *protoproducer.ProducerConfig) string {
	var secs []string
	join := func(tag string, items []string) { secs = append(secs, tag+"="+strings.Join(items, ",")) }
	var it []string
	for _, f := range pc.Formatter.Fields {
		it = append(it, hexStr(f))
	}
	join("F", it)
	it = nil
	for _, f := range pc.Formatter.Key {
		it = append(it, hexStr(f))
	}
	join("K", it)
	it = nil
	var ks []string
	for k := range pc.Formatter.Render {
		ks = append(ks, k)
	}
	sort.Strings(ks)
	for _, k := range ks {
		it = append(it, hexStr(k)+":"+hexStr(string(pc.Formatter.Render[k])))
	}
	join("R", it)
	it, ks = nil, nil
	for k := range pc.Formatter.Rename {
		ks = append(ks, k)
	}
	sort.Strings(ks)
	for _, k := range ks {
		it = append(it, hexStr(k)+":"+hexStr(pc.Formatter.Rename[k]))
	}
	join("N", it)
	it = nil
	for _, p := range pc.Formatter.Protobuf {
		it = append(it, fmt.Sprintf("%s:%d:%s:%s", hexStr(p.Name), p.Index, hexStr(p.Type), bit(p.Array)))
	}
	join("P", it)
	nf := func(ms []protoproducer.NetFlowMapField) []string {
		var it []string
		for _, m := range ms {
			it = append(it, fmt.Sprintf("%s:%d:%d:%s:%s", bit(m.PenProvided), m.Pen, m.Type, hexStr(m.Destination), hexStr(effectiveEndian(m))))
		}
		return it
	}
	join("I", nf(pc.IPFIX.Mapping))
	join("V", nf(pc.NetFlowV9.Mapping))
	it = nil
	for _, m := range pc.SFlow.Mapping {
		it = append(it, fmt.Sprintf("%s:%s:%d:%d:%s:%s", hexStr(m.Layer), bit(m.Encapsulated), m.Offset, m.Length, hexStr(m.Destination), hexStr(effectiveEndian(m))))
	}
	join("L", it)
	it = nil
	for _, p := range pc.SFlow.Ports {
		it = append(it, fmt.Sprintf("%s:%s:%d:%s", hexStr(p.Proto), hexStr(string(p.Dir)), p.Port, hexStr(p.Parser)))
	}
	join("O", it)
	return strings.Join(secs, "/")
}

// parseMsg reads the `msg` dump format back into a message
func parseMsg(toks []string) (*protoproducer.ProtoProducerMessage, bool) {
	m := &protoproducer.ProtoProducerMessage{}
	v := reflect.ValueOf(&m.FlowMessage).Elem()
	for _, tok := range toks {
		name, val, ok := strings.Cut(tok, "=")
		if !ok {
			return nil, false
		}
		if name == "unk" {
			b, ok := unhex(val)
			if !ok {
				return nil, false
			}
			m.ProtoReflect().SetUnknown(b)
			continue
		}
		sf, ok := v.Type().FieldByName(name)
		if !ok || !sf.IsExported() {
			return nil, false
		}
		fv := v.FieldByName(name)
		list := func() ([]string, bool) {
			if !strings.HasPrefix(val, "[") || !strings.HasSuffix(val, "]") {
				return nil, false
			}
			return strings.Split(val[1:len(val)-1], ","), true
		}
		switch fv.Kind() {
		case reflect.Uint32, reflect.Uint64:
			n, err := strconv.ParseUint(val, 10, 64)
			if err != nil {
				return nil, false
			}
			fv.SetUint(n)
		case reflect.Int32:
			n, err := strconv.ParseInt(val, 10, 64)
			if err != nil {
				return nil, false
			}
			fv.SetInt(n)
		case reflect.Slice:
			switch fv.Type().Elem().Kind() {
			case reflect.Uint8:
				b, ok := unhex(val)
				if !ok {
					return nil, false
				}
				fv.SetBytes(b)
			case reflect.Uint32:
				xs, ok := list()
				if !ok {
					return nil, false
				}
				var out []uint32
				for _, x := range xs {
					n, err := strconv.ParseUint(x, 10, 32)
					if err != nil {
						return nil, false
					}
					out = append(out, uint32(n))
				}
				fv.Set(reflect.ValueOf(out))
			case reflect.Int32:
				xs, ok := list()
				if !ok {
					return nil, false
				}
				s := reflect.MakeSlice(fv.Type(), len(xs), len(xs))
				for i, x := range xs {
					n, err := strconv.ParseInt(x, 10, 32)
					if err != nil {
						return nil, false
					}
					s.Index(i).SetInt(n)
				}
				fv.Set(s)
			case reflect.Slice:
				xs, ok := list()
				if !ok {
					return nil, false
				}
				var out [][]byte
				for _, x := range xs {
					b, ok := unhex(x)
					if !ok {
						return nil, false
					}
					out = append(out, b)
				}
				fv.Set(reflect.ValueOf(out))
			default:
				return nil, false
			}
		default:
			return nil, false
		}
	}
	return m, true
}

// fmtLines: the four outputs of one message through the real format drivers' entry points
func fmtLines(m *protoproducer.ProtoProducerMessage) []string { return fmtForms(m).lines() }

// formed keeps the byte slices exactly as the Marshal functions returned them, uncopied — the way an asynchronous
// transport (the Kafka producer takes the slice as it is) holds a formatted record while later records are being
// formatted. The lines are rendered only when the whole datagram has been processed.
type formed struct {
	err             string
	js, tx, bin, ky []byte
	valid           string
	want            *flowpb.FlowMessage // the message as it was when it was formatted
}

// splitVerdict: a stream of two frames read the way cmd/enricher reads it, on the bytes as they are when the
// datagram is done, against the message as it was when it was formatted
func (f *formed) splitVerdict() string {
	bin := f.bin
	split := "ok"
	rd := bytes.NewReader(append(append([]byte{}, bin...), bin...))
	for i := 0; i < 2; i++ {
		var back flowpb.FlowMessage
		if err := protodelim.UnmarshalFrom(rd, &back); err != nil {
			split = "bad"
			break
		}
		if !proto.Equal(&back, f.want) {
			split = "bad"
		}
	}
	if rd.Len() != 0 {
		split = "bad"
	}
	return split
}

func (f *formed) lines() []string {
	if f.err != "" {
		return []string{f.err}
	}
	return []string{
		"json " + canon.Hex(f.js) + " valid=" + f.valid,
		"text " + canon.Hex(f.tx),
		"bin " + canon.Hex(f.bin) + " split=" + f.splitVerdict(),
		"key " + canon.Hex(f.ky),
	}
}

func fmtForms(m *protoproducer.ProtoProducerMessage) *formed {
	js, err1 := m.MarshalJSON()
	tx, err2 := m.MarshalText()
	bin, err3 := m.MarshalBinary()
	key := m.Key()
	if err1 != nil || err2 != nil || err3 != nil {
		return &formed{err: fmt.Sprintf("fmt-error json=%v text=%v bin=%v", err1, err2, err3)}
	}
	valid := "0"
	if json.Valid(js) {
		// the json format driver runs json.Marshal over the message, which re-validates MarshalJSON's output
		if _, err := json.Marshal(m); err == nil {
			valid = "1"
		} else {
			valid = "0"
		}
	}
	return &formed{js: js, tx: tx, bin: bin, ky: key, valid: valid, want: proto.Clone(&m.FlowMessage).(*flowpb.FlowMessage)}
}

func formatterOf(cid string) (protoproducer.FormatterMapper, error) {
	cfg, ok := cfgs[cid]
	if !ok {
		c, err := (*protoproducer.ProducerConfig)(nil).Compile()
		if err != nil {
			return nil, err
		}
		cfg = c
	}
	return cfg.GetFormatter(), nil
}

// fmt <cid> Col=val … [unk=hex]
func opFmt(st *state, args []string) []string {
	if len(args) < 1 {
		return []string{"bad-op"}
	}
	m, ok := parseMsg(args[1:])
	if !ok {
		return []string{"bad-op"}
	}
	f, err := formatterOf(args[0])
	if err != nil {
		return []string{resErr(err)}
	}
	m.VerifSetFormatter(f)
	return append([]string{"res ok"}, fmtLines(m)...)
}

// pktf: `pkt`, each message followed by its four output forms
func opPktf(st *state, args []string) []string {
	if len(args) != 5 {
		return []string{"bad-op"}
	}
	pe, ok := st.extra["pipe:"+args[0]].(*pipeEntry)
	if !ok {
		return []string{"bad-op"}
	}
	pe.cap.full = true
	defer func() { pe.cap.full = false }()
	return opPkt(st, args)
}

func init() {
	ops["keypair"] = opKeypair
	calls["getbytes"] = callGetBytes
	calls["getbytesall"] = callGetBytesAll
	calls["jsonvalid"] = callJSONValid
}

// jsonvalid <hex>: encoding/json's verdict on arbitrary bytes (the reference for the model's JSON recogniser)
func callJSONValid(st *state, args []string) []string {
	if len(args) != 1 {
		return []string{"bad-op"}
	}
	d, ok := unhex(args[0])
	if !ok {
		return []string{"bad-op"}
	}
	if json.Valid(d) {
		return []string{"res ok", "valid=1"}
	}
	return []string{"res ok", "valid=0"}
}

// keypair <cid> <msg1 tokens> | <msg2 tokens>: the partition keys of two messages
func opKeypair(st *state, args []string) []string {
	if len(args) < 1 {
		return []string{"bad-op"}
	}
	cut := -1
	for i, a := range args {
		if a == "|" {
			cut = i
			break
		}
	}
	if cut < 0 {
		return []string{"bad-op"}
	}
	m1, ok1 := parseMsg(args[1:cut])
	m2, ok2 := parseMsg(args[cut+1:])
	if !ok1 || !ok2 {
		return []string{"bad-op"}
	}
	f, err := formatterOf(args[0])
	if err != nil {
		return []string{resErr(err)}
	}
	m1.VerifSetFormatter(f)
	m2.VerifSetFormatter(f)
	return []string{"res ok", "key " + canon.Hex(m1.Key()), "key " + canon.Hex(m2.Key())}
}

func callGetBytes(st *state, args []string) []string {
	if len(args) != 4 {
		return []string{"bad-op"}
	}
	d, ok := unhex(args[0])
	off, err1 := strconv.Atoi(args[1])
	ln, err2 := strconv.Atoi(args[2])
	if !ok || err1 != nil || err2 != nil {
		return []string{"bad-op"}
	}
	out := protoproducer.GetBytes(d, off, ln, args[3] == "1")
	return []string{"res ok", "out " + canon.Hex(out)}
}

// getbytesall <n> <off> <len> <shift>: FNV-1a digest over GetBytes of every n-byte buffer
func callGetBytesAll(st *state, args []string) []string {
	if len(args) != 4 {
		return []string{"bad-op"}
	}
	n, err0 := strconv.Atoi(args[0])
	off, err1 := strconv.Atoi(args[1])
	ln, err2 := strconv.Atoi(args[2])
	if err0 != nil || err1 != nil || err2 != nil || n < 0 || n > 3 {
		return []string{"bad-op"}
	}
	total := 1
	for i := 0; i < n; i++ {
		total *= 256
	}
	h := uint64(14695981039346656037)
	mix := func(x byte) { h = (h ^ uint64(x)) * 1099511628211 }
	d := make([]byte, n)
	for i := 0; i < total; i++ {
		for j := 0; j < n; j++ {
			d[j] = byte(i >> (8 * (n - 1 - j)))
		}
		var out []byte
		func() {
			defer func() {
				if r := recover(); r != nil {
					out = []byte{255}
					mix(255)
				}
			}()
			out = append([]byte{}, protoproducer.GetBytes(append([]byte{}, d...), off, ln, args[3] == "1")...)
			mix(byte(len(out)))
		}()
		for _, x := range out {
			mix(x)
		}
	}
	return []string{"res ok", fmt.Sprintf("digest %d", h)}
}
