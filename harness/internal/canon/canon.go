// Package canon renders decoded structures in the canonical text form that the
// Lean model's `D.render` produces (see lean/Goflow/Basic/Dump.lean).
package canon

import (
	"encoding/hex"
	"fmt"
	"reflect"
	"strings"
)

func Hex(b []byte) string {
	if len(b) == 0 {
		return "-"
	}
	return hex.EncodeToString(b)
}

// Dump renders any value: unsigned/signed integers in decimal, bool, []byte and
// string in hex ("-" when empty), other slices as [a,b], structs as
// Name{Field=value …} over exported fields (embedded structs appear as a field
// named after their type), nil interfaces/pointers as nil.
func Dump(x interface{}) string {
	var sb strings.Builder
	dump(&sb, reflect.ValueOf(x))
	return sb.String()
}

func dump(sb *strings.Builder, v reflect.Value) {
	if !v.IsValid() {
		sb.WriteString("nil")
		return
	}
	switch v.Kind() {
	case reflect.Uint8, reflect.Uint16, reflect.Uint32, reflect.Uint64, reflect.Uint:
		fmt.Fprintf(sb, "%d", v.Uint())
	case reflect.Int8, reflect.Int16, reflect.Int32, reflect.Int64, reflect.Int:
		fmt.Fprintf(sb, "%d", v.Int())
	case reflect.Bool:
		if v.Bool() {
			sb.WriteString("true")
		} else {
			sb.WriteString("false")
		}
	case reflect.String:
		sb.WriteString(Hex([]byte(v.String())))
	case reflect.Slice, reflect.Array:
		if v.Type().Elem().Kind() == reflect.Uint8 {
			b := make([]byte, v.Len())
			for i := 0; i < v.Len(); i++ {
				b[i] = byte(v.Index(i).Uint())
			}
			sb.WriteString(Hex(b))
			return
		}
		sb.WriteString("[")
		for i := 0; i < v.Len(); i++ {
			if i > 0 {
				sb.WriteString(",")
			}
			dump(sb, v.Index(i))
		}
		sb.WriteString("]")
	case reflect.Struct:
		t := v.Type()
		sb.WriteString(t.Name())
		sb.WriteString("{")
		first := true
		for i := 0; i < t.NumField(); i++ {
			f := t.Field(i)
			if !f.IsExported() {
				continue
			}
			if !first {
				sb.WriteString(" ")
			}
			first = false
			sb.WriteString(f.Name)
			sb.WriteString("=")
			dump(sb, v.Field(i))
		}
		sb.WriteString("}")
	case reflect.Interface, reflect.Ptr:
		if v.IsNil() {
			sb.WriteString("nil")
			return
		}
		dump(sb, v.Elem())
	default:
		fmt.Fprintf(sb, "<%s>", v.Kind())
	}
}
