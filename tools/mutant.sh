#!/bin/bash
# tools/mutant.sh <patch.diff | "sed-expr:file"> <prop> [<prop>...]
# applies a change to a scratch worktree of /repo (outside /repo and /verif), runs the checks against it
# through VERIF_REPO, removes the worktree. The checks themselves are unchanged.
set -u
PATCH=$1; shift
W=/tmp/mut-$$
git -C /repo worktree add -q --detach $W HEAD || exit 2
trap 'git -C /repo worktree remove --force $W >/dev/null 2>&1; rm -rf $W' EXIT
case "$PATCH" in
  sed:*) IFS='|' read -r _ FILE EXPR <<< "${PATCH/sed:/sed|}"; sed -i "$EXPR" "$W/$FILE" || exit 2 ;;
  *) git -C $W apply "$PATCH" || { echo "patch does not apply"; exit 2; } ;;
esac
(cd $W && export GOFLAGS=-mod=mod GOPROXY=off GOSUMDB=off GOTOOLCHAIN=local && go build ./... ) || { echo "MUTANT DOES NOT COMPILE"; exit 3; }
git -C $W diff --stat | tail -1
for P in "$@"; do
  VERIF_REPO=$W /verif/check $P 2>&1 | grep -E "VIOLATION|KNOWN|tier=" | sed "s/^/[$P] /"
done
# restore the generated facts for /repo
/verif/build/bin/extract >/dev/null
