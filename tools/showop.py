#!/usr/bin/env python3
"""debug helper: ./tools/showop.py C03 1 quick 1409 [1410 …] — regenerate the ops of a run and show chosen ops"""
import sys, os
sys.path.insert(0, os.path.join(os.path.dirname(os.path.abspath(__file__)), "..", "lib"))
import runner, props
prop, seed, tier = sys.argv[1], int(sys.argv[2]), sys.argv[3]
idxs = [int(x) for x in sys.argv[4:]]
spec = props.PROPS[prop]
ops = runner.parse_ops(runner.gen_ops(prop, spec, tier, seed))
bins = runner.build_harness(["impl"])
for i in idxs:
    h = runner.history_of(ops, i)
    # stateless histories: include every earlier op with the same store id
    o = ops[i]
    ws = o.line.split()
    if ws[0] == "call" and ws[1] == "nf":
        h = [x for x in ops[:i] if x.line.split()[:3] == ws[:3]] + [o]
    for k, x in enumerate(h):
        x.idx = k
    model = runner.run_model(h)
    impl, err = runner.run_impl(bins["impl"], h)
    for x in h:
        print("OP   ", x.line[:3000])
        print(" impl ", "\n       ".join(l[:3000] for l in impl[x.idx]))
        print(" model", "\n       ".join(l[:3000] for l in model[x.idx]))
        print(" spec ", "\n       ".join(l[:3000] for l in x.expect))
    print(err[-1500:])
