#!/usr/bin/env python3
# tools/seedprompts.py <A> <B> <prop>...: prepare /tmp/agents/<prop>/{prompt.txt,property.json,wt} for a round of seeded changes
# numbered A and B (the agents see the text of one property, a scratch worktree of /repo and nothing of /verif)
import json, subprocess, os, glob, sys
A, B, props = sys.argv[1], sys.argv[2], set(sys.argv[3:])
T = open('/verif/tools/seedprompt.txt').read()
for l in open('/verif/properties.jsonl'):
    d = json.loads(l); i = d['id']
    if i not in props:
        continue
    used = []
    for sd in sorted(glob.glob(f'/verif/seeded/{i}-*')):
        try:
            m = json.load(open(sd + '/meta.json')); used.append(m.get('needs_to_manifest', '')[:110])
        except Exception:
            pass
    os.makedirs(f'/tmp/agents/{i}', exist_ok=True)
    subprocess.run(['git', '-C', '/repo', 'worktree', 'add', '-q', '--detach', f'/tmp/agents/{i}/wt', 'HEAD'])
    json.dump(d, open(f'/tmp/agents/{i}/property.json', 'w'), indent=1)
    text = f"{d['id']} — {d['title']}\n{d['statement']}"
    p = T.replace('@ID@', i).replace('@TEXT@', text).replace('@A@', A).replace('@B@', B)
    p = p.replace("The two changes should be in different places and of different character.",
                  "The two changes should be in different places and of different character. Earlier changes for this property manifested under the following conditions — do NOT deliver variants that manifest under the same conditions: " + "; ".join(u for u in used if u) + ". Look for something of a different kind: a multi-step state machine, two rarely combined features, an integer width / sign / wrap-around at an unusual magnitude, an error path under a specific fault, behaviour differing for one protocol version or pipe kind only, aliasing of a slice or buffer handed to a caller, a value at an edge of its range.")
    open(f'/tmp/agents/{i}/prompt.txt', 'w').write(p)
    print(i, len(used), 'earlier ideas listed')
