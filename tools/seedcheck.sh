#!/bin/bash
# tools/seedcheck.sh <seed-dir-name> <PROP>... : run checks against a filed seeded change in a scratch worktree
# (VERIF_REPO), without touching /repo — safe while background sweeps read /repo.
set -u
S=$1; shift
W=/tmp/seedcheck-$S-$$
export GOFLAGS=-mod=mod GOPROXY=off GOSUMDB=off GOTOOLCHAIN=local
git -C /repo worktree add -q --detach $W HEAD || exit 2
TAG=$(python3 -c "import hashlib,sys;print(hashlib.sha1(sys.argv[1].encode()).hexdigest()[:8])" $W)
trap 'git -C /repo worktree remove --force $W >/dev/null 2>&1; rm -rf $W /verif/build/bin/impl-$TAG /verif/build/bin/impl-race-$TAG /verif/build/harness-$TAG; /verif/build/bin/extract >/dev/null 2>&1' EXIT
git -C $W apply /verif/seeded/$S/patch.diff || exit 2
for Q in "$@"; do
  VERIF_REPO=$W /verif/check $Q 2>&1 | grep -E "VIOLATION|KNOWN|tier=|×" | cut -c1-240 | sed "s/^/[$Q] /"
done
