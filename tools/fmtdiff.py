#!/usr/bin/env python3
"""decode the first differing hex tokens of two output streams (debug helper for fmt ops)"""
import sys
a=open(sys.argv[1]).read().split("\n"); b=open(sys.argv[2]).read().split("\n")
shown=0
for i,(x,y) in enumerate(zip(a,b)):
    if x!=y:
        xs,ys=x.split(" "),y.split(" ")
        for t,(p,q) in enumerate(zip(xs,ys)):
            if p!=q:
                try:
                    pb=bytes.fromhex(p.replace("-","")); qb=bytes.fromhex(q.replace("-",""))
                    k=0
                    while k<min(len(pb),len(qb)) and pb[k]==qb[k]: k+=1
                    print("line %d tok %d (%s) differ at byte %d:\n  model %r\n  impl  %r"%(i,t,xs[0],k,pb[max(0,k-60):k+60],qb[max(0,k-60):k+60]))
                except ValueError:
                    print("line %d tok %d: model %s impl %s"%(i,t,p,q))
                break
        shown+=1
        if shown>=int(sys.argv[3]) if len(sys.argv)>3 else shown>=5: break
