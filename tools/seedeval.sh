#!/bin/bash
# tools/seedeval.sh <PROP> <i> [extra props to run...]
# Confirms a seeded change delivered by a sub-agent under /tmp/agents/<PROP>/_out/<i>/ in a scratch
# worktree (compiles, baseline tests pass, demonstration fails with / passes without), runs the
# checks against it through VERIF_REPO, and files it under /verif/seeded/<PROP>-<i>/.
set -u
P=$1; I=$2; shift 2
SRC=/tmp/agents/$P/_out/$I
# re-evaluation of a seed that is already filed: take it from /verif/seeded
if [ ! -f $SRC/patch.diff ] && [ -f /verif/seeded/$P-$I/patch.diff ]; then
  SRC=/tmp/seedsrc-$P-$I-$$; mkdir -p $SRC; cp /verif/seeded/$P-$I/* $SRC/
fi
[ -f $SRC/patch.diff ] || { echo "no such seed: $P-$I"; exit 2; }
W=/tmp/seedeval-$P-$I-$$
export GOFLAGS=-mod=mod GOPROXY=off GOSUMDB=off GOTOOLCHAIN=local
git -C /repo worktree add -q --detach $W HEAD || exit 2
TAG=$(python3 -c "import hashlib,sys;print(hashlib.sha1(sys.argv[1].encode()).hexdigest()[:8])" $W)
trap 'git -C /repo worktree remove --force $W >/dev/null 2>&1; rm -rf $W /verif/build/bin/impl-$TAG /verif/build/bin/impl-race-$TAG /verif/build/harness-$TAG' EXIT
DEMOS=$(ls $SRC/*_test.go 2>/dev/null)
PKG=$(grep -l . $SRC/notes.md >/dev/null 2>&1; grep -ho "\(utils\|decoders/[a-z]*\|producer/proto\|transport/file\|transport/kafka\|utils/[a-z]*\)/\?" $SRC/notes.md | head -1)
# destination package of the demo: first line `package X` + notes; try the candidates until it compiles
place_demo() {
  for f in $DEMOS; do
    pk=$(grep -m1 '^package ' $f | awk '{print $2}' | sed 's/_test$//')
    for d in utils utils/debug decoders/netflow decoders/sflow decoders/netflowlegacy decoders/utils producer/proto producer/raw transport/file transport/kafka transport format/json cmd/goflow2 metrics; do
      if [ -d $W/$d ] && grep -qs "^package $pk\$" $W/$d/*.go; then cp $f $W/$d/; echo "$d"; break; fi
    done
  done | sort -u | head -1
}
run_demo() { (cd $W && go test -count=1 -tags "$TAGS" ./$DEMOPKG/ 2>&1 | tail -3); }
OUT=/verif/seeded/$P-$I
mkdir -p $OUT
res_compile=ok; res_tests=ok
git -C $W apply $SRC/patch.diff || { echo "PATCH DOES NOT APPLY"; res_compile=noapply; }
(cd $W && go build ./... && go build -tags verif ./...) >/dev/null 2>&1 || res_compile=fail
(cd $W && go test -count=1 ./... >/tmp/seedeval-tests-$$.log 2>&1) || res_tests=fail
TAGS=""
[ -n "$DEMOS" ] && grep -qs "go:build verif" $DEMOS && TAGS=verif
DEMOPKG=$(place_demo)
RUNPAT=$(grep -ho '^func Test[A-Za-z0-9_]*' $DEMOS | sed 's/^func //' | paste -sd'|')
demo_with=$(cd $W && go test -count=1 -tags "$TAGS" -run "^($RUNPAT)\$" ./$DEMOPKG/ >/tmp/seedeval-demo-$$.log 2>&1 && echo pass || echo fail)
# checks against the changed tree
: > $OUT/check.log
for Q in $P "$@"; do
  VERIF_REPO=$W /verif/check $Q 2>&1 | grep -E "VIOLATION|KNOWN|tier=|×" | sed "s/^/[$Q] /" >> $OUT/check.log
done
# without the change
git -C $W apply -R $SRC/patch.diff
demo_without=$(cd $W && go test -count=1 -tags "$TAGS" -run "^($RUNPAT)\$" ./$DEMOPKG/ >/dev/null 2>&1 && echo pass || echo fail)
/verif/build/bin/extract >/dev/null
cp $SRC/patch.diff $SRC/notes.md $OUT/ 2>/dev/null; cp $DEMOS $OUT/ 2>/dev/null
caught=$(grep -c VIOLATION $OUT/check.log)
cat > $OUT/meta.json <<EOM
{"property": "$P", "seed": "$P-$I", "compiles": "$res_compile", "baseline_tests_with_change": "$res_tests",
 "demo_package": "$DEMOPKG", "demo_with_change": "$demo_with", "demo_without_change": "$demo_without",
 "checks_run": "$P $*", "violations_reported": $caught,
 "what_i_ran": "scratch worktree of /repo HEAD; git apply patch.diff; go build ./... (+ -tags verif); go test -count=1 ./...; demo test in $DEMOPKG with and without the change; VERIF_REPO=<worktree> ./check for the listed properties"}
EOM
echo "== $P-$I compile=$res_compile tests=$res_tests demo_with=$demo_with demo_without=$demo_without caught=$caught"
cat $OUT/check.log | cut -c1-220
