#!/usr/bin/env python3
"""tools/seedmeta.py — adds needs_to_manifest / caught_by / round to seeded/<id>/meta.json (round 4 table below);
caught_by is read from check.log (properties with a VIOLATION line)."""
import json, os, re, sys
NEEDS = {
 "C01-5": "v9/IPFIX template listing MPLS label section 71 or 72 without, or before, the lower sections; then data for it",
 "C01-6": "two workers on one exporter: one re-announcing a template (AddTemplate) while the other looks one up",
 "C02-5": "one datagram made of many 8-byte truncated template sets, each claiming 65535 fields",
 "C02-6": "sFlow extended gateway record whose AS-path / communities count is at a multiple of 2^30 (4*n wraps in uint32)",
 "C03-5": "template id re-announced with identical element ids and lengths but another enterprise number / bit, then data",
 "C03-6": "template with 1..3-byte records, set without padding, trailing records that are all zero",
 "C04-5": "extended gateway record with as-destinations != 0 whose single segment has 0 entries",
 "C04-6": "sample whose last record is of an unknown type with declared length 0",
 "C05-5": "v5 datagram cut inside a record with a header count above the complete records",
 "C05-6": "v5 header whose sampling field has a mode bit set (e.g. 0x4064)",
 "C06-5": "new exporter whose first message announces a template and is malformed afterwards, then data",
 "C06-6": "IPFIX re-announcement with the same ids and widths, one element moved between IANA and an enterprise registry",
 "C07-5": "datagram failing in the producer after one record was converted, then a datagram with two or more records",
 "C07-6": "one datagram: data set of T, template set redefining T with another record size, data set of T",
 "C08-5": "record whose source or destination address element is 0.0.0.0 or ::",
 "C08-6": "pooled message: earlier record with only MPLS section 71, later 70, then a record with a lower section missing",
 "C09-5": "full sFlow datagram with two or more flow samples, then a datagram announcing several samples but cut short",
 "C09-6": "sFlow agent address that is an IPv4-mapped IPv6 address",
 "C10-5": "SRv6 routing header in a capture that ends inside the segment list",
 "C10-6": "datagram whose conversion fails after a frame was dissected, then any datagram taking that message from the pool",
}
ROUND = {k: 4 for k in NEEDS}
for rnd, fn in ((4, "seedneeds4.json"), (5, "seedneeds5.json"), (6, "seedneeds6.json"), (7, "seedneeds7.json"), (8, "seedneeds8.json"), (9, "seedneeds9.json"), (10, "seedneeds10.json"), (11, "seedneeds11.json"), (12, "seedneeds12.json")):
    fp = os.path.join(os.path.dirname(os.path.abspath(__file__)), fn)
    if os.path.exists(fp):
        for k, v in json.load(open(fp)).items():
            NEEDS[k] = v
            ROUND[k] = rnd
root = os.path.join(os.path.dirname(os.path.abspath(__file__)), "..", "seeded")
for sid, needs in sorted(NEEDS.items()):
    d = os.path.join(root, sid)
    if not os.path.isdir(d):
        continue
    m = json.load(open(os.path.join(d, "meta.json")))
    log = open(os.path.join(d, "check.log")).read() if os.path.exists(os.path.join(d, "check.log")) else ""
    caught = sorted(set(re.findall(r"^\[(C\d\d)\] VIOLATION", log, re.M)))
    m.update(needs_to_manifest=needs, caught_by=" ".join(caught), round=ROUND[sid])
    json.dump(m, open(os.path.join(d, "meta.json"), "w"), indent=1)
    print(sid, m["caught_by"])
