package main

// translate6.go: what the translator gained for the sFlow v5 wire decoder (Goflow/Generated/SflowT.lean: DecodeIP,
// DecodeCounterRecord, DecodeFlowRecord, DecodeSample, DecodeMessage, DecodeMessageVersion of decoders/sflow/sflow.go).
//
//   package-level integer constants (FLOW_TYPE_RAW …)   -> untyped constants
//   p *T for a struct T, `*p` as a value                 -> the struct the state variable holds
//   var x T for a generated struct T                     -> ({} : T)
//   a.B.C (embedded / nested structs), &a.B.C            -> nested projections / nested `{ a with B := { a.B with C := v } }`
//   make([]T, n) with n of type uint8/16/32              -> n.toNat; make([]interface{}, n) -> Go.makeL n Iface.nil
//   payload.Bytes()                                      -> the bytes that remain (nothing is consumed)
//   utils.BinaryDecoder destinations:
//     x.F (a []byte / MacAddress / IPAddress field)      -> Go.readBytes; accepted only when x was declared by the statement
//                                                           just before, by a literal that gives F a fresh make([]byte, n)
//     v ([]uint32 local created by make, see checkSlices)-> Go.readU32s (prelude: BinaryRead for []uint32)
//     &x.F for a string field                            -> Go.readXdrString (prelude: BinaryRead for *string); a Go string is
//                                                           its bytes: string fields are `Bytes` in the generated structs
//   if a.X, a.Y, err = f(payload); err != nil { return …, W(err) }
//                                                        -> a bind of the state-passing translation of f, results written to
//                                                           the fields, err stays nil
//   if c { …; return … } else { B }                      -> if c { …; return … }; B   (B without declarations; a rewriting
//                                                           of the syntax tree before translation)
//   s.F[i] = v for F []interface{} of a struct behind a pointer, and for F a slice of structs of a LOCAL struct s that an
//   interface variable x holds a copy of (`s.F = make(…); x = s`): the store is seen through x, which shares the backing
//   array: `let x := Iface.T s` is emitted after the store. analyzeAlias6 accepts this only when it can show that x is
//   that copy whenever the store does not panic (see there).
//   interface{} at two levels (FlowRecord.Data holds record structs, DecodeSample's result / Packet.Samples hold sample
//   structs): one generated sum type `Iface` per level, the second in the nested namespace TS.SM; a value of one level
//   stored at the other does not elaborate.

import (
	"fmt"
	"go/ast"
	"go/constant"
	"go/token"
	"strconv"
	"strings"
)

const tXStr gty = "xdr-string" // a Go string read from the wire: its bytes (Lean `Bytes`)

var (
	sflowMode6  bool                          // the hooks of this file are live
	pkgConsts6  = map[string]constant.Value{} // package-level integer constants with explicit values
	aliasLinks6 = map[string]string{}         // local struct variable -> the interface variable holding a copy that shares its slice
	curList6    []ast.Stmt                    // the statement being translated: curList6[curIdx6]
	curIdx6     int
)

// ---------------------------------------------------------------------------
// hooks
// ---------------------------------------------------------------------------

// ident6: a package-level integer constant
func (t *tr) ident6(x *ast.Ident) (val, bool) {
	if !sflowMode6 {
		return val{}, false
	}
	if c, ok := pkgConsts6[x.Name]; ok {
		return val{code: c.ExactString(), ty: tUntyped, cst: c}, true
	}
	return val{}, false
}

// star6: *p for a struct behind a pointer parameter
func (t *tr) star6(x *ast.StarExpr) (val, bool) {
	if !sflowMode6 {
		return val{}, false
	}
	id, ok := x.X.(*ast.Ident)
	if !ok {
		return val{}, false
	}
	ty, _ := t.lookup(id.Name)
	if !isStruct(ty) {
		return val{}, false
	}
	for _, sv := range t.stVars {
		if sv == id.Name {
			return val{code: leanIdent(id.Name), ty: ty}, true
		}
	}
	return val{}, false
}

// selPath6: a.B.C on a struct variable a: (a, [B C], type of the whole)
func (t *tr) selPath6(e ast.Expr) (string, []string, gty, bool) {
	switch x := e.(type) {
	case *ast.ParenExpr:
		return t.selPath6(x.X)
	case *ast.Ident:
		ty, ok := t.lookup(x.Name)
		if !ok || !isStruct(ty) || t.refParams[x.Name] {
			return "", nil, tBad, false
		}
		return x.Name, nil, ty, true
	case *ast.SelectorExpr:
		root, path, ty, ok := t.selPath6(x.X)
		if !ok || !isStruct(ty) {
			return "", nil, tBad, false
		}
		for _, f := range structFields[ty] {
			if f.name == x.Sel.Name {
				return root, append(append([]string{}, path...), f.name), f.ty, true
			}
		}
	}
	return "", nil, tBad, false
}

func selCode6(root string, path []string) string {
	code := leanIdent(root)
	for _, p := range path {
		code += "." + leanIdent(p)
	}
	return code
}

// { a with B := { a.B with C := rhs } }
func nestedUpdate6(prefix string, path []string, rhs string) string {
	if len(path) == 1 {
		return "{ " + prefix + " with " + leanIdent(path[0]) + " := " + rhs + " }"
	}
	return "{ " + prefix + " with " + leanIdent(path[0]) + " := " + nestedUpdate6(prefix+"."+leanIdent(path[0]), path[1:], rhs) + " }"
}

// selector6: a.B.C read
func (t *tr) selector6(x *ast.SelectorExpr) (val, bool) {
	if !sflowMode6 {
		return val{}, false
	}
	if _, nested := x.X.(*ast.SelectorExpr); !nested {
		return val{}, false
	}
	root, path, ty, ok := t.selPath6(x)
	if !ok {
		return val{}, false
	}
	return val{code: selCode6(root, path), ty: ty}, true
}

// lvalue6: &a.B.C
func (t *tr) lvalue6(x *ast.SelectorExpr) (lval, bool) {
	if !sflowMode6 {
		return lval{}, false
	}
	if _, nested := x.X.(*ast.SelectorExpr); !nested {
		return lval{}, false
	}
	root, path, ty, ok := t.selPath6(x)
	if !ok {
		return lval{}, false
	}
	rty, _ := t.lookup(root)
	return lval{read: selCode6(root, path), ty: ty, key: exprString(x), write: func(c string) []string {
		return []string{"let " + leanIdent(root) + " : " + leanTy(rty) + " := " + nestedUpdate6(leanIdent(root), path, c)}
	}}, true
}

// call6: make with an unsigned count, make([]interface{}, n), payload.Bytes()
func (t *tr) call6(x *ast.CallExpr) (val, bool) {
	if !sflowMode6 {
		return val{}, false
	}
	if se, ok := x.Fun.(*ast.SelectorExpr); ok && se.Sel.Name == "Bytes" && len(x.Args) == 0 {
		if id, ok := se.X.(*ast.Ident); ok {
			if ty, _ := t.lookup(id.Name); ty == tBuf {
				// the unread portion of the buffer; nothing in the subset writes into a buffer, so the bytes are a value
				return val{code: leanIdent(id.Name), ty: tBytes}, true
			}
		}
	}
	if exprString(x.Fun) != "make" || len(x.Args) != 2 {
		return val{}, false
	}
	lt := goTypeOf(x.Args[0])
	if !(isStructList(lt) || lt == tLU32 || lt == tBytes || lt == tLIface) {
		return val{}, false
	}
	nv := t.expr(x.Args[1])
	var n string
	nat := false // the count is a Nat whatever the flavour of int
	switch {
	case isUnsigned(nv.ty) && width(nv.ty) < 64:
		n, nat = nv.code+".toNat", true
	default:
		n = t.as(x.Args[1], nv, tInt)
	}
	sfx := iSuffix()
	if nat {
		sfx = ""
	}
	switch {
	case isStructList(lt):
		return val{code: t.bind("Go.makeL" + sfx + " " + n + " ({} : " + leanTy(elemOf(lt)) + ")"), ty: lt}, true
	case lt == tLIface:
		return val{code: t.bind("Go.makeL" + sfx + " " + n + " Iface.nil"), ty: lt}, true
	case lt == tLU32:
		if sfx != "" {
			return t.failV(x, "make([]uint32, n) with a signed int"), true
		}
		return val{code: t.bind("Go.makeU32s " + n), ty: tLU32}, true
	}
	return val{code: t.bind("Go.makeBytes" + sfx + " " + n), ty: tBytes}, true
}

// freshField6: was the struct variable `root` declared by the statement just before the current one, by a composite literal
// in which the field path is `make([]byte, n)`? Then nothing else refers to the field's backing array.
func freshField6(root string, path []string) bool {
	if curList6 == nil || curIdx6 < 1 || curIdx6 >= len(curList6) {
		return false
	}
	as, ok := curList6[curIdx6-1].(*ast.AssignStmt)
	if !ok || as.Tok != token.DEFINE || len(as.Lhs) != 1 || len(as.Rhs) != 1 {
		return false
	}
	if id, ok := as.Lhs[0].(*ast.Ident); !ok || id.Name != root {
		return false
	}
	var e ast.Expr = as.Rhs[0]
	for _, p := range path {
		cl, ok := e.(*ast.CompositeLit)
		if !ok {
			return false
		}
		e = nil
		for _, el := range cl.Elts {
			if kv, ok := el.(*ast.KeyValueExpr); ok && exprString(kv.Key) == p {
				e = kv.Value
			}
		}
		if e == nil {
			return false
		}
	}
	ce, ok := e.(*ast.CallExpr)
	return ok && exprString(ce.Fun) == "make" && len(ce.Args) == 2 && goTypeOf(ce.Args[0]) == tBytes
}

// dest6: the destinations of utils.BinaryDecoder this file adds; (lines, handled)
func (t *tr) dest6(a ast.Expr, buf string, wrap func(string) string) ([]string, bool) {
	if !sflowMode6 {
		return nil, false
	}
	bad := []string{"(extract_problem_untranslated)"}
	if op, ok := addrOperand(a); ok {
		// &x.F for a string field
		if se, ok := op.(*ast.SelectorExpr); ok {
			if _, _, ty, ok := t.selPath6(se); ok && ty == tXStr {
				lv, ok := t.lvalue(se)
				if !ok {
					return bad, true
				}
				r := t.bind(wrap("Go.readXdrString " + buf))
				out := t.flush()
				out = append(out, lv.write(r+".1")...)
				return append(out, "let "+buf+" : Bytes := "+r+".2"), true
			}
		}
		return nil, false
	}
	// x.F, a []byte field
	if se, ok := a.(*ast.SelectorExpr); ok {
		root, path, ty, ok := t.selPath6(se)
		if !ok || ty != tBytes {
			return nil, false
		}
		if !freshField6(root, path) {
			t.fail(a, "BinaryDecoder into the slice field %s, which is not a fresh make() of the declaration just before (aliasing)", exprString(a))
			return bad, true
		}
		lv, ok := t.lvalue(se)
		if !ok {
			return bad, true
		}
		r := t.bind(wrap("Go.readBytes " + buf + " " + lv.read + ".length"))
		out := t.flush()
		out = append(out, lv.write(r+".1")...)
		return append(out, "let "+buf+" : Bytes := "+r+".2"), true
	}
	// v, a []uint32 local
	if id, ok := a.(*ast.Ident); ok {
		if ty, _ := t.lookup(id.Name); ty == tLU32 {
			name, ok := t.storable(a, a)
			if !ok {
				return bad, true
			}
			r := t.bind(wrap("Go.readU32s " + buf + " " + leanIdent(name) + ".length"))
			out := t.flush()
			out = append(out, "let "+leanIdent(name)+" : List UInt32 := "+r+".1")
			return append(out, "let "+buf+" : Bytes := "+r+".2"), true
		}
	}
	return nil, false
}

// stmt6: remembers where the translation is, and translates `var x T` for a generated struct T
func (t *tr) stmt6(list []ast.Stmt, i int) ([]string, bool) {
	if !sflowMode6 {
		return nil, false
	}
	curList6, curIdx6 = list, i
	ds, ok := list[i].(*ast.DeclStmt)
	if !ok {
		return nil, false
	}
	gd, ok := ds.Decl.(*ast.GenDecl)
	if !ok || gd.Tok != token.VAR {
		return nil, false
	}
	for _, sp := range gd.Specs {
		vs := sp.(*ast.ValueSpec)
		if vs.Type == nil || len(vs.Values) != 0 || !isStruct(goTypeOf(vs.Type)) {
			return nil, false
		}
	}
	var out []string
	for _, sp := range gd.Specs {
		vs := sp.(*ast.ValueSpec)
		ty := goTypeOf(vs.Type)
		for _, nm := range vs.Names {
			t.declare(nm, nm.Name, ty)
			out = append(out, "let "+leanIdent(nm.Name)+" : "+leanTy(ty)+" := {}")
		}
	}
	return out, true
}

// if6: if a.X, a.Y, err = f(payload, …); err != nil { return …, W(err) }
func (t *tr) if6(x *ast.IfStmt, rest []ast.Stmt, k konts) ([]string, bool) {
	if !sflowMode6 || t.retKind != "st" || t.errVal5 || x.Init == nil || x.Else != nil || len(x.Body.List) != 1 {
		return nil, false
	}
	as, ok := x.Init.(*ast.AssignStmt)
	if !ok || as.Tok != token.ASSIGN || len(as.Rhs) != 1 || len(as.Lhs) < 2 {
		return nil, false
	}
	ce, ok := as.Rhs[0].(*ast.CallExpr)
	if !ok {
		return nil, false
	}
	errID, ok := as.Lhs[len(as.Lhs)-1].(*ast.Ident)
	if !ok {
		return nil, false
	}
	if ety, _ := t.lookup(errID.Name); ety != tError {
		return nil, false
	}
	cls, ok := errCheck5(&ast.IfStmt{If: x.If, Cond: x.Cond, Body: x.Body}, errID.Name)
	if !ok {
		return nil, false
	}
	fid, ok := ce.Fun.(*ast.Ident)
	if !ok {
		return nil, false
	}
	if sig, known := translatedSigs[fid.Name]; !known || sig.kind != "st" || sig.errVal {
		return nil, false
	}
	code, sig, ok := t.stCall(ce)
	if !ok {
		return []string{"(extract_problem_untranslated)"}, true
	}
	nres := len(sig.results)
	if nres != len(as.Lhs) || sig.results[nres-1] != tError {
		return []string{t.fail(x, "call of %s: %d results assigned to %d variables", fid.Name, nres, len(as.Lhs))}, true
	}
	if cls == "bad" {
		code = "Go.errBad (" + code + ")"
	}
	r := t.bind(code)
	out := t.flush()
	total := len(sig.refs) + nres - 1
	kk := 0
	for ai, a := range ce.Args {
		for _, si := range sig.refs {
			if si == ai {
				sid, _ := t.stArg5(a, sig.params[ai])
				sty, _ := t.lookup(sid.Name)
				out = append(out, "let "+leanIdent(sid.Name)+" : "+leanTy(sty)+" := "+r+proj(kk, total))
				kk++
			}
		}
	}
	// the results are assigned left to right; a slice result now also belongs to the field it is stored in
	for j, l := range as.Lhs[:nres-1] {
		out = append(out, t.assignTo(l, val{code: r + proj(kk, total), ty: sig.results[j]}, false)...)
		kk++
	}
	out = append(out, "let "+leanIdent(errID.Name)+" : Go.Error := (none : Go.Error)")
	return append(out, t.block(rest, k)...), true
}

// indexStore6: s.F[i] = v
func (t *tr) indexStore6(l *ast.IndexExpr, v val) ([]string, bool) {
	if !sflowMode6 || intMode {
		return nil, false
	}
	se, ok := l.X.(*ast.SelectorExpr)
	if !ok {
		return nil, false
	}
	id, ok := se.X.(*ast.Ident)
	if !ok {
		return nil, false
	}
	bty, _ := t.lookup(id.Name)
	if !isStruct(bty) {
		return nil, false
	}
	for _, f := range structFields[bty] {
		if f.name != se.Sel.Name || !(isStructList(f.ty) || f.ty == tLIface) {
			continue
		}
		b := leanIdent(id.Name)
		i := t.as(l.Index, t.expr(l.Index), tInt)
		r := t.bind("Go.setIdxL " + b + "." + leanIdent(f.name) + " " + i + " " + t.as(l, v, elemOf(f.ty)))
		out := t.flush()
		out = append(out, "let "+b+" : "+leanTy(bty)+" := { "+b+" with "+leanIdent(f.name)+" := "+r+" }")
		if x, linked := aliasLinks6[id.Name]; linked {
			// the interface variable holds a copy of the struct whose slice shares the backing array (analyzeAlias6)
			xty, _ := t.lookup(x)
			out = append(out, "let "+leanIdent(x)+" : "+leanTy(xty)+" := "+t.as(l, val{code: b, ty: bty}, xty))
		}
		return out, true
	}
	return nil, false
}

// alias6: a store s.F[i] = v is also a write of the interface variable that shares the slice
func alias6(l ast.Expr, out map[string]bool) {
	if !sflowMode6 {
		return
	}
	if ie, ok := l.(*ast.IndexExpr); ok {
		if x, linked := aliasLinks6[baseName(ie.X)]; linked {
			out[x] = true
		}
	}
}

// ---------------------------------------------------------------------------
// s.F[i] = v on a struct variable: who else sees the store?
//
// Struct behind a pointer parameter (packetV5.Samples[i] = sample): accepted when `s.F = make(…)` is a statement of the
// function body itself, textually before the store, the only assignment to s.F, and s.F is mentioned nowhere else; `*s`
// and a bare `s` after the make are refused. Then the array is fresh and only s.F refers to it.
//
// Local struct s (flowSample.Records[i] = record) with the copy `x = s` in an interface variable x. Required:
//   * `s.F = make(…)` occurs once, as statement L[m] of a list L that is not inside a loop, and `x = s` is L[m+1];
//   * every other mention of s is `var s T`, a read / write / address of a field s.G (G ≠ F) — writes and addresses
//     textually before `x = s` —, or a store s.F[i] = v textually after it;
//   * every assignment to x is such a copy, all of them in different clauses of ONE switch statement that is not inside a
//     loop; x is otherwise only read.
// If the store does not panic, s.F is not nil, so the make ran, so the clause with `x = s` ran right after it; no other
// clause of that switch ran, so x still holds that copy; no field of s was written since, so x = Iface.T s but for the
// elements of F, which x sees through the shared array: after the store x = Iface.T s again.
// ---------------------------------------------------------------------------

func analyzeAlias6(fd *ast.FuncDecl) (map[string]string, []string) {
	links := map[string]string{}
	var problems []string
	params := map[string]bool{}
	for _, p := range fd.Type.Params.List {
		for _, nm := range p.Names {
			params[nm.Name] = true
		}
	}
	type storeInfo struct {
		s, f string
		pos  token.Pos
	}
	var stores []storeInfo
	ast.Inspect(fd.Body, func(n ast.Node) bool {
		if as, ok := n.(*ast.AssignStmt); ok {
			for _, l := range as.Lhs {
				if ie, ok := l.(*ast.IndexExpr); ok {
					if se, ok := ie.X.(*ast.SelectorExpr); ok {
						if id, ok := se.X.(*ast.Ident); ok {
							stores = append(stores, storeInfo{id.Name, se.Sel.Name, as.Pos()})
						}
					}
				}
			}
		}
		return true
	})
	if len(stores) == 0 {
		return links, nil
	}
	isMake := func(e ast.Expr) bool {
		ce, ok := e.(*ast.CallExpr)
		return ok && exprString(ce.Fun) == "make" && len(ce.Args) == 2
	}
	// a walk with the chain of ancestors
	type mention struct {
		id    *ast.Ident
		chain []ast.Node // ancestors, innermost last
	}
	mentionsOf := func(name string) []mention {
		var out []mention
		var stack []ast.Node
		ast.Inspect(fd.Body, func(n ast.Node) bool {
			if n == nil {
				stack = stack[:len(stack)-1]
				return true
			}
			if id, ok := n.(*ast.Ident); ok && id.Name == name {
				// a field or key of that name is not the variable
				isVar := true
				if len(stack) > 0 {
					switch p := stack[len(stack)-1].(type) {
					case *ast.SelectorExpr:
						isVar = p.X == ast.Expr(id)
					case *ast.KeyValueExpr:
						isVar = p.Key != ast.Expr(id)
					}
				}
				if isVar {
					out = append(out, mention{id, append([]ast.Node{}, stack...)})
				}
			}
			stack = append(stack, n)
			return true
		})
		return out
	}
	inLoop := func(chain []ast.Node) bool {
		for _, a := range chain {
			switch a.(type) {
			case *ast.ForStmt, *ast.RangeStmt, *ast.FuncLit:
				return true
			}
		}
		return false
	}
	done := map[string]bool{}
	copyStmts := map[string]*ast.AssignStmt{} // x -> … collected per s below
	var copies []struct {
		x  string
		as *ast.AssignStmt
	}
	for _, st := range stores {
		key := st.s + "." + st.f
		if done[key] {
			continue
		}
		done[key] = true
		var makeStmt, copyStmt *ast.AssignStmt
		var makeChain []ast.Node
		bad := func(f string, a ...interface{}) {
			problems = append(problems, fmt.Sprintf("store into %s.%s: ", st.s, st.f)+fmt.Sprintf(f, a...))
		}
		var fieldWrites []token.Pos
		for _, m := range mentionsOf(st.s) {
			n := len(m.chain)
			if n == 0 {
				bad("unexpected mention")
				continue
			}
			parent := m.chain[n-1]
			switch p := parent.(type) {
			case *ast.ValueSpec:
				continue // var s T
			case *ast.Field:
				continue
			case *ast.SelectorExpr:
				var gp ast.Node
				if n >= 2 {
					gp = m.chain[n-2]
				}
				if p.Sel.Name == st.f {
					if ie, ok := gp.(*ast.IndexExpr); ok && ie.X == ast.Expr(p) && n >= 3 {
						if as, ok := m.chain[n-3].(*ast.AssignStmt); ok && len(as.Lhs) == 1 && as.Lhs[0] == ast.Expr(ie) && as.Tok == token.ASSIGN {
							continue // the store itself
						}
					}
					if as, ok := gp.(*ast.AssignStmt); ok && len(as.Lhs) == 1 && len(as.Rhs) == 1 && as.Lhs[0] == ast.Expr(p) && as.Tok == token.ASSIGN && isMake(as.Rhs[0]) {
						if makeStmt != nil {
							bad("the slice is made more than once")
						}
						makeStmt, makeChain = as, m.chain[:n-2]
						continue
					}
					bad("the slice field is mentioned other than by make() and indexed stores (line %d)", lineOf6(fd, m.id.Pos()))
					continue
				}
				// another field: a write or an address must come before the copy
				switch g := gp.(type) {
				case *ast.AssignStmt:
					for _, l := range g.Lhs {
						if l == ast.Expr(p) {
							fieldWrites = append(fieldWrites, g.Pos())
						}
					}
				case *ast.UnaryExpr:
					if g.Op == token.AND {
						fieldWrites = append(fieldWrites, g.Pos())
					}
				case *ast.SelectorExpr, *ast.IndexExpr, *ast.IncDecStmt:
					fieldWrites = append(fieldWrites, p.Pos()) // a.B.C, a.B[i], a.B++: treated as writes
				}
				continue
			case *ast.AssignStmt:
				if len(p.Lhs) == 1 && len(p.Rhs) == 1 && p.Rhs[0] == ast.Expr(m.id) && p.Tok == token.ASSIGN {
					if x, ok := p.Lhs[0].(*ast.Ident); ok && !params[st.s] {
						if copyStmt != nil {
							bad("the struct is copied more than once")
						}
						copyStmt = p
						copies = append(copies, struct {
							x  string
							as *ast.AssignStmt
						}{x.Name, p})
						copyStmts[st.s] = p
						continue
					}
				}
			}
			bad("the struct is handed on (line %d)", lineOf6(fd, m.id.Pos()))
		}
		if makeStmt == nil {
			bad("no `%s.%s = make(…)` in this function", st.s, st.f)
			continue
		}
		if inLoop(makeChain) {
			bad("the make() is inside a loop")
		}
		if params[st.s] {
			// behind a pointer: the make is a statement of the function body, before every store
			top := false
			for _, s := range fd.Body.List {
				if s == ast.Stmt(makeStmt) {
					top = true
				}
			}
			if !top {
				bad("the make() is not a statement of the function body")
			}
			for _, s2 := range stores {
				if s2.s == st.s && s2.f == st.f && s2.pos < makeStmt.End() {
					bad("a store precedes the make()")
				}
			}
			if copyStmt != nil {
				bad("the struct behind the pointer is copied")
			}
			continue
		}
		if copyStmt == nil {
			continue // nobody else holds the slice
		}
		// x = s is the statement right after the make, in the same list
		adjacent := false
		if len(makeChain) > 0 {
			var list []ast.Stmt
			switch c := makeChain[len(makeChain)-1].(type) {
			case *ast.BlockStmt:
				list = c.List
			case *ast.CaseClause:
				list = c.Body
			}
			for i := 0; i+1 < len(list); i++ {
				if list[i] == ast.Stmt(makeStmt) && list[i+1] == ast.Stmt(copyStmt) {
					adjacent = true
				}
			}
		}
		if !adjacent {
			bad("the copy into the interface variable does not directly follow the make()")
		}
		for _, p := range fieldWrites {
			if p > copyStmt.Pos() {
				bad("a field is written after the copy (line %d)", lineOf6(fd, p))
			}
		}
		for _, s2 := range stores {
			if s2.s == st.s && s2.f == st.f && s2.pos < copyStmt.End() {
				bad("a store precedes the copy")
			}
		}
		links[st.s] = copyStmt.Lhs[0].(*ast.Ident).Name
	}
	// the interface variables: every assignment is one of the copies, in different clauses of one switch outside loops
	xs := map[string]bool{}
	for _, x := range links {
		xs[x] = true
	}
	for x := range xs {
		if params[x] {
			problems = append(problems, fmt.Sprintf("%s, which shares a slice, is a parameter", x))
		}
		var sw *ast.SwitchStmt
		clauses := map[*ast.CaseClause]bool{}
		for _, m := range mentionsOf(x) {
			n := len(m.chain)
			parent := m.chain[n-1]
			switch p := parent.(type) {
			case *ast.ValueSpec:
				continue
			case *ast.ReturnStmt:
				continue // read
			case *ast.AssignStmt:
				isCopy := false
				for _, c := range copies {
					if c.as == p && c.x == x && links[exprString(p.Rhs[0])] == x {
						isCopy = true
					}
				}
				if !isCopy || inLoop(m.chain) {
					problems = append(problems, fmt.Sprintf("%s, which shares a slice, is assigned at line %d", x, lineOf6(fd, p.Pos())))
					continue
				}
				// the innermost enclosing case clause and its switch
				var cc *ast.CaseClause
				var s *ast.SwitchStmt
				for i := n - 1; i >= 0 && cc == nil; i-- {
					if c, ok := m.chain[i].(*ast.CaseClause); ok && i >= 2 {
						cc = c
						s, _ = m.chain[i-2].(*ast.SwitchStmt)
					}
				}
				if cc == nil || s == nil || clauses[cc] || (sw != nil && sw != s) {
					problems = append(problems, fmt.Sprintf("the copies into %s are not in different clauses of one switch", x))
					continue
				}
				sw = s
				clauses[cc] = true
				continue
			}
			problems = append(problems, fmt.Sprintf("%s, which shares a slice, is used at line %d other than in a return", x, lineOf6(fd, m.id.Pos())))
		}
	}
	return links, problems
}

var fset6 *token.FileSet

func lineOf6(fd *ast.FuncDecl, p token.Pos) int {
	if fset6 == nil {
		return 0
	}
	return fset6.Position(p).Line
}

// desugar6: if c { …; return … } else { B }  ->  if c { …; return … }; B   when B declares nothing
func desugar6(list []ast.Stmt) []ast.Stmt {
	var out []ast.Stmt
	for _, s := range list {
		switch x := s.(type) {
		case *ast.BlockStmt:
			x.List = desugar6(x.List)
		case *ast.ForStmt:
			x.Body.List = desugar6(x.Body.List)
		case *ast.RangeStmt:
			x.Body.List = desugar6(x.Body.List)
		case *ast.SwitchStmt:
			for _, c := range x.Body.List {
				cc := c.(*ast.CaseClause)
				cc.Body = desugar6(cc.Body)
			}
		case *ast.IfStmt:
			x.Body.List = desugar6(x.Body.List)
			if eb, ok := x.Else.(*ast.BlockStmt); ok {
				eb.List = desugar6(eb.List)
				declares := false
				for _, es := range eb.List {
					switch d := es.(type) {
					case *ast.DeclStmt:
						declares = true
					case *ast.AssignStmt:
						declares = declares || d.Tok == token.DEFINE
					}
				}
				if x.Init == nil && !declares && terminates(x.Body.List) {
					if _, isRet := x.Body.List[len(x.Body.List)-1].(*ast.ReturnStmt); isRet {
						x.Else = nil
						out = append(out, x)
						out = append(out, eb.List...)
						continue
					}
				}
			}
		}
		out = append(out, s)
	}
	return out
}

// ---------------------------------------------------------------------------
// the generated structs
// ---------------------------------------------------------------------------

func translateStruct6(rel, pkg, name string, b *strings.Builder) {
	_, f := parseFile(rel)
	if f == nil {
		return
	}
	var st *ast.StructType
	for _, d := range f.Decls {
		gd, ok := d.(*ast.GenDecl)
		if !ok || gd.Tok != token.TYPE {
			continue
		}
		for _, s := range gd.Specs {
			ts := s.(*ast.TypeSpec)
			if x, ok := ts.Type.(*ast.StructType); ok && ts.Name.Name == name {
				st = x
			}
		}
	}
	if st == nil {
		problem("translate: struct %s not found in %s", name, rel)
		fmt.Fprintf(b, "def %s := extract_problem_missing_struct\n\n", name)
		return
	}
	ty := gty("struct:" + name)
	var fields []fieldInfo
	fmt.Fprintf(b, "/-- %s.%s (%s) -/\nstructure %s where\n", pkg, name, rel, name)
	for _, fl := range st.Fields.List {
		fty := goTypeOf(fl.Type)
		var lty, dflt string
		switch {
		case fty == tString:
			fty, lty, dflt = tXStr, "Bytes", "[]" // a Go string is its bytes
		case isUnsigned(fty) && fty != tUint:
			lty, dflt = leanTy(fty), "0"
		case fty == tBytes || fty == tLU32 || isStructList(fty) || fty == tLIface:
			lty, dflt = leanTy(fty), "[]"
		case isStruct(fty):
			lty, dflt = leanTy(fty), "{}"
		case fty == tIface:
			lty, dflt = "Iface", "Iface.nil"
		default:
			problem("translate: struct %s: field type %s", name, exprString(fl.Type))
			fmt.Fprintf(b, "  extract_problem_field : extract_problem_untranslated\n")
			continue
		}
		names := fl.Names
		if id, ok := fl.Type.(*ast.Ident); ok && len(names) == 0 {
			names = []*ast.Ident{id} // an embedded struct is a field named after its type
		}
		if len(names) == 0 {
			problem("translate: struct %s: embedded field %s", name, exprString(fl.Type))
			fmt.Fprintf(b, "  extract_problem_field : extract_problem_untranslated\n")
			continue
		}
		for _, nm := range names {
			fields = append(fields, fieldInfo{nm.Name, fty})
			fmt.Fprintf(b, "  %s : %s := %s\n", leanIdent(nm.Name), lty, dflt)
		}
	}
	b.WriteString("\n")
	structFields[ty] = fields
	namedTypes[pkg+"."+name] = ty
	namedTypes[name] = ty
}

func ifaceDecl6(b *strings.Builder, doc string, names []string) {
	ifaceCtors5 = map[string]bool{}
	b.WriteString("/-- " + doc + " -/\ninductive Iface where\n  | nil\n")
	for _, name := range names {
		if _, ok := structFields[gty("struct:"+name)]; !ok {
			problem("translate: Iface constructor for the unknown struct %s", name)
			continue
		}
		ifaceCtors5[name] = true
		fmt.Fprintf(b, "  | %s (v : %s)\n", name, name)
	}
	b.WriteString("\n")
}

// ---------------------------------------------------------------------------
// SflowT.lean
// ---------------------------------------------------------------------------

type decUnit6 struct {
	fn      string
	intMode bool
	iface   bool // interface{} is the sum type Iface of the current level
}

func (t *tr) unit6(f *ast.File, u decUnit6, b *strings.Builder) {
	fd := findFunc(f, u.fn)
	if fd == nil || fd.Recv != nil {
		problem("translate: %s not found in decoders/sflow/sflow.go", u.fn)
		fmt.Fprintf(b, "def %s := extract_problem_missing_function\n\n", u.fn)
		return
	}
	fmt.Fprintf(b, "/-! decoders/sflow/sflow.go: %s -/\n", u.fn)
	fd.Body.List = desugar6(fd.Body.List)
	links, aliasProblems := analyzeAlias6(fd)
	aliasLinks6 = links
	intMode, ifaceMode5, stvMode5 = u.intMode, u.iface, false
	t.listStores5, t.skip5, t.fd5 = nil, 0, fd
	curList6, curIdx6 = nil, 0
	b.WriteString(t.function(fd))
	intMode, ifaceMode5 = false, false
	aliasLinks6 = map[string]string{}
	for _, p := range append(aliasProblems, checkListStores5(fd, t.listStores5)...) {
		problem("translate %s: %s", u.fn, p)
		fmt.Fprintf(b, "\ndef %s_aliasing := extract_problem_untranslated\n", leanIdent(u.fn))
	}
	b.WriteString("\n")
}

func genTranslateSflow6() {
	localNamed = map[string]gty{}
	errorWrappers = map[string]bool{}
	savedNamed, savedFields := map[string]gty{}, map[gty][]fieldInfo{}
	for k, v := range namedTypes {
		savedNamed[k] = v
	}
	for k, v := range structFields {
		savedFields[k] = v
	}
	savedSigs := map[string]fnSig{}
	for k, v := range translatedSigs {
		savedSigs[k] = v
	}
	savedCtors, savedIdx := ifaceCtors5, wrapperErrIdx5
	defer func() {
		localNamed = map[string]gty{}
		intMode, ifaceMode5, stvMode5, sflowMode6 = false, false, false, false
		namedTypes, structFields, translatedSigs = savedNamed, savedFields, savedSigs
		ifaceCtors5, wrapperErrIdx5 = savedCtors, savedIdx
		pkgConsts6, aliasLinks6, curList6, fset6 = map[string]constant.Value{}, map[string]string{}, nil, nil
	}()
	ifaceCtors5 = map[string]bool{}
	wrapperErrIdx5 = map[string][2]int{}
	sflowMode6 = true
	// utils.MacAddress / utils.IPAddress are `[]byte` (decoders/utils/types.go); BinaryRead treats them like []uint8
	checkBytesTypes6()
	namedTypes["utils.MacAddress"] = tBytes
	namedTypes["utils.IPAddress"] = tBytes

	const rel = "decoders/sflow/sflow.go"
	var b strings.Builder
	b.WriteString("/- GENERATED by /verif/extract (translate.go, translate4.go, translate5.go, translate6.go) — do not edit.\n")
	b.WriteString("   Syntax-directed translations of the sFlow v5 wire decoder, decoders/sflow/sflow.go (DecodeIP, DecodeCounterRecord,\n")
	b.WriteString("   DecodeFlowRecord, DecodeSample, DecodeMessage, DecodeMessageVersion); the *bytes.Buffer is the list of the bytes that\n")
	b.WriteString("   remain, threaded through; the structs behind pointers are part of the state. `interface{}` is a generated sum type:\n")
	b.WriteString("   TS.Iface for what a record holds, TS.SM.Iface for what a packet holds.\n")
	b.WriteString("   Proofs/C04Trans.lean and C04Trans2.lean prove them equal to the hand-written model. -/\n")
	b.WriteString("import Goflow.Producer.GoPrims\nset_option linter.unusedVariables false\nnamespace Goflow.Generated.TS\nopen Goflow Goflow.Producer\n\n")

	recordStructs := []string{"IfCounters", "EthernetCounters", "RawRecord", "SampledHeader", "SampledEthernet", "SampledIPBase", "SampledIPv4",
		"SampledIPv6", "ExtendedSwitch", "ExtendedRouter", "ExtendedGateway", "EgressQueue", "ExtendedACL", "ExtendedFunction"}
	translateStruct6("decoders/sflow/packet.go", "sflow", "RecordHeader", &b)
	for _, n := range recordStructs {
		translateStruct6("decoders/sflow/datastructure.go", "sflow", n, &b)
	}
	var ctors []string
	for _, n := range recordStructs {
		if n != "SampledIPBase" {
			ctors = append(ctors, n)
		}
	}
	ifaceDecl6(&b, "`interface{}` as far as a record holds one (FlowRecord.Data, CounterRecord.Data): nil, or one of these structs", ctors)
	recordCtors := ifaceCtors5
	ifaceMode5 = true
	translateStruct6("decoders/sflow/packet.go", "sflow", "FlowRecord", &b)
	translateStruct6("decoders/sflow/packet.go", "sflow", "CounterRecord", &b)
	ifaceMode5 = false

	t, f := newDecoderTr(rel)
	if f == nil {
		b.WriteString("def DecodeIP := extract_problem_missing_file\n\nend Goflow.Generated.TS\n")
		writeIfChanged("SflowT.lean", b.String())
		return
	}
	fset6 = t.fset
	intConstsOf6(f)
	for _, u := range []decUnit6{
		{"DecodeIP", false, false},
		{"DecodeCounterRecord", false, true},
		{"DecodeFlowRecord", true, true},
	} {
		t.unit6(f, u, &b)
	}
	for _, n := range []string{"SampleHeader", "FlowSample", "CounterSample", "ExpandedFlowSample", "DropSample"} {
		translateStruct6("decoders/sflow/packet.go", "sflow", n, &b)
	}
	b.WriteString("end Goflow.Generated.TS\n\nnamespace Goflow.Generated.TS.SM\nopen Goflow Goflow.Producer\n\n")
	ifaceDecl6(&b, "`interface{}` as far as a packet holds one (the result of DecodeSample, Packet.Samples): nil, or one of these structs",
		[]string{"FlowSample", "CounterSample", "ExpandedFlowSample", "DropSample"})
	_ = recordCtors
	ifaceMode5 = true
	translateStruct6("decoders/sflow/packet.go", "sflow", "Packet", &b)
	ifaceMode5 = false
	for _, u := range []decUnit6{
		{"DecodeSample", false, true},
		{"DecodeMessage", false, true},
		{"DecodeMessageVersion", false, true},
	} {
		t.unit6(f, u, &b)
	}
	b.WriteString("end Goflow.Generated.TS.SM\n")
	writeIfChanged("SflowT.lean", b.String())
}

// the package-level integer constants with explicit literal values
func intConstsOf6(f *ast.File) {
	pkgConsts6 = map[string]constant.Value{}
	for _, d := range f.Decls {
		gd, ok := d.(*ast.GenDecl)
		if !ok || gd.Tok != token.CONST {
			continue
		}
		for _, s := range gd.Specs {
			vs := s.(*ast.ValueSpec)
			if vs.Type != nil {
				continue // a typed constant is not an untyped one
			}
			for i, nm := range vs.Names {
				if i < len(vs.Values) {
					if bl, ok := vs.Values[i].(*ast.BasicLit); ok && bl.Kind == token.INT {
						if _, err := strconv.ParseInt(bl.Value, 0, 64); err == nil {
							pkgConsts6[nm.Name] = constant.MakeFromLiteral(bl.Value, token.INT, 0)
						}
					}
				}
			}
		}
	}
}

// utils.MacAddress and utils.IPAddress must be declared as []byte for the mapping above to hold
func checkBytesTypes6() {
	_, f := parseFile("decoders/utils/types.go")
	found := map[string]bool{}
	if f != nil {
		for _, d := range f.Decls {
			gd, ok := d.(*ast.GenDecl)
			if !ok || gd.Tok != token.TYPE {
				continue
			}
			for _, s := range gd.Specs {
				ts := s.(*ast.TypeSpec)
				if (ts.Name.Name == "MacAddress" || ts.Name.Name == "IPAddress") && goTypeOf(ts.Type) == tBytes {
					found[ts.Name.Name] = true
				}
			}
		}
	}
	if !found["MacAddress"] || !found["IPAddress"] {
		problem("translate: utils.MacAddress / utils.IPAddress are not declared as []byte in decoders/utils/types.go")
	}
}
