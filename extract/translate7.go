package main

// translate7.go: what the translator gained for the sFlow -> flow message conversion of producer/proto/producer_sf.go
// (Goflow/Generated/SflowProdT.lean: ParseSampledHeaderConfig, SearchSFlowSampleConfig, GetSFlowFlowSamples).
//
//   the decoded sFlow packet (decoders/sflow/packet.go, datastructure.go)
//                                      -> generated structures; `utils.IPAddress` / `utils.MacAddress` are `[]byte` (read off
//                                         decoders/utils/types.go); an embedded struct is a field named after its type and
//                                         `x.F` for a promoted field F is `x.Embedded.F`
//   interface{} / []interface{}        -> one generated sum type per place an interface{} of the decoder lives in: RecordData for
//                                         FlowRecord.Data, CounterData for CounterRecord.Data, Sample for Packet.Samples and the
//                                         `flowSample interface{}` parameter. The constructors are read off the decoder (the
//                                         structs DecodeFlowRecord / DecodeCounterRecord / DecodeSample store there) plus `nil`.
//                                         (One sum for every interface{} would be a type that contains itself through structures.)
//   switch v := x.(type) / switch v := x.F.(type) / switch x.(type)
//                                      -> a match on the sum; `v := v.(type)` shadows as in Go; inside an outlined loop every arm
//                                         is a definition of its own, F_case_T
//   p *T for a generated struct T in a func(msg, …) error, only read there
//                                      -> the struct value; (*p).F is p.F; a call site passes &x for a struct variable x
//   s[i] on []uint32                   -> Go.idxL / Go.idxLI
//   var records []T outside the wire decoders, DefaultEnvironment (prelude)
//
// Everything else goes through fail(): an EXTRACT-PROBLEM line and an identifier Lean does not know.

import (
	"fmt"
	"go/ast"
	"go/constant"
	"go/token"
	"strings"
)

var (
	mode7         bool
	iface7Cur     gty                         // what `interface{}` means where the translator is right now ("" = not known)
	ifaceMembers7 = map[gty][]string{}        // sum type -> the structs that have a constructor in it
	byteNamed7    = map[string]bool{}         // utils.IPAddress, utils.MacAddress: named []byte types
	embedded7     = map[gty]map[string]bool{} // struct -> its embedded fields
	roPtr7        = map[string]map[int]bool{} // translated function -> the struct pointer parameters it only reads
	outlineArms7  bool                        // the arms of a type switch that ends a loop body become definitions
)

func isIface7(t gty) bool     { return strings.HasPrefix(string(t), "iface7:") }
func isIfaceList7(t gty) bool { return strings.HasPrefix(string(t), "list:iface7:") }

func goTypeOf7(e ast.Expr) (gty, bool) {
	if !mode7 {
		return tBad, false
	}
	s := exprString(e)
	switch s {
	case "interface{}", "any":
		if iface7Cur != "" {
			return iface7Cur, true
		}
	case "[]interface{}", "[]any":
		if iface7Cur != "" {
			return gty("list:" + string(iface7Cur)), true
		}
	}
	if byteNamed7[s] {
		return tBytes, true
	}
	return tBad, false
}

func leanTy7(t gty) (string, bool) {
	switch {
	case isIface7(t):
		return strings.TrimPrefix(string(t), "iface7:"), true
	case isIfaceList7(t):
		return "List " + strings.TrimPrefix(string(t), "list:iface7:"), true
	}
	return "", false
}

func elemOf7(t gty) (gty, bool) {
	if isIfaceList7(t) {
		return gty(strings.TrimPrefix(string(t), "list:")), true
	}
	return tBad, false
}

func zeroOf7(t gty) (string, bool) {
	if !mode7 {
		return "", false
	}
	switch {
	case isIface7(t):
		return leanTy(t) + ".nil", true
	case isIfaceList7(t), isStructList(t):
		return "[]", true
	}
	return "", false
}

// x.F for a field F promoted from an embedded struct (one level; two embedded structs with the same field are refused)
func (t *tr) promoted7(base string, ty gty, name string) (val, bool) {
	if !mode7 {
		return val{}, false
	}
	var found []val
	for _, f := range structFields[ty] {
		if !embedded7[ty][f.name] {
			continue
		}
		for _, g := range structFields[f.ty] {
			if g.name == name {
				found = append(found, val{code: base + "." + leanIdent(f.name) + "." + leanIdent(g.name), ty: g.ty})
			}
		}
	}
	if len(found) == 1 {
		return found[0], true
	}
	return val{}, false
}

// s[i] on a []uint32 or a []interface{}
func (t *tr) index7(base val, x *ast.IndexExpr) (val, bool) {
	if !mode7 || (base.ty != tLU32 && !isIfaceList7(base.ty)) {
		return val{}, false
	}
	i := t.as(x.Index, t.expr(x.Index), tInt)
	return val{code: t.bind("Go.idxL" + iSuffix() + " " + base.code + " " + i), ty: elemOf(base.ty)}, true
}

// &x handed to a translated function that only reads the struct behind the pointer
func (t *tr) ptrArg7(fn string, i int, a ast.Expr, want gty) (string, bool) {
	if !mode7 || !roPtr7[fn][i] || !isStruct(want) {
		return "", false
	}
	op, ok := addrOperand(a)
	if !ok {
		return "", false
	}
	id, ok := op.(*ast.Ident)
	if !ok {
		return "", false
	}
	if ty, _ := t.lookup(id.Name); ty != want || t.refParams[id.Name] {
		return "", false
	}
	return leanIdent(id.Name), true
}

// switch v := x.(type) { case pkg.T: … } on one of the generated sums
func (t *tr) typeSwitch7(x *ast.TypeSwitchStmt, rest []ast.Stmt, k konts) ([]string, bool) {
	if !mode7 || x.Init != nil {
		return nil, false
	}
	var ta *ast.TypeAssertExpr
	bindName := ""
	switch a := x.Assign.(type) {
	case *ast.AssignStmt:
		if len(a.Lhs) == 1 && len(a.Rhs) == 1 && a.Tok == token.DEFINE {
			if id, ok := a.Lhs[0].(*ast.Ident); ok {
				bindName = id.Name
			}
			ta, _ = a.Rhs[0].(*ast.TypeAssertExpr)
		}
	case *ast.ExprStmt:
		ta, _ = a.X.(*ast.TypeAssertExpr)
	}
	if ta == nil || ta.Type != nil {
		return nil, false
	}
	scrutName := ""
	switch s := ta.X.(type) {
	case *ast.Ident:
		scrutName = s.Name
	case *ast.SelectorExpr:
		if _, ok := s.X.(*ast.Ident); !ok {
			return nil, false
		}
	default:
		return nil, false
	}
	npre := len(t.pre)
	sv := t.expr(ta.X)
	if !isIface7(sv.ty) {
		t.pre = t.pre[:npre]
		return nil, false
	}
	sum := leanTy(sv.ty)
	isMember := map[string]bool{}
	for _, m := range ifaceMembers7[sv.ty] {
		isMember[m] = true
	}
	mark := len(t.env)
	out := t.flush()
	asg := assignedNames([]ast.Node{x.Body})
	if bindName != "" && bindName != "_" {
		if _, exists := t.lookup(bindName); exists && bindName != scrutName {
			return append(out, t.fail(x, "type switch binding %s shadows a variable other than the one inspected", bindName)), true
		}
		if asg[bindName] && bindName == scrutName {
			// the join point after the switch is handed the variable inspected, not the binding that shadows it in the arms
			return append(out, t.fail(x, "assignment to (a field of) the type switch binding %s, which shadows the variable inspected", bindName)), true
		}
	}
	kk := k
	if len(rest) != 0 {
		var params, args []string
		for _, v := range t.env[:mark] {
			if asg[v.name] {
				params = append(params, "("+leanIdent(v.name)+" : "+leanTy(v.ty)+")")
				args = append(args, leanIdent(v.name))
			}
		}
		if len(params) == 0 {
			params, args = []string{"(_ : Unit)"}, []string{"()"}
		}
		t.joins++
		kn := fmt.Sprintf("k_%d", t.joins)
		restLines := t.block(rest, k)
		out = append(out, "let "+kn+" := fun "+strings.Join(params, " ")+" =>")
		out = append(out, indent(restLines, "  ")...)
		kk = konts{fall: []string{kn + " " + strings.Join(args, " ")}, cont: k.cont}
	}
	kk.brk = nil // `break` would leave the switch
	outlineArms := outlineArms7 && t.outline && len(rest) == 0 && t.inLoop > 0
	out = append(out, "match "+sv.code+" with")
	var deflt []ast.Stmt
	seen := map[string]bool{}
	for _, c := range x.Body.List {
		cc := c.(*ast.CaseClause)
		if cc.List == nil {
			deflt = cc.Body
			continue
		}
		if len(cc.List) != 1 {
			// with several types in one case the binding keeps the interface type
			return append(out, t.fail(cc, "type switch case with several types")), true
		}
		cty := goTypeOf(cc.List[0])
		cname := leanTy(cty)
		if !isStruct(cty) || !isMember[cname] || seen[cname] {
			return append(out, t.fail(cc, "type switch case %s (not a constructor of %s, or twice)", exprString(cc.List[0]), sum)), true
		}
		seen[cname] = true
		bn := "_"
		inner := len(t.env)
		if bindName != "" && bindName != "_" {
			bn = leanIdent(bindName)
			if bindName == scrutName {
				t.env = append(t.env, varInfo{bindName, cty}) // a new variable of the arm that shadows the one inspected, as in Go
			} else {
				t.declare(cc, bindName, cty)
			}
		}
		out = append(out, "| "+sum+"."+cname+" "+bn+" =>")
		t.depth++
		lines := t.block(cc.Body, kk)
		if outlineArms {
			lines = t.outlineDef("case_"+cname, len(t.env), lines)
		}
		out = append(out, indent(lines, "  ")...)
		t.depth--
		t.env = t.env[:inner]
	}
	out = append(out, "| _ =>")
	t.depth++
	out = append(out, indent(t.block(deflt, kk), "  ")...)
	t.depth--
	return out, true
}

// ---------------------------------------------------------------------------
// the structures and the sums
// ---------------------------------------------------------------------------

// the named []byte types of decoders/utils/types.go
func scanByteNamed7() {
	_, f := parseFile("decoders/utils/types.go")
	if f == nil {
		return
	}
	for _, d := range f.Decls {
		gd, ok := d.(*ast.GenDecl)
		if !ok || gd.Tok != token.TYPE {
			continue
		}
		for _, s := range gd.Specs {
			ts := s.(*ast.TypeSpec)
			if at, ok := ts.Type.(*ast.ArrayType); ok && at.Len == nil && ts.Assign == token.NoPos {
				if el := exprString(at.Elt); el == "byte" || el == "uint8" {
					byteNamed7["utils."+ts.Name.Name] = true
				}
			}
		}
	}
}

// translateStruct7: a struct of decoders/sflow; `interface{}` fields have the type `iface`
func translateStruct7(rel, pkg, name string, iface gty, b *strings.Builder) {
	_, f := parseFile(rel)
	if f == nil {
		return
	}
	var st *ast.StructType
	for _, d := range f.Decls {
		gd, ok := d.(*ast.GenDecl)
		if !ok || gd.Tok != token.TYPE {
			continue
		}
		for _, s := range gd.Specs {
			ts := s.(*ast.TypeSpec)
			if x, ok := ts.Type.(*ast.StructType); ok && ts.Name.Name == name {
				st = x
			}
		}
	}
	if st == nil {
		problem("translate: struct %s not found in %s", name, rel)
		fmt.Fprintf(b, "def %s := extract_problem_missing_struct\n\n", name)
		return
	}
	saved := iface7Cur
	iface7Cur = iface
	defer func() { iface7Cur = saved }()
	ty := gty("struct:" + name)
	var fields []fieldInfo
	embedded7[ty] = map[string]bool{}
	fmt.Fprintf(b, "/-- %s.%s (%s) -/\nstructure %s where\n", pkg, name, rel, name)
	for _, fl := range st.Fields.List {
		fty := goTypeOf(fl.Type)
		ok := isUnsigned(fty) || fty == tBytes || fty == tLU32 || fty == tString || isStruct(fty) || isStructList(fty) || isIface7(fty) || isIfaceList7(fty)
		if !ok || fty == tUint {
			problem("translate: struct %s: field type %s", name, exprString(fl.Type))
			fmt.Fprintf(b, "  extract_problem_field : extract_problem_untranslated\n")
			continue
		}
		names := fl.Names
		if len(names) == 0 {
			id, isID := fl.Type.(*ast.Ident)
			if !isID || !isStruct(fty) {
				problem("translate: struct %s: embedded field %s", name, exprString(fl.Type))
				fmt.Fprintf(b, "  extract_problem_field : extract_problem_untranslated\n")
				continue
			}
			names = []*ast.Ident{id} // an embedded struct is a field named after its type
			embedded7[ty][id.Name] = true
		}
		for _, nm := range names {
			fields = append(fields, fieldInfo{nm.Name, fty})
			fmt.Fprintf(b, "  %s : %s := %s\n", leanIdent(nm.Name), leanTy(fty), defaultOf(fty))
		}
	}
	b.WriteString("\n")
	structFields[ty] = fields
	namedTypes[pkg+"."+name] = ty
	namedTypes[name] = ty
}

// the struct types a decoder function stores in an interface{}: `target = v` for a variable v declared `var v T`,
// `v := T{…}` in the same function; in order of first appearance
func storedTypes7(rel, fn, target string) []string {
	_, f := parseFile(rel)
	if f == nil {
		return nil
	}
	fd := findFunc(f, fn)
	if fd == nil || fd.Body == nil {
		problem("translate: %s not found in %s", fn, rel)
		return nil
	}
	var out []string
	seen := map[string]bool{}
	// a variable may be declared with different types in different case clauses: resolve inside the innermost clause / block
	var walk func(list []ast.Stmt, env map[string]string)
	walk = func(list []ast.Stmt, outer map[string]string) {
		env := map[string]string{}
		for k, v := range outer {
			env[k] = v
		}
		for _, s := range list {
			switch x := s.(type) {
			case *ast.DeclStmt:
				if gd, ok := x.Decl.(*ast.GenDecl); ok && gd.Tok == token.VAR {
					for _, sp := range gd.Specs {
						vs := sp.(*ast.ValueSpec)
						if id, ok := vs.Type.(*ast.Ident); ok {
							for _, nm := range vs.Names {
								env[nm.Name] = id.Name
							}
						}
					}
				}
			case *ast.AssignStmt:
				if x.Tok == token.DEFINE && len(x.Lhs) == 1 && len(x.Rhs) == 1 {
					if cl, ok := x.Rhs[0].(*ast.CompositeLit); ok {
						if id, ok := cl.Type.(*ast.Ident); ok {
							env[exprString(x.Lhs[0])] = id.Name
						}
					}
				}
				if x.Tok == token.ASSIGN && len(x.Lhs) == 1 && len(x.Rhs) == 1 && exprString(x.Lhs[0]) == target {
					id, ok := x.Rhs[0].(*ast.Ident)
					tyName := ""
					if ok {
						tyName = env[id.Name]
					}
					if tyName == "" {
						problem("translate: %s: what is stored by `%s = %s` is not a variable of a known struct type", fn, target, exprString(x.Rhs[0]))
					} else if !seen[tyName] {
						seen[tyName] = true
						out = append(out, tyName)
					}
				}
			case *ast.SwitchStmt:
				for _, c := range x.Body.List {
					walk(c.(*ast.CaseClause).Body, env)
				}
			case *ast.IfStmt:
				walk(x.Body.List, env)
				if eb, ok := x.Else.(*ast.BlockStmt); ok {
					walk(eb.List, env)
				}
			case *ast.ForStmt:
				walk(x.Body.List, env)
			case *ast.BlockStmt:
				walk(x.List, env)
			}
		}
	}
	walk(fd.Body.List, map[string]string{})
	return out
}

func sum7(name, doc string, members []string, b *strings.Builder) gty {
	ty := gty("iface7:" + name)
	fmt.Fprintf(b, "/-- %s -/\ninductive %s where\n  | nil\n", doc, name)
	var ms []string
	for _, m := range members {
		if _, ok := structFields[gty("struct:"+m)]; !ok {
			problem("translate: %s constructor for the unknown struct %s", name, m)
			continue
		}
		ms = append(ms, m)
		fmt.Fprintf(b, "  | %s (v : %s)\n", m, m)
	}
	b.WriteString("\n")
	ifaceMembers7[ty] = ms
	return ty
}

// (*p).F -> p.F for the struct pointer parameters (the same thing in Go; a nil p is not modelled: the callers hand in &x)
func rewriteDeref7(fd *ast.FuncDecl) map[string]bool {
	ptrs := map[string]bool{}
	for _, p := range fd.Type.Params.List {
		if st, ok := p.Type.(*ast.StarExpr); ok && isStruct(goTypeOf(st.X)) {
			for _, nm := range p.Names {
				ptrs[nm.Name] = true
			}
		}
	}
	ast.Inspect(fd.Body, func(n ast.Node) bool {
		se, ok := n.(*ast.SelectorExpr)
		if !ok {
			return true
		}
		var e ast.Expr = se.X
		for {
			p, ok := e.(*ast.ParenExpr)
			if !ok {
				break
			}
			e = p.X
		}
		if star, ok := e.(*ast.StarExpr); ok {
			if id, ok := star.X.(*ast.Ident); ok && ptrs[id.Name] {
				se.X = id
			}
		}
		return true
	})
	return ptrs
}

// for _, v := range p.F { … }  ->  rsrc_N := p.F; for _, v := range rsrc_N { … }
// (Go evaluates the range expression once, before the loop; the translator ranges over variables only)
func desugarRange7(fd *ast.FuncDecl) {
	used := usedNames([]ast.Node{fd})
	n := 0
	var fix func(list []ast.Stmt) []ast.Stmt
	fix = func(list []ast.Stmt) []ast.Stmt {
		var out []ast.Stmt
		for _, s := range list {
			ast.Inspect(s, func(nd ast.Node) bool {
				switch x := nd.(type) {
				case *ast.BlockStmt:
					x.List = fix(x.List)
					return false
				case *ast.CaseClause:
					x.Body = fix(x.Body)
					return false
				case *ast.FuncLit:
					return false
				}
				return true
			})
			if rs, ok := s.(*ast.RangeStmt); ok {
				if se, ok := rs.X.(*ast.SelectorExpr); ok {
					if _, ok := se.X.(*ast.Ident); ok {
						n++
						name := fmt.Sprintf("rsrc_%d", n)
						if used[name] {
							problem("translate %s: identifier %s collides with a generated name", fd.Name.Name, name)
						}
						id := &ast.Ident{Name: name, NamePos: rs.Pos()}
						out = append(out, &ast.AssignStmt{Lhs: []ast.Expr{id}, Tok: token.DEFINE, TokPos: rs.Pos(), Rhs: []ast.Expr{se}})
						rs.X = &ast.Ident{Name: name, NamePos: se.Pos()}
					}
				}
			}
			out = append(out, s)
		}
		return out
	}
	fd.Body.List = fix(fd.Body.List)
}

type unit7 struct {
	fn      string
	intMode bool // Go int as Lean Int: the function subtracts ints
	outline bool
}

func genTranslateSflowProd() {
	mode7 = true
	savedNamed, savedFields, savedSigs := map[string]gty{}, map[gty][]fieldInfo{}, map[string]fnSig{}
	for k, v := range namedTypes {
		savedNamed[k] = v
	}
	for k, v := range structFields {
		savedFields[k] = v
	}
	for k, v := range translatedSigs {
		savedSigs[k] = v
	}
	defer func() {
		mode7, iface7Cur, intMode, outlineArms7 = false, "", false, false
		for k := range namedTypes {
			delete(namedTypes, k)
		}
		for k, v := range savedNamed {
			namedTypes[k] = v
		}
		for k := range structFields {
			delete(structFields, k)
		}
		for k, v := range savedFields {
			structFields[k] = v
		}
		for k := range translatedSigs {
			delete(translatedSigs, k)
		}
		for k, v := range savedSigs {
			translatedSigs[k] = v
		}
		ifaceMembers7, byteNamed7, embedded7, roPtr7 = map[gty][]string{}, map[string]bool{}, map[gty]map[string]bool{}, map[string]map[int]bool{}
	}()
	scanByteNamed7()

	var b strings.Builder
	b.WriteString("/- GENERATED by /verif/extract (translate.go, translate3.go, translate7.go) — do not edit.\n")
	b.WriteString("   The decoded sFlow packet (decoders/sflow/packet.go, datastructure.go) as structures, the interface{} values the decoder\n")
	b.WriteString("   stores as sum types, and syntax-directed translations of ParseSampledHeaderConfig, SearchSFlowSampleConfig and\n")
	b.WriteString("   GetSFlowFlowSamples (producer/proto/producer_sf.go) into the primitives of Goflow/Producer/GoPrims.lean. The body of the\n")
	b.WriteString("   loop over the records of a sample is SearchSFlowSampleConfig_loop1_body, one definition per arm of its type switch.\n")
	b.WriteString("   Proofs/C09Trans.lean proves them equal to the hand-written model (Goflow/Producer/Sflow.lean). -/\n")
	b.WriteString("import Goflow.Producer.GoPrims\nset_option linter.unusedVariables false\nnamespace Goflow.Generated.TSP\nopen Goflow Goflow.Producer\nopen Goflow.Go (DefaultEnvironment)\n\n")

	const ds, pk = "decoders/sflow/datastructure.go", "decoders/sflow/packet.go"
	recMembers := storedTypes7("decoders/sflow/sflow.go", "DecodeFlowRecord", "flowRecord.Data")
	cntMembers := storedTypes7("decoders/sflow/sflow.go", "DecodeCounterRecord", "counterRecord.Data")
	smpMembers := storedTypes7("decoders/sflow/sflow.go", "DecodeSample", "sample")
	if len(recMembers) == 0 || len(cntMembers) == 0 || len(smpMembers) == 0 {
		problem("translate: the decoder stores nothing in FlowRecord.Data / CounterRecord.Data / the sample")
	}
	done := map[string]bool{}
	emit := func(rel, name string, iface gty) {
		if !done[name] {
			done[name] = true
			translateStruct7(rel, "sflow", name, iface, &b)
		}
	}
	emit(ds, "SampledIPBase", "")
	for _, m := range recMembers {
		emit(ds, m, "")
	}
	recTy := sum7("RecordData", "what `FlowRecord.Data interface{}` holds as far as DecodeFlowRecord fills it: nil, or one of these structs", recMembers, &b)
	for _, m := range cntMembers {
		emit(ds, m, "")
	}
	cntTy := sum7("CounterData", "what `CounterRecord.Data interface{}` holds as far as DecodeCounterRecord fills it", cntMembers, &b)
	emit(pk, "RecordHeader", "")
	emit(pk, "FlowRecord", recTy)
	emit(pk, "CounterRecord", cntTy)
	emit(pk, "SampleHeader", "")
	for _, m := range smpMembers {
		emit(pk, m, "")
	}
	smpTy := sum7("Sample", "what an element of `Packet.Samples []interface{}` (and the `flowSample interface{}` of the producer) holds as far as DecodeSample fills it", smpMembers, &b)
	emit(pk, "Packet", smpTy)

	iface7Cur = smpTy
	flowTypes := pbFlowTypes()
	rel := "producer/proto/producer_sf.go"
	for _, u := range []unit7{
		{"ParseSampledHeaderConfig", false, false},
		{"SearchSFlowSampleConfig", true, true},
		{"GetSFlowFlowSamples", false, false},
	} {
		fset, f := parseFile(rel)
		if f == nil {
			fmt.Fprintf(&b, "def %s := extract_problem_missing_file\n\n", u.fn)
			continue
		}
		t := &tr{fset: fset, globals: map[string]gty{}, msgKind: map[string]string{}, imports: map[string]string{}, consts: map[string]val{}}
		t.outline = u.outline
		outlineArms7 = u.outline
		for _, c := range flowCols {
			t.msgKind[c.goName] = c.kind
		}
		// DefaultEnvironment (producer_packet.go): the prelude's Go.DefaultEnvironment
		if _, pf := parseFile("producer/proto/producer_packet.go"); pf != nil && declaresVar7(pf, "DefaultEnvironment", "*BaseParserEnvironment") {
			t.globals["DefaultEnvironment"] = tPMapper
		}
		for _, im := range f.Imports {
			path := strings.Trim(im.Path.Value, "\"")
			alias := path[strings.LastIndex(path, "/")+1:]
			if im.Name != nil {
				alias = im.Name.Name
			}
			t.imports[alias] = path
			if strings.HasSuffix(path, "/goflow2/v2/pb") {
				for name, lit := range flowTypes {
					c := constant.MakeFromLiteral(lit, token.INT, 0)
					if constFits(c, tU32) {
						t.consts[alias+"."+name] = val{code: "(" + c.ExactString() + " : UInt32)", ty: tU32}
					}
				}
			}
		}
		fd := findFunc(f, u.fn)
		if fd == nil || fd.Recv != nil || fd.Body == nil {
			problem("translate: %s not found in %s", u.fn, rel)
			fmt.Fprintf(&b, "def %s := extract_problem_missing_function\n\n", u.fn)
			continue
		}
		ptrs := rewriteDeref7(fd)
		desugarRange7(fd)
		fmt.Fprintf(&b, "/-! %s: %s -/\n", rel, u.fn)
		intMode = u.intMode
		text := t.function(fd)
		intMode = false
		b.WriteString(text)
		// a struct behind a pointer parameter comes back to the caller only if the function leaves it alone
		if len(ptrs) > 0 {
			asg := assignedNames([]ast.Node{fd.Body})
			ro := map[int]bool{}
			i := 0
			kind := translatedSigs[u.fn].kind
			bad := kind != "msgerr" && kind != "tuple"
			for _, p := range fd.Type.Params.List {
				for _, nm := range p.Names {
					if ptrs[nm.Name] {
						if asg[nm.Name] {
							bad = true
						}
						ro[i] = true
					}
					i++
				}
			}
			if bad {
				problem("translate %s: a struct pointer parameter is written, handed on, or the function is not a func(msg, …) error", u.fn)
				fmt.Fprintf(&b, "\ndef %s_pointer := extract_problem_untranslated\n", leanIdent(u.fn))
			} else {
				roPtr7[u.fn] = ro
			}
		}
		b.WriteString("\n")
	}
	b.WriteString("end Goflow.Generated.TSP\n")
	writeIfChanged("SflowProdT.lean", b.String())
}

// var ( … name ty … ) at package level
func declaresVar7(f *ast.File, name, ty string) bool {
	for _, d := range f.Decls {
		gd, ok := d.(*ast.GenDecl)
		if !ok || gd.Tok != token.VAR {
			continue
		}
		for _, s := range gd.Specs {
			vs := s.(*ast.ValueSpec)
			if vs.Type == nil || exprString(vs.Type) != ty {
				continue
			}
			for _, nm := range vs.Names {
				if nm.Name == name {
					return true
				}
			}
		}
	}
	return false
}
