package main

// Lock discipline facts (C15): for every function of the files holding the four shared maps (per-exporter template
// systems of the pipe, per-address sampling systems of the producer, the templates of a template system, the rates
// of a sampling system) the events that matter for a lockset argument, in source order, with block structure:
//   lock / rlock / unlock / runlock / defer-unlock / defer-runlock   <lock expression>
//   load / store / delete / ref                                      <map expression>   (ref: any other use of the field)
//   enter / exit                                                     block boundaries
//   return
// Proofs/C15Locks.lean runs a small lockset checker over them (kernel-evaluated) and proves what the checker's
// verdict means.

import (
	"fmt"
	"go/ast"
	"go/token"
	"strings"
)

var trackedFields = map[string]bool{"templates": true, "sampling": true}

type lockEv struct {
	kind, subj string
	depth      int
}

func isTrackedSel(e ast.Expr) (string, bool) {
	se, ok := e.(*ast.SelectorExpr)
	if !ok || !trackedFields[se.Sel.Name] {
		return "", false
	}
	if id, ok := se.X.(*ast.Ident); ok {
		return id.Name + "." + se.Sel.Name, true
	}
	return "", false
}

func lockCall(ce *ast.CallExpr) (string, string, bool) {
	se, ok := ce.Fun.(*ast.SelectorExpr)
	if !ok {
		return "", "", false
	}
	switch se.Sel.Name {
	case "Lock", "Unlock", "RLock", "RUnlock":
		return strings.ToLower(se.Sel.Name), exprString(se.X), true
	}
	return "", "", false
}

func eventsOf(fd *ast.FuncDecl) []lockEv {
	var out []lockEv
	var expr func(e ast.Node, depth int)
	var stmts func(list []ast.Stmt, depth int)
	var stmt func(s ast.Stmt, depth int)
	// expressions: loads, refs, calls (lock operations, delete); function literals are walked as nested blocks
	expr = func(n ast.Node, depth int) {
		if n == nil {
			return
		}
		ast.Inspect(n, func(x ast.Node) bool {
			switch t := x.(type) {
			case *ast.FuncLit:
				out = append(out, lockEv{"enter", "func", depth + 1})
				stmts(t.Body.List, depth+1)
				out = append(out, lockEv{"exit", "func", depth + 1})
				return false
			case *ast.CallExpr:
				if k, l, ok := lockCall(t); ok {
					out = append(out, lockEv{k, l, depth})
					return false
				}
				if id, ok := t.Fun.(*ast.Ident); ok && id.Name == "delete" && len(t.Args) == 2 {
					if m, ok := isTrackedSel(t.Args[0]); ok {
						expr(t.Args[1], depth)
						out = append(out, lockEv{"delete", m, depth})
						return false
					}
				}
			case *ast.IndexExpr:
				if m, ok := isTrackedSel(t.X); ok {
					expr(t.Index, depth)
					out = append(out, lockEv{"load", m, depth})
					return false
				}
			case *ast.SelectorExpr:
				if m, ok := isTrackedSel(t); ok {
					out = append(out, lockEv{"ref", m, depth})
					return false
				}
			}
			return true
		})
	}
	block := func(b *ast.BlockStmt, depth int) {
		if b == nil {
			return
		}
		out = append(out, lockEv{"enter", "", depth + 1})
		stmts(b.List, depth+1)
		out = append(out, lockEv{"exit", "", depth + 1})
	}
	stmts = func(list []ast.Stmt, depth int) {
		for _, s := range list {
			stmt(s, depth)
		}
	}
	stmt = func(s ast.Stmt, depth int) {
		switch t := s.(type) {
		case nil:
		case *ast.BlockStmt:
			block(t, depth)
		case *ast.IfStmt:
			stmt(t.Init, depth)
			expr(t.Cond, depth)
			block(t.Body, depth)
			if t.Else != nil {
				if eb, ok := t.Else.(*ast.BlockStmt); ok {
					block(eb, depth)
				} else {
					out = append(out, lockEv{"enter", "", depth + 1})
					stmt(t.Else, depth+1)
					out = append(out, lockEv{"exit", "", depth + 1})
				}
			}
		case *ast.ForStmt:
			stmt(t.Init, depth)
			expr(t.Cond, depth)
			block(t.Body, depth)
			stmt(t.Post, depth)
		case *ast.RangeStmt:
			expr(t.X, depth)
			block(t.Body, depth)
		case *ast.SwitchStmt:
			stmt(t.Init, depth)
			expr(t.Tag, depth)
			for _, c := range t.Body.List {
				cc := c.(*ast.CaseClause)
				for _, e := range cc.List {
					expr(e, depth)
				}
				out = append(out, lockEv{"enter", "", depth + 1})
				stmts(cc.Body, depth+1)
				out = append(out, lockEv{"exit", "", depth + 1})
			}
		case *ast.TypeSwitchStmt:
			stmt(t.Init, depth)
			stmt(t.Assign, depth)
			for _, c := range t.Body.List {
				cc := c.(*ast.CaseClause)
				out = append(out, lockEv{"enter", "", depth + 1})
				stmts(cc.Body, depth+1)
				out = append(out, lockEv{"exit", "", depth + 1})
			}
		case *ast.SelectStmt:
			for _, c := range t.Body.List {
				cc := c.(*ast.CommClause)
				out = append(out, lockEv{"enter", "", depth + 1})
				stmt(cc.Comm, depth+1)
				stmts(cc.Body, depth+1)
				out = append(out, lockEv{"exit", "", depth + 1})
			}
		case *ast.LabeledStmt:
			stmt(t.Stmt, depth)
		case *ast.DeferStmt:
			if k, l, ok := lockCall(t.Call); ok {
				out = append(out, lockEv{"defer-" + k, l, depth})
			} else {
				for _, a := range t.Call.Args {
					expr(a, depth)
				}
				if fl, ok := t.Call.Fun.(*ast.FuncLit); ok {
					out = append(out, lockEv{"enter", "defer-func", depth + 1})
					stmts(fl.Body.List, depth+1)
					out = append(out, lockEv{"exit", "defer-func", depth + 1})
				}
			}
		case *ast.GoStmt:
			out = append(out, lockEv{"enter", "go", depth + 1})
			expr(t.Call, depth+1)
			out = append(out, lockEv{"exit", "go", depth + 1})
		case *ast.ReturnStmt:
			for _, r := range t.Results {
				expr(r, depth)
			}
			out = append(out, lockEv{"return", "", depth})
		case *ast.AssignStmt:
			for _, r := range t.Rhs {
				expr(r, depth)
			}
			for _, l := range t.Lhs {
				if ie, ok := l.(*ast.IndexExpr); ok {
					if m, ok := isTrackedSel(ie.X); ok {
						expr(ie.Index, depth)
						out = append(out, lockEv{"store", m, depth})
						continue
					}
				}
				if m, ok := isTrackedSel(l); ok {
					out = append(out, lockEv{"assign", m, depth})
					continue
				}
				expr(l, depth)
			}
		case *ast.ExprStmt:
			expr(t.X, depth)
		case *ast.DeclStmt:
			expr(t.Decl, depth)
		case *ast.IncDecStmt:
			expr(t.X, depth)
		case *ast.SendStmt:
			expr(t.Chan, depth)
			expr(t.Value, depth)
		case *ast.BranchStmt, *ast.EmptyStmt:
		default:
			problem("locks: unhandled statement %T in %s", s, fd.Name.Name)
		}
	}
	stmts(fd.Body.List, 0)
	return out
}

func genLocks() {
	var b strings.Builder
	b.WriteString("/- GENERATED by /verif/extract — lock and shared-map events of every function that touches one of the four shared maps -/\nnamespace Goflow.Generated\n\n")
	files := []string{"utils/pipe.go", "producer/proto/proto.go", "producer/proto/producer_nf.go", "decoders/netflow/templates.go"}
	b.WriteString("/-- (file:receiver.function, events (kind, subject, block depth)) -/\ndef lockEvents : List (String × List (String × String × Nat)) := [\n")
	var items []string
	for _, rel := range files {
		_, f := parseFile(rel)
		if f == nil {
			continue
		}
		for _, d := range f.Decls {
			fd, ok := d.(*ast.FuncDecl)
			if !ok || fd.Body == nil {
				continue
			}
			evs := eventsOf(fd)
			touches := false
			for _, e := range evs {
				switch e.kind {
				case "load", "store", "delete", "ref", "assign":
					touches = true
				}
			}
			if !touches {
				continue
			}
			var es []string
			for _, e := range evs {
				es = append(es, fmt.Sprintf("(%s, %s, %d)", leanStr(e.kind), leanStr(e.subj), e.depth))
			}
			name := rel + ":" + recvName(fd) + "." + fd.Name.Name
			items = append(items, fmt.Sprintf("  (%s, [%s])", leanStr(name), strings.Join(es, ", ")))
		}
	}
	b.WriteString(strings.Join(items, ",\n"))
	b.WriteString("\n]\n\n")

	// callers of GetTemplates() (the accessor that hands the map itself out) outside tests, anywhere in the tree
	var callers []string
	for _, dir := range []string{"utils", "utils/templates", "producer/proto", "decoders/netflow", "metrics", "cmd/goflow2", "cmd/enricher", "utils/debug"} {
		for _, rel := range pkgFiles(dir) {
			fset, f := parseFile(rel)
			if f == nil {
				continue
			}
			for _, d := range f.Decls {
				fd, ok := d.(*ast.FuncDecl)
				if !ok || fd.Body == nil {
					continue
				}
				ast.Inspect(fd.Body, func(n ast.Node) bool {
					if ce, ok := n.(*ast.CallExpr); ok {
						if se, ok := ce.Fun.(*ast.SelectorExpr); ok && se.Sel.Name == "GetTemplates" {
							callers = append(callers, leanStr(rel+":"+fd.Name.Name+" "+nodeText(fset, ce)))
						}
					}
					return true
				})
			}
		}
	}
	fmt.Fprintf(&b, "def getTemplatesCallers : List String := [%s]\n\n", strings.Join(callers, ", "))
	_ = token.NoPos
	b.WriteString("end Goflow.Generated\n")
	writeIfChanged("Locks.lean", b.String())
}
