package main

// translate5.go: what the translator gained for the NetFlow v9 / IPFIX wire decoder (Goflow/Generated/NetflowDecT.lean:
// DecodeField, DecodeTemplateSet, DecodeNFv9OptionsTemplateSet, DecodeIPFIXOptionsTemplateSet, DecodeDataSetUsingFields,
// DecodeDataSet, DecodeOptionsDataSet of decoders/netflow/netflow.go).
//
//   var records []T, fields := make([]T, n)           -> local slices of generated structs (List T)
//   fields[i] = v on such a local                      -> Go.setIdxL; accepted only when checkListStores5 shows that no other
//                                                        reference to the backing array is live at the store (see there)
//   T{F: v, …}                                         -> ({ F := v, … } : T); a []byte put in an interface{} field is `some v`
//   v := payload.Next(n)                               -> Go.next: (what was taken, what remains)
//   err = utils.BinaryDecoder(payload, &a, …)          -> followed by `if err != nil { return …, W(err) }`: the reads as binds
//   (or err = f(payload, …))                              (class kept or turned into `bad` as W says), then err is nil
//   a, err := f(payload, …); if err != nil { return …, W(err) }
//                                                      -> a bind of the state-passing translation of f, the state variables
//                                                         and the results written back, then err is nil
//   f(payload, &x, …) for a struct x behind a pointer  -> x goes in, x after the call comes back
//   return utils.BinaryDecoder(payload, &a, …)         -> the reads, then the state
//   `return` inside a loop of a state-passing function -> Go.Ctl.ret of (state, results); a loop over the buffer gets
//                                                         Go.loopFuel of the buffer
//   Go int as Lean Int (intMode) in a state-passing function: payload.Len(), make([]T, n) (negative n panics),
//                                                         fields[i] = v (negative i panics)

import (
	"fmt"
	"go/ast"
	"go/constant"
	"go/token"
	"strings"
)

// the type inside Res of a state-passing function: its state, then its results without the error
func (t *tr) stInner5() string {
	var tys []string
	for _, sv := range t.stVars {
		st, _ := t.lookup(sv)
		tys = append(tys, leanTy(st))
	}
	if len(t.retTys) > 0 {
		for _, rt := range t.retTys[:len(t.retTys)-1] {
			tys = append(tys, leanTy(rt))
		}
	}
	if t.errVal5 {
		tys = append(tys, "Go.Error")
	}
	return strings.Join(tys, " × ")
}

// the scope of `for i := …` is the for statement: a second loop of the same block may declare i again
func (t *tr) endForScope5(mark int) func() {
	return func() {
		if mark <= len(t.env) {
			t.env = t.env[:mark]
		}
	}
}

// the fuel of a loop in a function that reads a buffer
func (t *tr) bufFuel5() string {
	fuel := ""
	for _, v := range t.env {
		if v.ty == tBuf {
			fuel = "(Go.loopFuel " + leanIdent(v.name) + ")"
		}
	}
	return fuel
}

// `return …, err` inside a loop with three exits, in a state-passing function
func (t *tr) retCtlSt5(x *ast.ReturnStmt) []string {
	if t.errVal5 {
		tup, out, ok := t.retTuple5(x)
		if !ok {
			return out
		}
		return append(out, ".ok (.ret "+tup+")")
	}
	n := len(t.retTys)
	if len(x.Results) != n || n == 0 {
		return []string{t.fail(x, "return arity")}
	}
	var vals []string
	t.noEscape++
	for i, r := range x.Results[:n-1] {
		vals = append(vals, t.as(r, t.expr(r), t.retTys[i]))
	}
	t.noEscape--
	ev, ok := t.errValue(x.Results[n-1])
	if !ok {
		return []string{t.fail(x.Results[n-1], "error value %s", exprString(x.Results[n-1]))}
	}
	out := t.flush()
	tup := t.stTuple(vals)
	if ev == "(none : Go.Error)" {
		return append(out, ".ok (.ret "+tup+")")
	}
	r := t.fresh()
	return append(out, "Go.retSt "+ev+" "+tup+" >>= fun "+r+" =>", ".ok (.ret "+r+")")
}

// return utils.BinaryDecoder(payload, &a, …) of a function whose only result is the error
func (t *tr) tailDecoder5(ce *ast.CallExpr) ([]string, bool) {
	if exprString(ce.Fun) != "utils.BinaryDecoder" || len(t.retTys) != 1 {
		return nil, false
	}
	lines, ok := t.effectCallSt(ce, "same")
	if !ok {
		return lines, true
	}
	return append(lines, ".ok "+t.stTuple(nil)), true
}

// a state argument: a variable, or &x for a struct variable passed by pointer
func (t *tr) stArg5(a ast.Expr, want gty) (*ast.Ident, bool) {
	if id, ok := a.(*ast.Ident); ok {
		return id, true
	}
	if op, ok := addrOperand(a); ok && isStruct(want) {
		if id, ok := op.(*ast.Ident); ok {
			if ty, _ := t.lookup(id.Name); ty == want && !t.refParams[id.Name] {
				return id, true
			}
		}
	}
	return nil, false
}

// T{F: v, …}
func (t *tr) structLit5(x *ast.CompositeLit, ty gty) val {
	fields, ok := structFields[ty]
	if !ok {
		return t.failV(x, "composite literal of unknown struct %s", ty)
	}
	var items []string
	seen := map[string]bool{}
	for _, el := range x.Elts {
		kv, ok := el.(*ast.KeyValueExpr)
		if !ok {
			return t.failV(el, "positional element in a struct literal")
		}
		key, ok := kv.Key.(*ast.Ident)
		if !ok {
			return t.failV(el, "struct literal key %s", exprString(kv.Key))
		}
		var fi *fieldInfo
		for i := range fields {
			if fields[i].name == key.Name {
				fi = &fields[i]
			}
		}
		if fi == nil || seen[key.Name] {
			return t.failV(el, "%s has no field %s (or it is given twice)", ty, key.Name)
		}
		seen[key.Name] = true
		v := t.expr(kv.Value)
		var code string
		switch {
		case fi.ty == tAny && v.ty == tBytes:
			code = "(some " + v.code + ")" // a []byte stored in an interface{} field
		case fi.ty == tAny && v.ty == tNil:
			code = "none"
		case fi.ty == tAny:
			return t.failV(el, "value of type %s in an interface{} field", v.ty)
		default:
			code = t.as(kv.Value, v, fi.ty)
		}
		items = append(items, leanIdent(fi.name)+" := "+code)
	}
	if len(items) == 0 {
		return val{code: "({} : " + leanTy(ty) + ")", ty: ty}
	}
	return val{code: "({ " + strings.Join(items, ", ") + " } : " + leanTy(ty) + ")", ty: ty}
}

// declaredBefore5: is `name` declared by a statement of list[:i] itself (the same scope as list[i])?
func declaredBefore5(list []ast.Stmt, i int, name string) bool {
	for _, s := range list[:i] {
		switch x := s.(type) {
		case *ast.AssignStmt:
			if x.Tok == token.DEFINE {
				for _, l := range x.Lhs {
					if id, ok := l.(*ast.Ident); ok && id.Name == name {
						return true
					}
				}
			}
		case *ast.DeclStmt:
			if gd, ok := x.Decl.(*ast.GenDecl); ok && gd.Tok == token.VAR {
				for _, sp := range gd.Specs {
					for _, nm := range sp.(*ast.ValueSpec).Names {
						if nm.Name == name {
							return true
						}
					}
				}
			}
		}
	}
	return false
}

// errCheck5: `if err != nil { return …, W(err) }` — the class W keeps ("same" / "bad")
func errCheck5(s ast.Stmt, errName string) (string, bool) {
	x, ok := s.(*ast.IfStmt)
	if !ok || x.Init != nil || x.Else != nil || len(x.Body.List) != 1 {
		return "", false
	}
	be, ok := x.Cond.(*ast.BinaryExpr)
	if !ok || be.Op != token.NEQ || exprString(be.X) != errName || exprString(be.Y) != "nil" {
		return "", false
	}
	rs, ok := x.Body.List[0].(*ast.ReturnStmt)
	if !ok || len(rs.Results) == 0 {
		return "", false
	}
	cls := errClassOf(rs.Results[len(rs.Results)-1], errName)
	if cls != "same" && cls != "bad" {
		return "", false
	}
	return cls, true
}

// bindLocal5: `name := v` / `name = v` for a local that may be a slice of structs
func (t *tr) bindLocal5(list []ast.Stmt, i int, lhs ast.Expr, v val, define bool) []string {
	id, ok := lhs.(*ast.Ident)
	if !ok {
		return []string{t.fail(lhs, "result assigned to %s", exprString(lhs))}
	}
	if id.Name == "_" {
		return nil
	}
	if define {
		if _, exists := t.lookup(id.Name); exists {
			if ety, _ := t.lookup(id.Name); !declaredBefore5(list, i, id.Name) && !(ety == tError && v.ty == tError && errOnlyChecked5(t.fd5, id.Name)) {
				// (an error variable that is only ever assigned by checked calls is nil wherever else it is read: its instances
				// may share one name)
				return []string{t.fail(id, "redeclaration / shadowing of %s is outside the subset", id.Name)}
			}
			define = false // `:=` reuses a variable of the same scope
		}
	}
	if define {
		if !isStructList(v.ty) {
			return t.assignTo(id, v, true)
		}
		t.declare(id, id.Name, v.ty)
		return []string{"let " + leanIdent(id.Name) + " : " + leanTy(v.ty) + " := " + v.code}
	}
	return t.assignTo(id, v, false)
}

// stmt5: the statement forms of the wire decoders (see the head of the file); (lines, handled)
func (t *tr) stmt5(list []ast.Stmt, i int) ([]string, bool) {
	if t.retKind != "st" {
		return nil, false
	}
	switch x := list[i].(type) {
	case *ast.DeclStmt:
		// var records []T
		gd, ok := x.Decl.(*ast.GenDecl)
		if !ok || gd.Tok != token.VAR {
			return nil, false
		}
		for _, sp := range gd.Specs {
			vs := sp.(*ast.ValueSpec)
			if vs.Type == nil || len(vs.Values) != 0 || !isStructList(goTypeOf(vs.Type)) {
				return nil, false
			}
		}
		var out []string
		for _, sp := range gd.Specs {
			vs := sp.(*ast.ValueSpec)
			ty := goTypeOf(vs.Type)
			for _, nm := range vs.Names {
				t.declare(nm, nm.Name, ty)
				out = append(out, "let "+leanIdent(nm.Name)+" : "+leanTy(ty)+" := []")
			}
		}
		return out, true
	case *ast.AssignStmt:
		if x.Tok != token.ASSIGN && x.Tok != token.DEFINE {
			return nil, false
		}
		define := x.Tok == token.DEFINE
		if len(x.Rhs) != 1 {
			return nil, false
		}
		ce, isCall := x.Rhs[0].(*ast.CallExpr)
		if len(x.Lhs) == 1 {
			// fields[i] = v on a local slice of structs
			if ie, ok := x.Lhs[0].(*ast.IndexExpr); ok && !define {
				if id, ok := ie.X.(*ast.Ident); ok {
					if lt, _ := t.lookup(id.Name); isStructList(lt) {
						idx := t.as(ie.Index, t.expr(ie.Index), tInt)
						v := t.as(x.Rhs[0], t.expr(x.Rhs[0]), elemOf(lt))
						r := t.bind("Go.setIdxL" + iSuffix() + " " + leanIdent(id.Name) + " " + idx + " " + v)
						out := t.flush()
						t.listStores5 = append(t.listStores5, x)
						return append(out, "let "+leanIdent(id.Name)+" : "+leanTy(lt)+" := "+r), true
					}
				}
				return nil, false
			}
			// fields := make([]T, n)
			if isCall && define && exprString(ce.Fun) == "make" && len(ce.Args) == 2 && isStructList(goTypeOf(ce.Args[0])) {
				v := t.expr(ce)
				out := t.flush()
				return append(out, t.bindLocal5(list, i, x.Lhs[0], v, true)...), true
			}
			// r := bytes.NewBuffer(b): a local buffer
			if isCall && define && exprString(ce.Fun) == "bytes.NewBuffer" {
				v := t.expr(ce)
				out := t.flush()
				id, ok := x.Lhs[0].(*ast.Ident)
				if !ok || v.ty != tBuf {
					return append(out, t.fail(x, "bytes.NewBuffer assigned to %s", exprString(x.Lhs[0]))), true
				}
				t.declare(id, id.Name, tBuf)
				return append(out, "let "+leanIdent(id.Name)+" : Bytes := "+v.code), true
			}
			// v := payload.Next(n)
			if isCall {
				if se, ok := ce.Fun.(*ast.SelectorExpr); ok && se.Sel.Name == "Next" && len(ce.Args) == 1 {
					if bid, ok := se.X.(*ast.Ident); ok {
						if bt, _ := t.lookup(bid.Name); bt == tBuf {
							if intMode {
								return nil, false // the expression form (next5) binds the checked Go.nextI
							}
							n := t.as(ce.Args[0], t.expr(ce.Args[0]), tInt)
							out := t.flush()
							r := t.fresh()
							buf := leanIdent(bid.Name)
							out = append(out, "let "+r+" := Go.next "+buf+" "+n)
							out = append(out, t.bindLocal5(list, i, x.Lhs[0], val{code: r + ".1", ty: tBytes}, define)...)
							if id, ok := x.Lhs[0].(*ast.Ident); ok && id.Name != "_" {
								// the bytes belong to the buffer: a store through the variable is refused by checkSlices
								t.event("assign", id.Name, x.Pos())
							}
							return append(out, "let "+buf+" : Bytes := "+r+".2"), true
						}
					}
				}
			}
		}
		// a, err (:)= f(payload, …) for an f whose error is a value: nothing to catch, every result is assigned
		if isCall {
			if fid, ok := ce.Fun.(*ast.Ident); ok {
				if sig, known := translatedSigs[fid.Name]; known && sig.kind == "st" && sig.errVal && len(sig.results) == len(x.Lhs) {
					code, _, ok := t.stCall(ce)
					if !ok {
						return []string{"(extract_problem_untranslated)"}, true
					}
					r := t.bind(code)
					out := t.flush()
					total := len(sig.refs) + len(sig.results)
					k := 0
					for ai, a := range ce.Args {
						for _, si := range sig.refs {
							if si == ai {
								sid, _ := t.stArg5(a, sig.params[ai])
								sty, _ := t.lookup(sid.Name)
								out = append(out, "let "+leanIdent(sid.Name)+" : "+leanTy(sty)+" := "+r+proj(k, total))
								k++
							}
						}
					}
					for j, l := range x.Lhs {
						v := val{code: r + proj(k, total), ty: sig.results[j]}
						if id, ok := l.(*ast.Ident); ok && define && v.ty == tLIface {
							if _, exists := t.lookup(id.Name); !exists {
								t.declare(id, id.Name, v.ty)
								out = append(out, "let "+leanIdent(id.Name)+" : "+leanTy(v.ty)+" := "+v.code)
								k++
								continue
							}
						}
						out = append(out, t.bindLocal5(list, i, l, v, define)...)
						k++
					}
					return out, true
				}
			}
		}
		// [a, …,] err (:)= f(payload, …) followed by `if err != nil { return …, W(err) }`
		if !isCall || i+1 >= len(list) {
			return nil, false
		}
		errID, ok := x.Lhs[len(x.Lhs)-1].(*ast.Ident)
		if !ok || errID.Name == "_" {
			return nil, false
		}
		if t.errVal5 {
			// the error of this function is a value: the return of the check is the handler of the call
			ifs, ok := list[i+1].(*ast.IfStmt)
			if !ok || ifs.Init != nil || ifs.Else != nil || len(ifs.Body.List) != 1 {
				return nil, false
			}
			be, ok := ifs.Cond.(*ast.BinaryExpr)
			if !ok || be.Op != token.NEQ || exprString(be.X) != errID.Name || exprString(be.Y) != "nil" {
				return nil, false
			}
			rs, ok := ifs.Body.List[0].(*ast.ReturnStmt)
			if !ok {
				return nil, false
			}
			lines, _ := t.checked5(ce, errID.Name, rs, x.Lhs[:len(x.Lhs)-1], define, list, i)
			t.skip5 = 1
			return append(lines, t.bindLocal5(list, i, errID, val{code: "(none : Go.Error)", ty: tError}, define)...), true
		}
		cls, ok := errCheck5(list[i+1], errID.Name)
		if !ok {
			return nil, false
		}
		wrap := func(code string) string {
			if cls == "bad" {
				return "Go.errBad (" + code + ")"
			}
			return code
		}
		errLine := func() []string {
			return t.bindLocal5(list, i, errID, val{code: "(none : Go.Error)", ty: tError}, define)
		}
		if exprString(ce.Fun) == "utils.BinaryDecoder" {
			if len(x.Lhs) != 1 {
				return nil, false
			}
			lines, _ := t.effectCallSt(ce, cls)
			t.skip5 = 1
			return append(lines, errLine()...), true
		}
		id, ok := ce.Fun.(*ast.Ident)
		if !ok {
			return nil, false
		}
		if sig, known := translatedSigs[id.Name]; !known || sig.kind != "st" {
			return nil, false
		}
		code, sig, ok := t.stCall(ce)
		if !ok {
			return []string{"(extract_problem_untranslated)"}, true
		}
		nres := len(sig.results)
		if nres != len(x.Lhs) || nres == 0 || sig.results[nres-1] != tError {
			return []string{t.fail(x, "call of %s: %d results assigned to %d variables", id.Name, nres, len(x.Lhs))}, true
		}
		r := t.bind(wrap(code))
		out := t.flush()
		total := len(sig.refs) + nres - 1
		k := 0
		for ai, a := range ce.Args {
			for _, si := range sig.refs {
				if si == ai {
					sid, _ := t.stArg5(a, sig.params[ai])
					sty, _ := t.lookup(sid.Name)
					out = append(out, "let "+leanIdent(sid.Name)+" : "+leanTy(sty)+" := "+r+proj(k, total))
					k++
				}
			}
		}
		for j, l := range x.Lhs[:nres-1] {
			out = append(out, t.bindLocal5(list, i, l, val{code: r + proj(k, total), ty: sig.results[j]}, define)...)
			k++
		}
		t.skip5 = 1
		return append(out, errLine()...), true
	}
	return nil, false
}

// ---------------------------------------------------------------------------
// stores into local slices of structs: when is the functional update `let fields := fields.set i v` all there is to see?
//
// The declaration `v := make([]T, n)` (or `var v []T`) is a statement of some statement list L; the statements of L run in
// order, and leaving L (return, break, continue, the end of a loop body) ends the life of v or re-runs the declaration.
// Every later mention of v lies inside some statement L[j]. Accepted:
//   * the only assignments to v are statements `v = make([]T, n)` of L itself (a fresh array, whenever control passes there);
//   * v[i] read, len(v), v[i] = x do not hand the array on; every other mention does ("escape");
//   * a store inside L[s] with an escape inside L[e]: e > s is harmless; e < s needs a make at some L[m], e < m < s;
//     e = s is refused.
// A function that also stores through a slice field (x.F[i] = …) while a local slice escapes is refused.
// ---------------------------------------------------------------------------

func checkListStores5(fd *ast.FuncDecl, stores []*ast.AssignStmt) []string {
	var problems []string
	covered := map[*ast.AssignStmt]bool{}
	anyEscape := false

	isMakeList := func(e ast.Expr) bool {
		ce, ok := e.(*ast.CallExpr)
		return ok && exprString(ce.Fun) == "make" && len(ce.Args) == 2 && isStructList(goTypeOf(ce.Args[0]))
	}
	// the events of v inside one statement
	type events struct{ makeStmt, otherAssign, store, escape bool }
	scan := func(s ast.Stmt, v string) events {
		var ev events
		if as, ok := s.(*ast.AssignStmt); ok && as.Tok == token.ASSIGN && len(as.Lhs) == 1 && len(as.Rhs) == 1 {
			if id, ok := as.Lhs[0].(*ast.Ident); ok && id.Name == v && isMakeList(as.Rhs[0]) {
				ev.makeStmt = true
				// the length argument may still mention v
				ast.Inspect(as.Rhs[0], func(n ast.Node) bool {
					if id, ok := n.(*ast.Ident); ok && id.Name == v {
						ev.escape = true
					}
					return true
				})
				return ev
			}
		}
		harmless := map[*ast.Ident]bool{}
		ast.Inspect(s, func(n ast.Node) bool {
			switch x := n.(type) {
			case *ast.AssignStmt:
				for _, l := range x.Lhs {
					if id, ok := l.(*ast.Ident); ok && id.Name == v {
						ev.otherAssign = true
						harmless[id] = true
					}
					if ie, ok := l.(*ast.IndexExpr); ok {
						if id, ok := ie.X.(*ast.Ident); ok && id.Name == v {
							ev.store = true
							harmless[id] = true
							covered[x] = true
						}
					}
				}
			case *ast.IncDecStmt:
				if ie, ok := x.X.(*ast.IndexExpr); ok {
					if id, ok := ie.X.(*ast.Ident); ok && id.Name == v {
						ev.otherAssign = true
					}
				}
			case *ast.IndexExpr:
				if id, ok := x.X.(*ast.Ident); ok && id.Name == v {
					harmless[id] = true // an element is copied out
				}
			case *ast.CallExpr:
				if exprString(x.Fun) == "len" && len(x.Args) == 1 {
					if id, ok := x.Args[0].(*ast.Ident); ok && id.Name == v {
						harmless[id] = true
					}
				}
			case *ast.RangeStmt:
				if id, ok := x.X.(*ast.Ident); ok && id.Name == v {
					harmless[id] = true // elements are copied out
				}
			case *ast.FuncLit:
				ev.escape = true
			case *ast.Ident:
				if x.Name == v && !harmless[x] {
					ev.escape = true
				}
			}
			return true
		})
		return ev
	}

	var walk func(list []ast.Stmt)
	walk = func(list []ast.Stmt) {
		for d, s := range list {
			var names []string
			switch x := s.(type) {
			case *ast.AssignStmt:
				if x.Tok == token.DEFINE && len(x.Lhs) == 1 && len(x.Rhs) == 1 && isMakeList(x.Rhs[0]) {
					if id, ok := x.Lhs[0].(*ast.Ident); ok {
						names = append(names, id.Name)
					}
				}
			case *ast.DeclStmt:
				if gd, ok := x.Decl.(*ast.GenDecl); ok && gd.Tok == token.VAR {
					for _, sp := range gd.Specs {
						vs := sp.(*ast.ValueSpec)
						if vs.Type != nil && len(vs.Values) == 0 && isStructList(goTypeOf(vs.Type)) {
							for _, nm := range vs.Names {
								names = append(names, nm.Name)
							}
						}
					}
				}
			}
			for _, v := range names {
				evs := make([]events, len(list))
				hasStore := false
				for j := d + 1; j < len(list); j++ {
					evs[j] = scan(list[j], v)
					hasStore = hasStore || evs[j].store
					anyEscape = anyEscape || evs[j].escape
				}
				if !hasStore {
					continue
				}
				for j := d + 1; j < len(list); j++ {
					if evs[j].otherAssign {
						problems = append(problems, fmt.Sprintf("store into %s, which is also assigned something other than make() (it may alias another slice)", v))
					}
				}
				for sIdx := d + 1; sIdx < len(list); sIdx++ {
					if !evs[sIdx].store {
						continue
					}
					if evs[sIdx].escape {
						problems = append(problems, fmt.Sprintf("store into %s in a statement that also hands it on (aliasing)", v))
					}
					for e := d + 1; e < sIdx; e++ {
						if !evs[e].escape {
							continue
						}
						fresh := false
						for m := e + 1; m < sIdx; m++ {
							if evs[m].makeStmt && !evs[m].escape {
								fresh = true
							}
						}
						if !fresh {
							problems = append(problems, fmt.Sprintf("store into %s after it was handed on (aliasing)", v))
						}
					}
				}
			}
		}
		// nested statement lists
		for _, s := range list {
			ast.Inspect(s, func(n ast.Node) bool {
				switch x := n.(type) {
				case *ast.BlockStmt:
					walk(x.List)
					return false
				case *ast.CaseClause:
					walk(x.Body)
					return false
				case *ast.CommClause:
					walk(x.Body)
					return false
				}
				return true
			})
		}
	}
	walk(fd.Body.List)

	for _, st := range stores {
		if !covered[st] {
			problems = append(problems, fmt.Sprintf("store %s into a slice that was not created by make() in an enclosing block", exprString(st.Lhs[0])))
		}
	}
	if anyEscape && len(stores) > 0 {
		ast.Inspect(fd.Body, func(n ast.Node) bool {
			if as, ok := n.(*ast.AssignStmt); ok {
				for _, l := range as.Lhs {
					if ie, ok := l.(*ast.IndexExpr); ok {
						if _, ok := ie.X.(*ast.SelectorExpr); ok {
							problems = append(problems, "a store through a slice field next to local slices that are handed on (aliasing)")
						}
					}
				}
			}
			return true
		})
	}
	return problems
}

// ---------------------------------------------------------------------------
// NetflowDecT.lean: the NetFlow v9 / IPFIX wire decoder
// ---------------------------------------------------------------------------

type decUnit5 struct {
	rel     string
	fn      string
	intMode bool // Go int as Lean Int: the function subtracts ints
	errVal  bool // the caller inspects the error (errors.Is / errors.Join): it is a value in the result, and interface{} is Iface
}

func genTranslateNetflowDec5() {
	localNamed = map[string]gty{}
	errorWrappers = map[string]bool{}
	defer func() { localNamed = map[string]gty{}; intMode, ifaceMode5, stvMode5 = false, false, false }()
	ifaceCtors5 = map[string]bool{}
	sentinels5 = map[string]string{"ErrorTemplateNotFound": "Err.tnf"} // templates.go: the error of GetTemplate for an unknown key
	wrapperErrIdx5 = map[string][2]int{}
	var b strings.Builder
	b.WriteString("/- GENERATED by /verif/extract (translate.go, translate4.go, translate5.go) — do not edit.\n")
	b.WriteString("   Syntax-directed translations of the template-set and data-set decoders of decoders/netflow/netflow.go\n")
	b.WriteString("   (GetTemplateSize, DecodeField, DecodeTemplateSet, DecodeNFv9OptionsTemplateSet, DecodeIPFIXOptionsTemplateSet,\n")
	b.WriteString("   DecodeDataSetUsingFields, DecodeDataSet, DecodeOptionsDataSet, DecodeMessageCommonFlowSet, DecodeMessageCommon,\n")
	b.WriteString("   DecodeMessageNetFlow, DecodeMessageIPFIX, DecodeMessageVersion); the *bytes.Buffer is the list of the bytes that\n")
	b.WriteString("   remain, threaded through; the template system and the packets behind the pointers are part of the state.\n")
	b.WriteString("   Proofs/C03Trans.lean, C03Trans2.lean and C03Trans3.lean prove them equal to the hand-written model. -/\n")
	b.WriteString("import Goflow.Producer.GoPrims\nset_option linter.unusedVariables false\nnamespace Goflow.Generated.TD\nopen Goflow Goflow.Producer\n\n")
	translateStructD("decoders/netflow/packet.go", "netflow", "Field", &b)
	translateStructD("decoders/netflow/packet.go", "netflow", "TemplateRecord", &b)
	translateStructD("decoders/netflow/nfv9.go", "netflow", "NFv9OptionsTemplateRecord", &b)
	translateStructD("decoders/netflow/ipfix.go", "netflow", "IPFIXOptionsTemplateRecord", &b)
	translateStructD("decoders/netflow/packet.go", "netflow", "DataField", &b)
	translateStructD("decoders/netflow/packet.go", "netflow", "DataRecord", &b)
	translateStructD("decoders/netflow/packet.go", "netflow", "OptionsDataRecord", &b)
	translateStructD("decoders/netflow/packet.go", "netflow", "FlowSetHeader", &b)
	translateStructD("decoders/netflow/packet.go", "netflow", "TemplateFlowSet", &b)
	translateStructD("decoders/netflow/nfv9.go", "netflow", "NFv9OptionsTemplateFlowSet", &b)
	translateStructD("decoders/netflow/ipfix.go", "netflow", "IPFIXOptionsTemplateFlowSet", &b)
	translateStructD("decoders/netflow/packet.go", "netflow", "DataFlowSet", &b)
	translateStructD("decoders/netflow/packet.go", "netflow", "OptionsDataFlowSet", &b)
	translateStructD("decoders/netflow/packet.go", "netflow", "RawFlowSet", &b)
	// what an interface{} of the decoder holds: a template (in the template system) or a flow set (in a packet)
	b.WriteString("/-- `interface{}` as far as the decoder fills it: nil, or one of these structs -/\ninductive Iface where\n  | nil\n")
	for _, name := range []string{"TemplateRecord", "NFv9OptionsTemplateRecord", "IPFIXOptionsTemplateRecord", "TemplateFlowSet",
		"NFv9OptionsTemplateFlowSet", "IPFIXOptionsTemplateFlowSet", "DataFlowSet", "OptionsDataFlowSet", "RawFlowSet"} {
		if _, ok := structFields[gty("struct:"+name)]; !ok {
			problem("translate: Iface constructor for the unknown struct %s", name)
			continue
		}
		ifaceCtors5[name] = true
		fmt.Fprintf(&b, "  | %s (v : %s)\n", name, name)
	}
	b.WriteString("\n")
	ifaceMode5 = true // FlowSets []interface{}
	translateStructD("decoders/netflow/nfv9.go", "netflow", "NFv9Packet", &b)
	translateStructD("decoders/netflow/ipfix.go", "netflow", "IPFIXPacket", &b)
	ifaceMode5 = false
	saved := map[string]fnSig{}
	for k, v := range translatedSigs {
		saved[k] = v
	}
	for _, u := range []decUnit5{
		{"decoders/netflow/netflow.go", "GetTemplateSize", false, false},
		{"decoders/netflow/netflow.go", "DecodeField", false, false},
		{"decoders/netflow/netflow.go", "DecodeTemplateSet", false, false},
		{"decoders/netflow/netflow.go", "DecodeNFv9OptionsTemplateSet", false, false},
		{"decoders/netflow/netflow.go", "DecodeIPFIXOptionsTemplateSet", true, false},
		{"decoders/netflow/netflow.go", "DecodeDataSetUsingFields", false, false},
		{"decoders/netflow/netflow.go", "DecodeDataSet", false, false},
		{"decoders/netflow/netflow.go", "DecodeOptionsDataSet", false, false},
		{"decoders/netflow/netflow.go", "DecodeMessageCommonFlowSet", true, true},
		{"decoders/netflow/netflow.go", "DecodeMessageCommon", true, true},
		{"decoders/netflow/netflow.go", "DecodeMessageNetFlow", false, true},
		{"decoders/netflow/netflow.go", "DecodeMessageIPFIX", false, true},
		{"decoders/netflow/netflow.go", "DecodeMessageVersion", false, true},
	} {
		t, f := newDecoderTr(u.rel)
		if f == nil {
			fmt.Fprintf(&b, "def %s := extract_problem_missing_file\n\n", u.fn)
			continue
		}
		fd := findFunc(f, u.fn)
		if fd == nil || fd.Recv != nil {
			problem("translate: %s not found in %s", u.fn, u.rel)
			fmt.Fprintf(&b, "def %s := extract_problem_missing_function\n\n", u.fn)
			continue
		}
		fmt.Fprintf(&b, "/-! %s: %s -/\n", u.rel, u.fn)
		intMode, ifaceMode5, stvMode5 = u.intMode, u.errVal, u.errVal
		t.listStores5, t.skip5, t.fd5 = nil, 0, fd
		b.WriteString(t.function(fd))
		intMode, ifaceMode5, stvMode5 = false, false, false
		for _, p := range checkListStores5(fd, t.listStores5) {
			problem("translate %s: %s", u.fn, p)
			fmt.Fprintf(&b, "\ndef %s_aliasing := extract_problem_untranslated\n", leanIdent(u.fn))
		}
		b.WriteString("\n")
	}
	for k := range translatedSigs {
		if _, ok := saved[k]; !ok {
			delete(translatedSigs, k)
		}
	}
	for k, v := range saved {
		translatedSigs[k] = v
	}
	b.WriteString("end Goflow.Generated.TD\n")
	writeIfChanged("NetflowDecT.lean", b.String())
}

// ===========================================================================
// stage 4: DecodeMessageCommonFlowSet / DecodeMessageCommon
//
//   interface{} / []interface{}                   -> Iface / List Iface: a generated sum of the package's structs (and nil);
//                                                    `x = s` for a struct s stores `Iface.T s`; `switch v := x.(type)` is a match
//   templates NetFlowTemplateSystem               -> Go.TemplateSystem Iface, part of the state; AddTemplate / GetTemplate are the
//                                                    prelude externals Go.tsAdd / Go.tsGet (the model's store), nil panics
//   a function whose error the caller inspects    -> the error is the last component of the result ("errVal"): `return a, e` is
//   (errors.Is, errors.Join)                         `.ok (state, a, e)`; a checked call `x, err := f(…); if err != nil { return … }`
//                                                    is `Go.tryCatch (f …) (fun e => the return, with err = some e) fun t => …`;
//                                                    a failed BinaryDecoder leaves its buffer empty (Next took what was left)
//   if a, lerr := f(…); c { … } else { … }        -> the call, then the if
//   bytes.NewBuffer(b), payload.Next(n) in an expression, binary.Size(s) of a struct of fixed-width fields,
//   errors.Is(e, Sentinel), errors.Join(a, b), uintN(int) on a signed int, embedded structs, wrappers &W{a, b, err}
// ===========================================================================

const (
	tIface  gty = "iface"
	tLIface gty = "list:iface"
	tTS     gty = "NetFlowTemplateSystem"
)

var (
	ifaceMode5     bool                  // interface{} is the sum type Iface
	stvMode5       bool                  // the function being translated returns its error as a value
	ifaceCtors5    = map[string]bool{}   // the structs that have a constructor in Iface
	sentinels5     = map[string]string{} // package-level error values -> their class
	wrapperErrIdx5 = map[string][2]int{} // error wrapper -> (index of its Err field, number of fields)
)

func goTypeOf5(e ast.Expr) (gty, bool) {
	if !ifaceMode5 {
		return tBad, false
	}
	switch exprString(e) {
	case "interface{}", "any":
		return tIface, true
	case "[]interface{}", "[]any":
		return tLIface, true
	case "NetFlowTemplateSystem":
		return tTS, true
	}
	return tBad, false
}

func leanTy5(t gty) (string, bool) {
	switch t {
	case tIface:
		return "Iface", true
	case tLIface:
		return "List Iface", true
	case tTS:
		return "Go.TemplateSystem Iface", true
	}
	return "", false
}

// the position of the Err field in the error wrappers of a file
func scanWrapperFields5(f *ast.File) {
	for _, d := range f.Decls {
		gd, ok := d.(*ast.GenDecl)
		if !ok || gd.Tok != token.TYPE {
			continue
		}
		for _, s := range gd.Specs {
			ts := s.(*ast.TypeSpec)
			st, ok := ts.Type.(*ast.StructType)
			if !ok || !errorWrappers[ts.Name.Name] {
				continue
			}
			n, idx := 0, -1
			for _, fl := range st.Fields.List {
				if len(fl.Names) == 0 {
					n++
				}
				for _, nm := range fl.Names {
					if nm.Name == "Err" {
						idx = n
					}
					n++
				}
			}
			if idx >= 0 {
				wrapperErrIdx5[ts.Name.Name] = [2]int{idx, n}
			}
		}
	}
}

// &W{…}: the element that is the wrapped error
func wrappedErr5(cl *ast.CompositeLit) (ast.Expr, bool) {
	name := exprString(cl.Type)
	info, ok := wrapperErrIdx5[name]
	if !ok || !errorWrappers[name] {
		return nil, false
	}
	keyed := false
	for _, el := range cl.Elts {
		if kv, ok := el.(*ast.KeyValueExpr); ok {
			keyed = true
			if exprString(kv.Key) == "Err" {
				return kv.Value, true
			}
		}
	}
	if keyed || len(cl.Elts) != info[1] {
		return nil, false
	}
	return cl.Elts[info[0]], true
}

// payload.Next(n) inside an expression: the bytes taken; the buffer variable is rebound before the statement
func (t *tr) next5(buf string, nExpr ast.Expr) val {
	n := t.as(nExpr, t.expr(nExpr), tInt)
	r := t.fresh()
	b := leanIdent(buf)
	if intMode {
		t.pre = append(t.pre, "Go.nextI "+b+" "+n+" >>= fun "+r+" =>", "let "+b+" : Bytes := "+r+".2")
	} else {
		t.pre = append(t.pre, "let "+r+" := Go.next "+b+" "+n, "let "+b+" : Bytes := "+r+".2")
	}
	return val{code: r + ".1", ty: tBytes}
}

func (t *tr) call5(x *ast.CallExpr) (val, bool) {
	if t.retKind != "st" {
		return val{}, false
	}
	if se, ok := x.Fun.(*ast.SelectorExpr); ok && se.Sel.Name == "Next" && len(x.Args) == 1 {
		if id, ok := se.X.(*ast.Ident); ok {
			if ty, _ := t.lookup(id.Name); ty == tBuf {
				return t.next5(id.Name, x.Args[0]), true
			}
		}
	}
	switch exprString(x.Fun) {
	case "bytes.NewBuffer":
		if len(x.Args) != 1 {
			return t.failV(x, "bytes.NewBuffer arity"), true
		}
		v := t.expr(x.Args[0])
		if v.ty != tBytes {
			return t.failV(x, "bytes.NewBuffer of %s", v.ty), true
		}
		return val{code: v.code, ty: tBuf}, true
	case "binary.Size":
		// the encoded size of a struct of fixed-width unsigned fields
		if len(x.Args) == 1 {
			if id, ok := x.Args[0].(*ast.Ident); ok {
				if ty, _ := t.lookup(id.Name); isStruct(ty) {
					size := 0
					for _, f := range structFields[ty] {
						if !isUnsigned(f.ty) || f.ty == tUint {
							return t.failV(x, "binary.Size of %s: field %s of type %s", ty, f.name, f.ty), true
						}
						size += width(f.ty) / 8
					}
					c := constant.MakeInt64(int64(size))
					return val{code: c.ExactString(), ty: tUntyped, cst: c}, true
				}
			}
		}
		return t.failV(x, "binary.Size of something other than a struct variable"), true
	case "errors.Is":
		if len(x.Args) == 2 {
			if id, ok := x.Args[1].(*ast.Ident); ok {
				if cls, ok := sentinels5[id.Name]; ok {
					a := t.as(x.Args[0], t.expr(x.Args[0]), tError)
					return val{code: "(Go.errIs " + a + " " + cls + ")", ty: tBool}, true
				}
			}
		}
		return t.failV(x, "errors.Is against something other than a known sentinel"), true
	case "errors.Join":
		if len(x.Args) == 2 {
			a := t.as(x.Args[0], t.expr(x.Args[0]), tError)
			b := t.as(x.Args[1], t.expr(x.Args[1]), tError)
			return val{code: "(Go.errJoin " + a + " " + b + ")", ty: tError}, true
		}
		return t.failV(x, "errors.Join arity"), true
	}
	return val{}, false
}

// `return a, e` of a function whose error is a value
func (t *tr) retStv5(x *ast.ReturnStmt) []string {
	tup, out, ok := t.retTuple5(x)
	if !ok {
		return out
	}
	return append(out, ".ok "+tup)
}

func (t *tr) retTuple5(x *ast.ReturnStmt) (string, []string, bool) {
	n := len(t.retTys)
	if len(x.Results) != n || n == 0 {
		return "", []string{t.fail(x, "return arity")}, false
	}
	var vals []string
	t.noEscape++
	for i, r := range x.Results[:n-1] {
		vals = append(vals, t.as(r, t.expr(r), t.retTys[i]))
	}
	t.noEscape--
	ev, ok := t.errValue(x.Results[n-1])
	if !ok {
		return "", []string{t.fail(x.Results[n-1], "error value %s", exprString(x.Results[n-1]))}, false
	}
	out := t.flush()
	return t.stTuple(append(vals, ev)), out, true
}

// errOnlyChecked5: every assignment to the error variable `name` is immediately followed by `if name != nil { return … }`
// (or is the init statement of such an if). Then every instance of the variable is nil wherever else it is read, and a `:=`
// that shadows an outer instance may be translated as an assignment.
func errOnlyChecked5(fd *ast.FuncDecl, name string) bool {
	if fd == nil {
		return false
	}
	okAssign := map[*ast.AssignStmt]bool{}
	isCheck := func(s ast.Stmt) bool {
		x, ok := s.(*ast.IfStmt)
		if !ok || x.Else != nil || len(x.Body.List) != 1 {
			return false
		}
		be, ok := x.Cond.(*ast.BinaryExpr)
		if !ok || be.Op != token.NEQ || exprString(be.X) != name || exprString(be.Y) != "nil" {
			return false
		}
		_, ok = x.Body.List[0].(*ast.ReturnStmt)
		return ok
	}
	var walk func(list []ast.Stmt)
	walk = func(list []ast.Stmt) {
		for j, s := range list {
			if as, ok := s.(*ast.AssignStmt); ok && j+1 < len(list) {
				if x, ok := list[j+1].(*ast.IfStmt); ok && x.Init == nil && isCheck(x) {
					okAssign[as] = true
				}
			}
			ast.Inspect(s, func(n ast.Node) bool {
				switch x := n.(type) {
				case *ast.IfStmt:
					if as, ok := x.Init.(*ast.AssignStmt); ok && isCheck(x) {
						okAssign[as] = true
					}
				case *ast.BlockStmt:
					walk(x.List)
					return false
				case *ast.CaseClause:
					walk(x.Body)
					return false
				}
				return true
			})
		}
	}
	walk(fd.Body.List)
	good := true
	ast.Inspect(fd.Body, func(n ast.Node) bool {
		switch x := n.(type) {
		case *ast.AssignStmt:
			for _, l := range x.Lhs {
				if id, ok := l.(*ast.Ident); ok && id.Name == name && !okAssign[x] {
					good = false
				}
			}
		case *ast.IncDecStmt:
			if exprString(x.X) == name {
				good = false
			}
		case *ast.UnaryExpr:
			if x.Op == token.AND && exprString(x.X) == name {
				good = false
			}
		}
		return true
	})
	return good
}

// onErr5: the lines of `return …` with the error variable bound to `some ev`
func (t *tr) onErr5(errName string, rs *ast.ReturnStmt, ev string, before []string) []string {
	mark := len(t.env)
	if ty, exists := t.lookup(errName); !exists || ty != tError {
		t.env = append(t.env, varInfo{errName, tError})
	}
	lines := append([]string{}, before...)
	lines = append(lines, "let "+leanIdent(errName)+" : Go.Error := some "+ev)
	saved := t.pre
	t.pre = nil
	lines = append(lines, t.ret(rs)...)
	t.pre = saved
	t.env = t.env[:mark]
	return lines
}

// catch5: `Go.tryCatch (op) (fun e => onErr) fun r =>` (or Go.ifErr for an error that is already a value)
func catchLines5(head string, ev string, onErr []string, r string) []string {
	out := []string{head + " (fun " + ev + " =>"}
	out = append(out, indent(onErr, "    ")...)
	out[len(out)-1] += ") fun " + r + " =>"
	return out
}

// checked5: a call whose error is checked right away, in a function whose own error is a value.
//
//	results: the variables receiving the results before the error (nil for `if err := f(…); err != nil`)
func (t *tr) checked5(ce *ast.CallExpr, errName string, rs *ast.ReturnStmt, results []ast.Expr, define bool, list []ast.Stmt, i int) ([]string, bool) {
	bad := []string{"(extract_problem_untranslated)"}
	used := usedNames([]ast.Node{rs})
	// utils.BinaryDecoder(buf, &a, …)
	if exprString(ce.Fun) == "utils.BinaryDecoder" {
		if len(results) != 0 || len(ce.Args) < 1 {
			t.fail(ce, "BinaryDecoder arity")
			return bad, false
		}
		bid, ok := ce.Args[0].(*ast.Ident)
		if !ok {
			t.fail(ce, "BinaryDecoder on something other than a buffer variable")
			return bad, false
		}
		if ty, _ := t.lookup(bid.Name); ty != tBuf {
			t.fail(ce, "BinaryDecoder on %s", ty)
			return bad, false
		}
		buf := leanIdent(bid.Name)
		var out []string
		for _, a := range ce.Args[1:] {
			op, ok := addrOperand(a)
			if !ok {
				t.fail(a, "BinaryDecoder destination that is not an address")
				return bad, false
			}
			if used[baseName(op)] {
				t.fail(a, "the error return mentions %s, a destination of the failing read", baseName(op))
				return bad, false
			}
			lv, ok := t.lvalue(op)
			if !ok {
				return bad, false
			}
			rd := readOf(lv.ty)
			if rd == "" {
				t.fail(a, "BinaryDecoder destination of type %s", lv.ty)
				return bad, false
			}
			out = append(out, t.flush()...)
			r, ev := t.fresh(), t.fresh()
			// a short read has taken what was left of the buffer
			onErr := t.onErr5(errName, rs, ev, []string{"let " + buf + " : Bytes := []"})
			out = append(out, catchLines5("Go.tryCatch ("+rd+" "+buf+")", ev, onErr, r)...)
			out = append(out, lv.write(r+".1")...)
			out = append(out, "let "+buf+" : Bytes := "+r+".2")
		}
		return out, true
	}
	// templates.AddTemplate(…) / templates.GetTemplate(…): the error is a value
	if se, ok := ce.Fun.(*ast.SelectorExpr); ok {
		if id, ok := se.X.(*ast.Ident); ok {
			if ty, _ := t.lookup(id.Name); ty == tTS {
				ts := leanIdent(id.Name)
				var code string
				switch {
				case se.Sel.Name == "AddTemplate" && len(ce.Args) == 4 && len(results) == 0:
					code = "Go.tsAdd " + ts + " " + t.as(ce.Args[0], t.expr(ce.Args[0]), tU16) + " " + t.as(ce.Args[1], t.expr(ce.Args[1]), tU32) + " " +
						t.as(ce.Args[2], t.expr(ce.Args[2]), tU16) + " " + t.as(ce.Args[3], t.expr(ce.Args[3]), tIface)
				case se.Sel.Name == "GetTemplate" && len(ce.Args) == 3 && len(results) == 1:
					code = "Go.tsGet Iface.nil " + ts + " " + t.as(ce.Args[0], t.expr(ce.Args[0]), tU16) + " " + t.as(ce.Args[1], t.expr(ce.Args[1]), tU32) + " " +
						t.as(ce.Args[2], t.expr(ce.Args[2]), tU16)
				default:
					t.fail(ce, "method %s of the template system (or its arity)", se.Sel.Name)
					return bad, false
				}
				r := t.bind(code)
				out := t.flush()
				if len(results) == 0 {
					out = append(out, "let "+ts+" : "+leanTy(tTS)+" := "+r+".1")
				} else {
					out = append(out, t.bindLocal5(list, i, results[0], val{code: r + ".1", ty: tIface}, define)...)
				}
				ev, u := t.fresh(), t.fresh()
				onErr := t.onErr5(errName, rs, ev, nil)
				return append(out, catchLines5("Go.ifErr "+r+".2", ev, onErr, u)...), true
			}
		}
	}
	// a translated state-passing function whose Go error is Except.error
	code, sig, ok := t.stCall(ce)
	if !ok {
		t.fail(ce, "checked call of %s", exprString(ce.Fun))
		return bad, false
	}
	if sig.errVal {
		// the callee hands its state back whatever happens; its error is the last component of its result
		if len(sig.results) != 1 || len(results) != 0 {
			t.fail(ce, "checked call of %s, whose error is a value, with results", exprString(ce.Fun))
			return bad, false
		}
		r := t.bind(code)
		out := t.flush()
		total := len(sig.refs) + 1
		k := 0
		for ai, a := range ce.Args {
			for _, si := range sig.refs {
				if si == ai {
					sid, _ := t.stArg5(a, sig.params[ai])
					sty, _ := t.lookup(sid.Name)
					out = append(out, "let "+leanIdent(sid.Name)+" : "+leanTy(sty)+" := "+r+proj(k, total))
					k++
				}
			}
		}
		ev, u := t.fresh(), t.fresh()
		onErr := t.onErr5(errName, rs, ev, nil)
		return append(out, catchLines5("Go.ifErr "+r+proj(k, total), ev, onErr, u)...), true
	}
	nres := len(sig.results)
	if nres != len(results)+1 {
		t.fail(ce, "call of %s: %d results", exprString(ce.Fun), nres)
		return bad, false
	}
	for ai, a := range ce.Args {
		for _, si := range sig.refs {
			if si != ai {
				continue
			}
			sid, _ := t.stArg5(a, sig.params[ai])
			for _, sv := range t.stVars {
				if sv == sid.Name {
					t.fail(a, "the function's own state %s is handed to a callee whose failure loses it", sv)
					return bad, false
				}
			}
			if used[sid.Name] {
				t.fail(a, "the error return mentions %s, which the failing callee holds", sid.Name)
				return bad, false
			}
		}
	}
	out := t.flush()
	r, ev := t.fresh(), t.fresh()
	onErr := t.onErr5(errName, rs, ev, nil)
	out = append(out, catchLines5("Go.tryCatch ("+code+")", ev, onErr, r)...)
	total := len(sig.refs) + nres - 1
	k := 0
	for ai, a := range ce.Args {
		for _, si := range sig.refs {
			if si == ai {
				sid, _ := t.stArg5(a, sig.params[ai])
				sty, _ := t.lookup(sid.Name)
				out = append(out, "let "+leanIdent(sid.Name)+" : "+leanTy(sty)+" := "+r+proj(k, total))
				k++
			}
		}
	}
	for j, l := range results {
		out = append(out, t.bindLocal5(list, i, l, val{code: r + proj(k, total), ty: sig.results[j]}, define)...)
		k++
	}
	return out, true
}

// if5: `if err := f(…); err != nil { return … }` and `if a, lerr := f(…); c { … } else { … }` when the error is a value
func (t *tr) if5(x *ast.IfStmt, rest []ast.Stmt, k konts) ([]string, bool) {
	if !t.errVal5 || x.Init == nil {
		return nil, false
	}
	as, ok := x.Init.(*ast.AssignStmt)
	if !ok || as.Tok != token.DEFINE || len(as.Rhs) != 1 {
		return nil, false
	}
	ce, ok := as.Rhs[0].(*ast.CallExpr)
	if !ok {
		return nil, false
	}
	if len(as.Lhs) >= 2 {
		id, ok := ce.Fun.(*ast.Ident)
		if !ok {
			return nil, false
		}
		sig, ok := translatedSigs[id.Name]
		if !ok || sig.kind != "st" || !sig.errVal || len(sig.results) != len(as.Lhs) {
			return nil, false
		}
		code, _, ok := t.stCall(ce)
		if !ok {
			return []string{"(extract_problem_untranslated)"}, true
		}
		r := t.bind(code)
		out := t.flush()
		total := len(sig.refs) + len(sig.results)
		kk := 0
		for ai, a := range ce.Args {
			for _, si := range sig.refs {
				if si == ai {
					sid, _ := t.stArg5(a, sig.params[ai])
					sty, _ := t.lookup(sid.Name)
					out = append(out, "let "+leanIdent(sid.Name)+" : "+leanTy(sty)+" := "+r+proj(kk, total))
					kk++
				}
			}
		}
		for j, l := range as.Lhs {
			lid, ok := l.(*ast.Ident)
			if !ok {
				return []string{t.fail(l, "result assigned to %s", exprString(l))}, true
			}
			if lid.Name != "_" {
				t.declare(lid, lid.Name, sig.results[j])
				out = append(out, "let "+leanIdent(lid.Name)+" : "+leanTy(sig.results[j])+" := "+r+proj(kk, total))
			}
			kk++
		}
		inner := &ast.IfStmt{If: x.If, Cond: x.Cond, Body: x.Body, Else: x.Else}
		return append(out, t.ifStmt(inner, rest, k)...), true
	}
	errID, ok := as.Lhs[0].(*ast.Ident)
	if !ok || x.Else != nil || len(x.Body.List) != 1 {
		return nil, false
	}
	be, ok := x.Cond.(*ast.BinaryExpr)
	if !ok || be.Op != token.NEQ || exprString(be.X) != errID.Name || exprString(be.Y) != "nil" {
		return nil, false
	}
	rs, ok := x.Body.List[0].(*ast.ReturnStmt)
	if !ok {
		return nil, false
	}
	lines, _ := t.checked5(ce, errID.Name, rs, nil, true, nil, 0)
	return append(lines, t.block(rest, k)...), true
}

// switch v := x.(type) { case T: … } on an interface{} holding structs of the package
func (t *tr) typeSwitch5(x *ast.TypeSwitchStmt, rest []ast.Stmt, k konts) ([]string, bool) {
	if t.retKind != "st" || x.Init != nil {
		return nil, false
	}
	var ta *ast.TypeAssertExpr
	bindName := ""
	switch a := x.Assign.(type) {
	case *ast.AssignStmt:
		if len(a.Lhs) == 1 && len(a.Rhs) == 1 && a.Tok == token.DEFINE {
			if id, ok := a.Lhs[0].(*ast.Ident); ok {
				bindName = id.Name
			}
			ta, _ = a.Rhs[0].(*ast.TypeAssertExpr)
		}
	case *ast.ExprStmt:
		ta, _ = a.X.(*ast.TypeAssertExpr)
	}
	if ta == nil || ta.Type != nil {
		return nil, false
	}
	sid, ok := ta.X.(*ast.Ident)
	if !ok {
		return nil, false
	}
	if ty, _ := t.lookup(sid.Name); ty != tIface {
		return nil, false
	}
	mark := len(t.env)
	var out []string
	kk := k
	if len(rest) != 0 {
		asg := assignedNames([]ast.Node{x.Body})
		var params, args []string
		for _, v := range t.env[:mark] {
			if asg[v.name] {
				params = append(params, "("+leanIdent(v.name)+" : "+leanTy(v.ty)+")")
				args = append(args, leanIdent(v.name))
			}
		}
		if len(params) == 0 {
			params, args = []string{"(_ : Unit)"}, []string{"()"}
		}
		t.joins++
		kn := fmt.Sprintf("k_%d", t.joins)
		restLines := t.block(rest, k)
		out = append(out, "let "+kn+" := fun "+strings.Join(params, " ")+" =>")
		out = append(out, indent(restLines, "  ")...)
		kk = konts{fall: []string{kn + " " + strings.Join(args, " ")}, cont: k.cont}
	}
	kk.brk = nil // `break` would leave the switch
	out = append(out, "match "+leanIdent(sid.Name)+" with")
	var deflt []ast.Stmt
	seen := map[string]bool{}
	for _, c := range x.Body.List {
		cc := c.(*ast.CaseClause)
		if cc.List == nil {
			deflt = cc.Body
			continue
		}
		if len(cc.List) != 1 {
			return append(out, t.fail(cc, "type switch case with several types")), true
		}
		cty := goTypeOf(cc.List[0])
		if !isStruct(cty) || !ifaceCtors5[leanTy(cty)] || seen[leanTy(cty)] {
			return append(out, t.fail(cc, "type switch case %s", exprString(cc.List[0]))), true
		}
		seen[leanTy(cty)] = true
		bn := "_"
		inner := len(t.env)
		if bindName != "" && bindName != "_" {
			bn = leanIdent(bindName)
			t.declare(cc, bindName, cty)
		}
		out = append(out, "| Iface."+leanTy(cty)+" "+bn+" =>")
		t.depth++
		out = append(out, indent(t.block(cc.Body, kk), "  ")...)
		t.depth--
		t.env = t.env[:inner]
	}
	out = append(out, "| _ =>")
	t.depth++
	out = append(out, indent(t.block(deflt, kk), "  ")...)
	t.depth--
	return out, true
}
