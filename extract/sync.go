package main

import (
	"fmt"
	"go/ast"
	"go/token"
	"strings"
)

// callsAfter: method/function calls (as text of the callee) in source order after the statement `<-c` in main()
func genShutdown(b *strings.Builder) {
	fset, f := parseFile("cmd/goflow2/main.go")
	if f == nil {
		return
	}
	fd := findFunc(f, "main")
	if fd == nil {
		problem("main not found")
		return
	}
	// start-up order of main(): the top-level statements that install the signal handler, start the receivers (the loop over
	// the listen addresses) and wait for the signal, in source order
	var startup []string
	for _, st := range fd.Body.List {
		txt := nodeText(fset, st)
		switch {
		case strings.Contains(txt, "signal.Notify("):
			startup = append(startup, leanStr("signal.Notify"))
		case strings.Contains(txt, ".Start(") && strings.HasPrefix(txt, "for "):
			startup = append(startup, leanStr("start receivers"))
		case txt == "<-c":
			startup = append(startup, leanStr("<-c"))
		}
	}
	fmt.Fprintf(b, "def startupOrder : List String := [%s]\n\n", strings.Join(startup, ", "))
	var order []string
	seen := false
	for _, s := range fd.Body.List {
		if es, ok := s.(*ast.ExprStmt); ok {
			if ue, ok := es.X.(*ast.UnaryExpr); ok && ue.Op == token.ARROW && exprString(ue.X) == "c" {
				seen = true
				continue
			}
		}
		if !seen {
			continue
		}
		// calls that run in a goroutine of their own are not sequenced with what follows: mark them
		inGo := map[ast.Node]bool{}
		ast.Inspect(s, func(n ast.Node) bool {
			if g, ok := n.(*ast.GoStmt); ok {
				ast.Inspect(g, func(m ast.Node) bool {
					if m != nil {
						inGo[m] = true
					}
					return true
				})
			}
			return true
		})
		ast.Inspect(s, func(n ast.Node) bool {
			if ce, ok := n.(*ast.CallExpr); ok {
				name := exprString(ce.Fun)
				if inGo[n] {
					name = "go:" + name
				}
				if strings.HasSuffix(name, ".Stop") || strings.HasSuffix(name, ".Close") || name == "close" || name == "go:close" || strings.HasSuffix(name, ".Shutdown") || strings.HasSuffix(name, ".Wait") {
					if name == "close" && len(ce.Args) == 1 {
						name = "close(" + exprString(ce.Args[0]) + ")"
					}
					order = append(order, leanStr(name))
				}
			}
			return true
		})
	}
	_ = fset
	fmt.Fprintf(b, "/-- Stop / Close / Wait calls of main() after `<-c`, in source order -/\ndef shutdownOrder : List String := [%s]\n\n", strings.Join(order, ", "))
}

// skeleton: the synchronisation-relevant statements of a function, in source order
func skeleton(rel, fn string, recv string) []string {
	fset, f := parseFile(rel)
	if f == nil {
		return nil
	}
	var fd *ast.FuncDecl
	for _, d := range f.Decls {
		x, ok := d.(*ast.FuncDecl)
		if !ok || x.Name.Name != fn || x.Body == nil {
			continue
		}
		r := ""
		if x.Recv != nil && len(x.Recv.List) > 0 {
			r = exprString(x.Recv.List[0].Type)
		}
		if r == recv {
			fd = x
		}
	}
	if fd == nil {
		problem("%s: function %s not found", rel, fn)
		return nil
	}
	var out []string
	var walk func(n ast.Node)
	walk = func(n ast.Node) {
		ast.Inspect(n, func(n ast.Node) bool {
			switch t := n.(type) {
			case *ast.SelectStmt:
				cases := []string{}
				for _, c := range t.Body.List {
					cc := c.(*ast.CommClause)
					if cc.Comm == nil {
						cases = append(cases, "default")
					} else {
						cases = append(cases, nodeText(fset, cc.Comm))
					}
				}
				out = append(out, "select{"+strings.Join(cases, " | ")+"}")
				for _, c := range t.Body.List {
					for _, s := range c.(*ast.CommClause).Body {
						walk(s)
					}
				}
				return false
			case *ast.SendStmt:
				out = append(out, nodeText(fset, t))
			case *ast.UnaryExpr:
				if t.Op == token.ARROW {
					out = append(out, nodeText(fset, t))
				}
			case *ast.RangeStmt:
				out = append(out, "range "+nodeText(fset, t.X))
			case *ast.AssignStmt:
				// (re)creation of a channel field: r.q = make(chan bool)
				if len(t.Lhs) == 1 && len(t.Rhs) == 1 {
					if ce, ok := t.Rhs[0].(*ast.CallExpr); ok && exprString(ce.Fun) == "make" && len(ce.Args) >= 1 {
						if _, isChan := ce.Args[0].(*ast.ChanType); isChan {
							if _, isSel := t.Lhs[0].(*ast.SelectorExpr); isSel {
								out = append(out, nodeText(fset, t))
							}
						}
					}
				}
				for _, l := range t.Lhs {
					if ie, ok := l.(*ast.IndexExpr); ok {
						x := exprString(ie.X)
						if x == "p.templates" || x == "p.sampling" {
							out = append(out, "store "+nodeText(fset, ie))
						}
					}
				}
				for _, r := range t.Rhs {
					walk(r)
				}
				return false
			case *ast.IndexExpr:
				x := exprString(t.X)
				if x == "p.templates" || x == "p.sampling" {
					out = append(out, "load "+nodeText(fset, t))
				}
			case *ast.GoStmt:
				out = append(out, "go")
			case *ast.DeferStmt:
				out = append(out, "defer "+nodeText(fset, t.Call))
				return false
			case *ast.CallExpr:
				name := exprString(t.Fun)
				for _, k := range []string{"Lock", "Unlock", "RLock", "RUnlock", "Wait", "Add", "Done", "Put", "Get", "Close", "Fprint", "Fprintf", "Fprintln", "Write", "WriteString", "ReadFromUDP", "Dropped", "Input", "close", "decodeFunc", "verifPoint", "verifEvent", "init", "openFile", "OpenFile", "AddTemplate", "GetTemplate", "RemoveTemplate"} {
					if name == k || strings.HasSuffix(name, "."+k) {
						out = append(out, nodeText(fset, t))
						break
					}
				}
			}
			return true
		})
	}
	walk(fd.Body)
	return out
}

func genSync() {
	var b strings.Builder
	b.WriteString("/- GENERATED by /verif/extract — shutdown order of main() and the synchronisation skeletons of the concurrent functions -/\nnamespace Goflow.Generated\n\n")
	genShutdown(&b)
	type sk struct{ name, rel, fn, recv string }
	for _, s := range []sk{
		{"skReceiveRoutine", "utils/udp.go", "receiveRoutine", "*UDPReceiver"},
		{"skDecoders", "utils/udp.go", "decoders", "*UDPReceiver"},
		{"skStart", "utils/udp.go", "Start", "*UDPReceiver"},
		{"skStop", "utils/udp.go", "Stop", "*UDPReceiver"},
		{"skInit", "utils/udp.go", "init", "*UDPReceiver"},
		{"skFileSend", "transport/file/transport.go", "Send", "*FileDriver"},
		{"skFileInit", "transport/file/transport.go", "Init", "*FileDriver"},
		{"skFileOpen", "transport/file/transport.go", "openFile", "*FileDriver"},
		{"skKafkaSend", "transport/kafka/kafka.go", "Send", "*KafkaDriver"},
		{"skKafkaClose", "transport/kafka/kafka.go", "Close", "*KafkaDriver"},
		{"skPipeNetflow", "utils/pipe.go", "DecodeFlow", "*NetFlowPipe"},
		{"skSamplingSystem", "producer/proto/proto.go", "getSamplingRateSystem", "*ProtoProducer"},
		{"skPromAdd", "metrics/templates.go", "AddTemplate", "*PromTemplateSystem"},
		{"skPromGet", "metrics/templates.go", "GetTemplate", "*PromTemplateSystem"},
		{"skPromRemove", "metrics/templates.go", "RemoveTemplate", "*PromTemplateSystem"},
	} {
		items := skeleton(s.rel, s.fn, s.recv)
		q := []string{}
		for _, it := range items {
			q = append(q, leanStr(it))
		}
		fmt.Fprintf(&b, "def %s : List String := [\n  %s\n]\n\n", s.name, strings.Join(q, ",\n  "))
	}
	b.WriteString("end Goflow.Generated\n")
	writeIfChanged("Sync.lean", b.String())
}
