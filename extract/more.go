package main

func genMore() {}
