package main

// translate4.go: the wire decoders read from a *bytes.Buffer. The buffer is the list of the bytes that remain,
// threaded through: a function taking `payload *bytes.Buffer` (and pointers to structs it fills) takes their
// values and returns them in front of its results (kind "st"); `return …, err` with err != nil is Except.error.
//
//   payload.Len()                         -> payload.length
//   utils.BinaryDecoder(payload, &a, …)   -> one big-endian read per destination, typed by the destination
//                                            (Go.readU8/16/32/64 …: the prelude states BinaryRead's fast path)
//   if err := f(…); err != nil { return [zero values,] W(err) }
//                                         -> a bind when W keeps the class of err (err itself, &XError{err} with an
//                                            Unwrap method, fmt.Errorf with %w), Go.errBad otherwise
//   &DecoderError{…}, fmt.Errorf, errors.New, io.ErrUnexpectedEOF as error values (only the class is kept)
//   T{} , x.F = v and &x.F on struct variables, make([]T, n), s.F[i] = v, s.F[:n] on slices of structs
//   conversions to named integer types of the package (IPAddress(x))

import (
	"fmt"
	"go/ast"
	"go/token"
	"strings"
)

const tBuf gty = "*bytes.Buffer"

// named integer types of the package being translated (type IPAddress uint32)
var localNamed = map[string]gty{}

// error wrapper types with an Unwrap method returning the wrapped error: errors.Is sees through them
var errorWrappers = map[string]bool{}

func defaultOf(t gty) string {
	if z, ok := zeroOf(t); ok {
		return z
	}
	switch {
	case t == tAny:
		return "none"
	case isStructList(t):
		return "[]"
	case isStruct(t):
		return "{}"
	}
	return "extract_problem_default"
}

// translateStructD: like translateStruct, with default values (so that `T{}` is `{}`), fields that are slices of
// already generated structs, and the named integer types of the file
func translateStructD(rel, pkg, name string, b *strings.Builder) {
	_, f := parseFile(rel)
	if f == nil {
		return
	}
	var st *ast.StructType
	for _, d := range f.Decls {
		gd, ok := d.(*ast.GenDecl)
		if !ok || gd.Tok != token.TYPE {
			continue
		}
		for _, s := range gd.Specs {
			ts := s.(*ast.TypeSpec)
			if x, ok := ts.Type.(*ast.StructType); ok && ts.Name.Name == name {
				st = x
			}
			if id, ok := ts.Type.(*ast.Ident); ok {
				if ty := goTypeOf(id); isUnsigned(ty) {
					localNamed[ts.Name.Name] = ty
				}
			}
		}
	}
	if st == nil {
		problem("translate: struct %s not found in %s", name, rel)
		fmt.Fprintf(b, "def %s := extract_problem_missing_struct\n\n", name)
		return
	}
	ty := gty("struct:" + name)
	var fields []fieldInfo
	fmt.Fprintf(b, "/-- %s.%s (%s) -/\nstructure %s where\n", pkg, name, rel, name)
	for _, fl := range st.Fields.List {
		fty := goTypeOf(fl.Type)
		if id, ok := fl.Type.(*ast.Ident); ok && fty == tBad {
			fty = localNamed[id.Name]
		}
		if fty == tCell {
			fty = tAny
		}
		if !isUnsigned(fty) && fty != tBool && fty != tAny && fty != tBytes && fty != tLU32 && fty != tString && !isStructList(fty) && !isStruct(fty) && fty != tLIface {
			problem("translate: struct %s: field type %s", name, exprString(fl.Type))
			fmt.Fprintf(b, "  extract_problem_field : extract_problem_untranslated\n")
			continue
		}
		names := fl.Names
		if id, ok := fl.Type.(*ast.Ident); ok && len(names) == 0 {
			names = []*ast.Ident{id} // translate5.go: an embedded struct is a field named after its type
		}
		for _, nm := range names {
			fields = append(fields, fieldInfo{nm.Name, fty})
			fmt.Fprintf(b, "  %s : %s := %s\n", leanIdent(nm.Name), leanTy(fty), defaultOf(fty))
		}
	}
	b.WriteString("\n")
	structFields[ty] = fields
	namedTypes[pkg+"."+name] = ty
	namedTypes[name] = ty
}

// the error wrapper types of a file: struct { Err error } with func (e *T) Unwrap() error { return e.Err }
func scanErrorWrappers(f *ast.File) {
	for _, d := range f.Decls {
		fd, ok := d.(*ast.FuncDecl)
		if !ok || fd.Recv == nil || fd.Name.Name != "Unwrap" || fd.Body == nil || len(fd.Body.List) != 1 {
			continue
		}
		rs, ok := fd.Body.List[0].(*ast.ReturnStmt)
		if !ok || len(rs.Results) != 1 {
			continue
		}
		if se, ok := rs.Results[0].(*ast.SelectorExpr); ok && se.Sel.Name == "Err" && len(fd.Recv.List) == 1 {
			errorWrappers[strings.TrimPrefix(exprString(fd.Recv.List[0].Type), "*")] = true
		}
	}
	scanWrapperFields5(f) // translate5.go
}

// errClassOf: how the class of an error expression depends on the variable errName:
// "same" (the class of errName), "bad", "eof", "nil", or "" (not understood)
func errClassOf(e ast.Expr, errName string) string {
	switch x := e.(type) {
	case *ast.ParenExpr:
		return errClassOf(x.X, errName)
	case *ast.Ident:
		switch x.Name {
		case errName:
			return "same"
		case "nil":
			return "nil"
		}
	case *ast.SelectorExpr:
		if exprString(x) == "io.ErrUnexpectedEOF" {
			return "eof"
		}
	case *ast.UnaryExpr:
		if cl, ok := x.X.(*ast.CompositeLit); ok && x.Op == token.AND && errorWrappers[exprString(cl.Type)] && len(cl.Elts) == 1 {
			el := cl.Elts[0]
			if kv, ok := el.(*ast.KeyValueExpr); ok {
				el = kv.Value
			}
			return errClassOf(el, errName)
		} else if ok && x.Op == token.AND {
			if el, ok := wrappedErr5(cl); ok { // translate5.go: a wrapper with more fields than the error
				return errClassOf(el, errName)
			}
		}
	case *ast.CallExpr:
		switch exprString(x.Fun) {
		case "errors.New":
			return "bad"
		case "fmt.Errorf":
			if len(x.Args) == 0 {
				return ""
			}
			lit, ok := x.Args[0].(*ast.BasicLit)
			if !ok {
				return ""
			}
			n := strings.Count(lit.Value, "%w")
			if n == 0 {
				return "bad"
			}
			if n > 1 {
				return ""
			}
			// the argument bound to %w: count the verbs before it
			before := lit.Value[:strings.Index(lit.Value, "%w")]
			idx := strings.Count(before, "%") - 2*strings.Count(before, "%%")
			if 1+idx < len(x.Args) {
				return errClassOf(x.Args[1+idx], errName)
			}
		}
	}
	return ""
}

// errValue: an error-typed expression as Go.Error
func (t *tr) errValue(e ast.Expr) (string, bool) {
	if id, ok := e.(*ast.Ident); ok && id.Name != "nil" {
		if ty, ok := t.lookup(id.Name); ok && ty == tError {
			return leanIdent(id.Name), true
		}
	}
	switch errClassOf(e, "\x00") {
	case "nil":
		return "(none : Go.Error)", true
	case "bad":
		return "(some Err.bad : Go.Error)", true
	case "eof":
		return "(some Err.eof : Go.Error)", true
	}
	// a wrapper around an error variable
	for _, v := range t.env {
		if v.ty == tError && errClassOf(e, v.name) == "same" {
			return leanIdent(v.name), true
		}
	}
	return "", false
}

func (t *tr) stTuple(extra []string) string {
	var vs []string
	for _, s := range t.stVars {
		vs = append(vs, leanIdent(s))
	}
	vs = append(vs, extra...)
	if len(vs) == 0 {
		return "()"
	}
	return "(" + strings.Join(vs, ", ") + ")"
}

// return of a state-passing function
func (t *tr) retSt(x *ast.ReturnStmt) []string {
	if t.errVal5 {
		return t.retStv5(x) // translate5.go
	}
	n := len(t.retTys) // the last one is error
	if len(x.Results) == 1 && n >= 1 {
		// return f(payload, …): a translated function over the same state with the same results
		if ce, ok := x.Results[0].(*ast.CallExpr); ok {
			if code, sig, ok := t.stCall(ce); ok {
				if len(sig.results) == n {
					out := t.flush()
					return append(out, code)
				}
				return []string{t.fail(x, "tail call with different results")}
			}
			if lines, ok := t.tailDecoder5(ce); ok { // translate5.go: return utils.BinaryDecoder(payload, …)
				return lines
			}
		}
	}
	if len(x.Results) != n {
		return []string{t.fail(x, "return arity")}
	}
	var vals []string
	t.noEscape++
	for i, r := range x.Results[:n-1] {
		vals = append(vals, t.as(r, t.expr(r), t.retTys[i]))
	}
	t.noEscape--
	ev, ok := t.errValue(x.Results[n-1])
	if !ok {
		return []string{t.fail(x.Results[n-1], "error value %s", exprString(x.Results[n-1]))}
	}
	out := t.flush()
	tup := t.stTuple(vals)
	if ev == "(none : Go.Error)" {
		return append(out, ".ok "+tup)
	}
	return append(out, "Go.retSt "+ev+" "+tup)
}

// stCall: a call of a translated state-passing function whose state arguments are this function's state variables
func (t *tr) stCall(ce *ast.CallExpr) (string, fnSig, bool) {
	id, ok := ce.Fun.(*ast.Ident)
	if !ok {
		return "", fnSig{}, false
	}
	sig, ok := translatedSigs[id.Name]
	if !ok || sig.kind != "st" || len(sig.params) != len(ce.Args) {
		return "", fnSig{}, false
	}
	name := leanIdent(id.Name)
	if sig.lean != "" {
		name = sig.lean
	}
	parts := []string{name}
	for i, a := range ce.Args {
		isState := false
		for _, si := range sig.refs {
			if si == i {
				isState = true
			}
		}
		if isState {
			ai, ok := t.stArg5(a, sig.params[i]) // translate5.go: a variable, or &x for a struct behind a pointer
			if !ok {
				t.fail(a, "state argument that is not a variable")
				return "", fnSig{}, false
			}
			if ty, _ := t.lookup(ai.Name); ty != sig.params[i] {
				t.fail(a, "state argument of type %s", ty)
				return "", fnSig{}, false
			}
			parts = append(parts, leanIdent(ai.Name))
			continue
		}
		parts = append(parts, t.as(a, t.expr(a), sig.params[i]))
	}
	return strings.Join(parts, " "), sig, true
}

// tryPattern: if err := f(…); err != nil { return …, W(err) } — the call and how W treats the class
func tryPattern(x *ast.IfStmt) (*ast.CallExpr, string, bool) {
	if x.Init == nil || x.Else != nil || len(x.Body.List) != 1 {
		return nil, "", false
	}
	as, ok := x.Init.(*ast.AssignStmt)
	if !ok || as.Tok != token.DEFINE || len(as.Lhs) != 1 || len(as.Rhs) != 1 {
		return nil, "", false
	}
	errID, ok := as.Lhs[0].(*ast.Ident)
	if !ok {
		return nil, "", false
	}
	ce, ok := as.Rhs[0].(*ast.CallExpr)
	if !ok {
		return nil, "", false
	}
	be, ok := x.Cond.(*ast.BinaryExpr)
	if !ok || be.Op != token.NEQ || exprString(be.X) != errID.Name || exprString(be.Y) != "nil" {
		return nil, "", false
	}
	rs, ok := x.Body.List[0].(*ast.ReturnStmt)
	if !ok || len(rs.Results) == 0 {
		return nil, "", false
	}
	cls := errClassOf(rs.Results[len(rs.Results)-1], errID.Name)
	if cls != "same" && cls != "bad" {
		return nil, "", false
	}
	return ce, cls, true
}

// readOf: the prelude read for a destination of the given type
func readOf(ty gty) string {
	switch ty {
	case tU8, tU16, tU32, tU64:
		return fmt.Sprintf("Go.readU%d", width(ty))
	}
	return ""
}

// effectCallSt: a call in statement position inside a state-passing function. cls: "same" or "bad".
func (t *tr) effectCallSt(ce *ast.CallExpr, cls string) ([]string, bool) {
	bad := []string{"(extract_problem_untranslated)"}
	wrap := func(code string) string {
		if cls == "bad" {
			return "Go.errBad (" + code + ")"
		}
		return code
	}
	if exprString(ce.Fun) == "utils.BinaryDecoder" {
		if len(ce.Args) < 1 {
			t.fail(ce, "BinaryDecoder arity")
			return bad, false
		}
		bid, ok := ce.Args[0].(*ast.Ident)
		if !ok {
			t.fail(ce, "BinaryDecoder on something other than a buffer variable")
			return bad, false
		}
		if ty, _ := t.lookup(bid.Name); ty != tBuf {
			t.fail(ce, "BinaryDecoder on %s", ty)
			return bad, false
		}
		buf := leanIdent(bid.Name)
		var out []string
		for _, a := range ce.Args[1:] {
			if lines, ok := t.dest6(a, buf, wrap); ok { // translate6.go: []byte fields, []uint32 locals, string fields
				out = append(out, lines...)
				continue
			}
			op, ok := addrOperand(a)
			if !ok {
				// a []byte variable: BinaryRead fills it (len(data) bytes; an empty one is "invalid type")
				if id, isID := a.(*ast.Ident); isID {
					if ty, _ := t.lookup(id.Name); ty == tBytes {
						name, ok := t.storable(a, a)
						if !ok {
							return bad, false
						}
						r := t.bind(wrap("Go.readBytes " + buf + " " + leanIdent(name) + ".length"))
						out = append(out, t.flush()...)
						out = append(out, "let "+leanIdent(name)+" : Bytes := "+r+".1")
						out = append(out, "let "+buf+" : Bytes := "+r+".2")
						continue
					}
				}
				t.fail(a, "BinaryDecoder destination that is not an address")
				return bad, false
			}
			lv, ok := t.lvalue(op)
			if !ok {
				return bad, false
			}
			rd := readOf(lv.ty)
			if rd == "" {
				t.fail(a, "BinaryDecoder destination of type %s", lv.ty)
				return bad, false
			}
			r := t.bind(wrap(rd + " " + buf))
			out = append(out, t.flush()...)
			out = append(out, lv.write(r+".1")...)
			out = append(out, "let "+buf+" : Bytes := "+r+".2")
		}
		return out, true
	}
	if code, sig, ok := t.stCall(ce); ok {
		if len(sig.results) != 1 {
			t.fail(ce, "call of %s with results in statement position", exprString(ce.Fun))
			return bad, false
		}
		r := t.bind(wrap(code))
		out := t.flush()
		id := ce.Fun.(*ast.Ident)
		_ = id
		k := 0
		total := len(sig.refs)
		for i, a := range ce.Args {
			for _, si := range sig.refs {
				if si == i {
					ai, _ := t.stArg5(a, sig.params[i])
					ty, _ := t.lookup(ai.Name)
					out = append(out, "let "+leanIdent(ai.Name)+" : "+leanTy(ty)+" := "+r+proj(k, total))
					k++
				}
			}
		}
		return out, true
	}
	t.fail(ce, "call of %s in a state-passing function", exprString(ce.Fun))
	return bad, false
}

// ---------------------------------------------------------------------------
// LegacyT.lean: the NetFlow v5 decoder
// ---------------------------------------------------------------------------

type decUnit struct {
	rel string
	fn  string
}

func newDecoderTr(rel string) (*tr, *ast.File) {
	fset, f := parseFile(rel)
	if f == nil {
		return nil, nil
	}
	t := &tr{fset: fset, globals: map[string]gty{}, msgKind: map[string]string{}, imports: map[string]string{}, consts: map[string]val{}}
	for _, im := range f.Imports {
		path := strings.Trim(im.Path.Value, "\"")
		alias := path[strings.LastIndex(path, "/")+1:]
		if im.Name != nil {
			alias = im.Name.Name
		}
		t.imports[alias] = path
	}
	scanErrorWrappers(f)
	return t, f
}

func genTranslateLegacy() {
	localNamed = map[string]gty{}
	errorWrappers = map[string]bool{}
	defer func() { localNamed = map[string]gty{} }()
	var b strings.Builder
	b.WriteString("/- GENERATED by /verif/extract (translate.go, translate4.go) — do not edit.\n")
	b.WriteString("   A syntax-directed translation of decoders/netflowlegacy/netflow.go (DecodeMessage, DecodeMessageVersion): the\n")
	b.WriteString("   *bytes.Buffer is the list of the bytes that remain, threaded through; the packet behind the pointer comes back\n")
	b.WriteString("   with it. Proofs/C05Trans.lean proves the result equal to the hand-written model for every byte string. -/\n")
	b.WriteString("import Goflow.Producer.GoPrims\nset_option linter.unusedVariables false\nnamespace Goflow.Generated.TL\nopen Goflow Goflow.Producer\n\n")
	translateStructD("decoders/netflowlegacy/packet.go", "netflowlegacy", "RecordsNetFlowV5", &b)
	translateStructD("decoders/netflowlegacy/packet.go", "netflowlegacy", "PacketNetFlowV5", &b)
	saved := map[string]fnSig{}
	for k, v := range translatedSigs {
		saved[k] = v
	}
	for _, u := range []decUnit{
		{"decoders/netflowlegacy/netflow.go", "DecodeMessage"},
		{"decoders/netflowlegacy/netflow.go", "DecodeMessageVersion"},
	} {
		t, f := newDecoderTr(u.rel)
		if f == nil {
			fmt.Fprintf(&b, "def %s := extract_problem_missing_file\n\n", u.fn)
			continue
		}
		fd := findFunc(f, u.fn)
		if fd == nil || fd.Recv != nil {
			problem("translate: %s not found in %s", u.fn, u.rel)
			fmt.Fprintf(&b, "def %s := extract_problem_missing_function\n\n", u.fn)
			continue
		}
		fmt.Fprintf(&b, "/-! %s: %s -/\n", u.rel, u.fn)
		b.WriteString(t.function(fd))
		b.WriteString("\n")
	}
	// the names of this package must not leak into the other generated files (sflow / netflow have their own DecodeMessage)
	for k := range translatedSigs {
		if _, ok := saved[k]; !ok {
			delete(translatedSigs, k)
		}
	}
	for k, v := range saved {
		translatedSigs[k] = v
	}
	b.WriteString("end Goflow.Generated.TL\n")
	writeIfChanged("LegacyT.lean", b.String())
}

// ---------------------------------------------------------------------------
// SflowT.lean: the sFlow decoder (so far: DecodeIP)
// ---------------------------------------------------------------------------

func genTranslateSflow() {
	localNamed = map[string]gty{}
	errorWrappers = map[string]bool{}
	defer func() { localNamed = map[string]gty{} }()
	var b strings.Builder
	b.WriteString("/- GENERATED by /verif/extract (translate.go, translate4.go) — do not edit.\n")
	b.WriteString("   Syntax-directed translations of functions of decoders/sflow/sflow.go (so far: DecodeIP); the *bytes.Buffer is the\n")
	b.WriteString("   list of the bytes that remain, threaded through. Proofs/C04Trans.lean proves them equal to the hand-written model. -/\n")
	b.WriteString("import Goflow.Producer.GoPrims\nset_option linter.unusedVariables false\nnamespace Goflow.Generated.TS\nopen Goflow Goflow.Producer\n\n")
	saved := map[string]fnSig{}
	for k, v := range translatedSigs {
		saved[k] = v
	}
	for _, u := range []decUnit{
		{"decoders/sflow/sflow.go", "DecodeIP"},
	} {
		t, f := newDecoderTr(u.rel)
		if f == nil {
			fmt.Fprintf(&b, "def %s := extract_problem_missing_file\n\n", u.fn)
			continue
		}
		fd := findFunc(f, u.fn)
		if fd == nil || fd.Recv != nil {
			problem("translate: %s not found in %s", u.fn, u.rel)
			fmt.Fprintf(&b, "def %s := extract_problem_missing_function\n\n", u.fn)
			continue
		}
		fmt.Fprintf(&b, "/-! %s: %s -/\n", u.rel, u.fn)
		b.WriteString(t.function(fd))
		b.WriteString("\n")
	}
	for k := range translatedSigs {
		if _, ok := saved[k]; !ok {
			delete(translatedSigs, k)
		}
	}
	for k, v := range saved {
		translatedSigs[k] = v
	}
	b.WriteString("end Goflow.Generated.TS\n")
	writeIfChanged("SflowT.lean", b.String())
}

// ---------------------------------------------------------------------------
// NetflowDecT.lean: the NetFlow v9 / IPFIX decoder (so far: GetTemplateSize)
// ---------------------------------------------------------------------------

func genTranslateNetflowDec() {
	localNamed = map[string]gty{}
	errorWrappers = map[string]bool{}
	defer func() { localNamed = map[string]gty{} }()
	var b strings.Builder
	b.WriteString("/- GENERATED by /verif/extract (translate.go, translate4.go) — do not edit.\n")
	b.WriteString("   Syntax-directed translations of functions of decoders/netflow/netflow.go (so far: GetTemplateSize).\n")
	b.WriteString("   Proofs/C03Trans.lean proves them equal to the hand-written model. -/\n")
	b.WriteString("import Goflow.Producer.GoPrims\nset_option linter.unusedVariables false\nnamespace Goflow.Generated.TD\nopen Goflow Goflow.Producer\n\n")
	translateStructD("decoders/netflow/packet.go", "netflow", "Field", &b)
	saved := map[string]fnSig{}
	for k, v := range translatedSigs {
		saved[k] = v
	}
	for _, u := range []decUnit{
		{"decoders/netflow/netflow.go", "GetTemplateSize"},
	} {
		t, f := newDecoderTr(u.rel)
		if f == nil {
			fmt.Fprintf(&b, "def %s := extract_problem_missing_file\n\n", u.fn)
			continue
		}
		fd := findFunc(f, u.fn)
		if fd == nil || fd.Recv != nil {
			problem("translate: %s not found in %s", u.fn, u.rel)
			fmt.Fprintf(&b, "def %s := extract_problem_missing_function\n\n", u.fn)
			continue
		}
		fmt.Fprintf(&b, "/-! %s: %s -/\n", u.rel, u.fn)
		b.WriteString(t.function(fd))
		b.WriteString("\n")
	}
	for k := range translatedSigs {
		if _, ok := saved[k]; !ok {
			delete(translatedSigs, k)
		}
	}
	for k, v := range saved {
		translatedSigs[k] = v
	}
	b.WriteString("end Goflow.Generated.TD\n")
	writeIfChanged("NetflowDecT.lean", b.String())
}
