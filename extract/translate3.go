package main

// translate3.go: what the translator gained for Goflow/Generated/NetflowT.lean
// (addrReplaceCheck, allZeroes, MapCustomNetFlow, ConvertNetFlowDataSet of producer_nf.go / reflect.go):
//
//   if err := f(…); err != nil { return err }   -> a bind of the Res-valued translation of f (tryCall)
//   &(flowMessage.X), &local                      -> the value goes in, the value after the call is written back
//   func(p *[]byte, q *uint32, …) without results -> Res (pointees after the call)      (kind "ptrs")
//   func(msg *ProtoProducerMessage, …) error      -> Res FlowMsg                        (kind "msgerr")
//   loops with `return` inside, and loops whose body is wanted as a definition of its own (outline)
//                                                 -> body : Res (Go.Ctl carried result), next | brk | ret
//   for _, b := range v                           -> b := v[hidden counter]
//   a && f(x) with a partial right operand        -> evaluated under the left operand, not hoisted
//   switch df.Type { case netflow.C: … }          -> selector tags; constants of decoders/netflow
//   df.Value.([]byte) with and without comma-ok, []netflow.DataField, struct fields of type bool / interface{}
//   TemplateMapper / PacketMapper / MappableField -> prelude types; Map / ParsePacket / MapCustom are prelude externals
//   flowMessage.MplsLabel[i] = v, make([]uint32, n), copy on []uint32, 1e6

import (
	"fmt"
	"go/ast"
	"go/constant"
	"go/token"
	"strings"
)

const (
	tAny      gty = "any" // interface{} holding a []byte or something else
	tTMapper  gty = "TemplateMapper"
	tPMapper  gty = "PacketMapper"
	tMapField gty = "MappableField"
)

func isStructList(t gty) bool { return strings.HasPrefix(string(t), "list:struct:") }

// an lvalue whose address is taken: how to read it, and how to write a new value back
type lval struct {
	read  string
	ty    gty
	write func(code string) []string
	key   string // for the distinctness check of two pointers in one call
}

func (t *tr) lvalue(e ast.Expr) (lval, bool) {
	for {
		p, ok := e.(*ast.ParenExpr)
		if !ok {
			break
		}
		e = p.X
	}
	switch x := e.(type) {
	case *ast.Ident:
		ty, ok := t.lookup(x.Name)
		if !ok || t.refParams[x.Name] || isPtr(ty) {
			t.fail(x, "address of %s", x.Name)
			return lval{}, false
		}
		if _, zok := zeroOf(ty); !zok {
			t.fail(x, "address of %s of type %s", x.Name, ty)
			return lval{}, false
		}
		n := leanIdent(x.Name)
		return lval{read: n, ty: ty, key: x.Name, write: func(c string) []string {
			return []string{"let " + n + " : " + leanTy(ty) + " := " + c}
		}}, true
	case *ast.SelectorExpr:
		if lv, ok := t.lvalue6(x); ok { // translate6.go: &a.B.C
			return lv, true
		}
		id, ok := x.X.(*ast.Ident)
		if ok {
			if bty, _ := t.lookup(id.Name); isStruct(bty) {
				v := t.selector(x)
				if v.ty == tBad {
					return lval{}, false
				}
				return lval{read: v.code, ty: v.ty, key: exprString(x), write: func(c string) []string {
					return t.assignTo(x, val{code: c, ty: v.ty}, false)
				}}, true
			}
			if bty, _ := t.lookup(id.Name); bty == tMsg {
				v := t.selector(x)
				if v.ty == tBad {
					return lval{}, false
				}
				return lval{read: v.code, ty: v.ty, key: exprString(x), write: func(c string) []string {
					return t.assignTo(x, val{code: c, ty: v.ty}, false)
				}}, true
			}
		}
	}
	t.fail(e, "address of %s", exprString(e))
	return lval{}, false
}

func addrOperand(a ast.Expr) (ast.Expr, bool) {
	for {
		p, ok := a.(*ast.ParenExpr)
		if !ok {
			break
		}
		a = p.X
	}
	u, ok := a.(*ast.UnaryExpr)
	if !ok || u.Op != token.AND {
		return nil, false
	}
	return u.X, true
}

// effectCall: a call whose translation is Res-valued and that writes through its pointer arguments.
// Used for the try idiom and for expression statements. Returns the lines, ending with the write-backs.
func (t *tr) effectCall(ce *ast.CallExpr) ([]string, bool) {
	bad := []string{"(extract_problem_untranslated)"}
	// mapperSFlow.ParsePacket(flowMessage, v)
	if se, ok := ce.Fun.(*ast.SelectorExpr); ok {
		if id, ok := se.X.(*ast.Ident); ok {
			if ty, _ := t.lookup(id.Name); ty == tPMapper && se.Sel.Name == "ParsePacket" && len(ce.Args) == 2 {
				m, ok := ce.Args[0].(*ast.Ident)
				if !ok || m.Name != t.msgVar || t.msgVar == "" {
					t.fail(ce, "ParsePacket on something other than the function's message")
					return bad, false
				}
				d := t.as(ce.Args[1], t.expr(ce.Args[1]), tBytes)
				r := t.bind("Go.ParsePacket " + leanIdent(id.Name) + " " + leanIdent(m.Name) + " " + d)
				out := t.flush()
				return append(out, "let "+leanIdent(m.Name)+" : FlowMsg := "+r), true
			}
		}
	}
	id, ok := ce.Fun.(*ast.Ident)
	if !ok {
		t.fail(ce, "call of %s as a statement", exprString(ce.Fun))
		return bad, false
	}
	sig, ok := translatedSigs[id.Name]
	if !ok || len(sig.params) != len(ce.Args) {
		t.fail(ce, "call of %s, which is not a translated function (or arity)", id.Name)
		return bad, false
	}
	name := leanIdent(id.Name)
	if sig.lean != "" {
		name = sig.lean
	}
	parts := []string{name}
	var writes []func(r string) []string
	seen := map[string]bool{}
	switch sig.kind {
	case "cell":
		for i, a := range ce.Args {
			if sig.params[i] != tCell {
				parts = append(parts, t.as(a, t.expr(a), sig.params[i]))
				continue
			}
			op, ok := addrOperand(a)
			if !ok {
				t.fail(a, "interface{} argument that is not an address")
				return bad, false
			}
			lv, ok := t.lvalue(op)
			if !ok {
				return bad, false
			}
			if !isUnsigned(lv.ty) || lv.ty == tUint {
				t.fail(a, "pointer to %s passed as interface{}", lv.ty)
				return bad, false
			}
			w := width(lv.ty)
			parts = append(parts, fmt.Sprintf("(Go.Cell.u%d %s)", w, lv.read))
			writes = append(writes, func(r string) []string { return lv.write(fmt.Sprintf("(Go.Cell.getU%d %s)", w, r)) })
		}
		r := t.bind(strings.Join(parts, " "))
		out := t.flush()
		for _, w := range writes {
			out = append(out, w(r)...)
		}
		return out, true
	case "msgerr":
		for i, a := range ce.Args {
			if sig.params[i] == tMsg {
				m, ok := a.(*ast.Ident)
				if !ok || m.Name != t.msgVar || t.msgVar == "" {
					t.fail(a, "message argument other than the function's own")
					return bad, false
				}
				parts = append(parts, leanIdent(m.Name))
				continue
			}
			if code, ok := t.ptrArg7(id.Name, i, a, sig.params[i]); ok { // translate7.go: &x for a struct the callee only reads
				parts = append(parts, code)
				continue
			}
			parts = append(parts, t.as(a, t.expr(a), sig.params[i]))
		}
		r := t.bind(strings.Join(parts, " "))
		out := t.flush()
		return append(out, "let "+leanIdent(t.msgVar)+" : FlowMsg := "+r), true
	case "ptrs":
		nref := 0
		for i, a := range ce.Args {
			isRef := false
			for _, ri := range sig.refs {
				if ri == i {
					isRef = true
				}
			}
			if !isRef {
				parts = append(parts, t.as(a, t.expr(a), sig.params[i]))
				continue
			}
			op, ok := addrOperand(a)
			if !ok {
				t.fail(a, "pointer argument that is not an address")
				return bad, false
			}
			lv, ok := t.lvalue(op)
			if !ok {
				return bad, false
			}
			if lv.ty != sig.params[i] {
				t.fail(a, "pointer to %s where %s is expected", lv.ty, sig.params[i])
				return bad, false
			}
			if seen[lv.key] {
				t.fail(a, "the same variable passed through two pointers")
				return bad, false
			}
			seen[lv.key] = true
			parts = append(parts, lv.read)
			k := nref
			total := len(sig.refs)
			writes = append(writes, func(r string) []string { return lv.write(r + proj(k, total)) })
			nref++
		}
		r := t.bind(strings.Join(parts, " "))
		out := t.flush()
		for _, w := range writes {
			out = append(out, w(r)...)
		}
		return out, true
	}
	t.fail(ce, "call of %s (kind %s) as a statement", id.Name, sig.kind)
	return bad, false
}

// isTry: if err := f(…); err != nil { return err }
func isTry(x *ast.IfStmt) (*ast.CallExpr, bool) {
	if x.Init == nil || x.Else != nil || len(x.Body.List) != 1 {
		return nil, false
	}
	as, ok := x.Init.(*ast.AssignStmt)
	if !ok || as.Tok != token.DEFINE || len(as.Lhs) != 1 || len(as.Rhs) != 1 {
		return nil, false
	}
	errID, ok := as.Lhs[0].(*ast.Ident)
	if !ok {
		return nil, false
	}
	ce, ok := as.Rhs[0].(*ast.CallExpr)
	if !ok {
		return nil, false
	}
	be, ok := x.Cond.(*ast.BinaryExpr)
	if !ok || be.Op != token.NEQ || exprString(be.X) != errID.Name || exprString(be.Y) != "nil" {
		return nil, false
	}
	rs, ok := x.Body.List[0].(*ast.ReturnStmt)
	if !ok || len(rs.Results) != 1 || exprString(rs.Results[0]) != errID.Name {
		return nil, false
	}
	return ce, true
}

// does a statement list contain a `return` that is not part of the try idiom (nested loops excluded)?
func containsReturn(list []ast.Stmt) bool {
	found := false
	var visit func(n ast.Node) bool
	visit = func(n ast.Node) bool {
		switch x := n.(type) {
		case *ast.IfStmt:
			if _, ok := isTry(x); ok {
				return false
			}
			if _, _, ok := tryPattern(x); ok && !stvMode5 { // translate5.go: with the error as a value the return is a real exit
				return false
			}
		case *ast.ReturnStmt:
			found = true
		case *ast.FuncLit:
			return false
		}
		return true
	}
	for _, s := range list {
		ast.Inspect(s, visit)
	}
	return found
}

// the type inside Res of the function being translated
func (t *tr) resInner() string {
	switch t.retKind {
	case "msg", "msgerr":
		return "FlowMsg"
	case "cell":
		return "Go.Cell"
	case "parser":
		return "PRes"
	case "st":
		return t.stInner5() // translate5.go
	}
	var tys []string
	for _, ty := range t.retTys {
		tys = append(tys, leanTy(ty))
	}
	if len(tys) == 0 {
		return "Unit"
	}
	return strings.Join(tys, " × ")
}

// forStmtCtl: a loop whose body is a definition of its own with three exits
//
//	F_loopN_body params carried : Res (Go.Ctl (carried) R)     next | brk | ret
//	F_loopN      params fuel carried : Res (Go.Ctl (carried) R)  (brk | ret)
func (t *tr) forStmtCtl(x *ast.ForStmt, fuel string) []string {
	var out []string
	if x.Init != nil {
		defer t.endForScope5(len(t.env))() // translate5.go: the variable of the init statement ends with the loop
		out = append(out, t.simple(x.Init)...)
	}
	if fuel == "" {
		fuel = t.bufFuel5() // translate5.go: a loop over a buffer
	}
	if fuel == "" {
		return append(out, t.fail(x, "loop without a fuel bound"))
	}
	asg := assignedNames([]ast.Node{x.Body, x.Post})
	use := usedNames([]ast.Node{x.Cond, x.Body, x.Post})
	if t.retKind == "st" {
		for _, sv := range t.stVars {
			use[sv] = true // translate5.go: a `return` inside the loop hands back the state
		}
	}
	var carried, params []varInfo
	for _, v := range t.env {
		switch {
		case asg[v.name]:
			carried = append(carried, v)
		case use[v.name]:
			params = append(params, v)
		}
	}
	t.loops++
	name := fmt.Sprintf("%s_loop%d", t.fn, t.loops)
	tupTy, tupVal := t.tupleOf(carried)
	ctlTy := "Res (Go.Ctl (" + tupTy + ") (" + t.resInner() + "))"

	var sig, callArgs, carriedSig, carriedArgs, pats0, tys []string
	for _, p := range params {
		sig = append(sig, "("+leanIdent(p.name)+" : "+leanTy(p.ty)+")")
		callArgs = append(callArgs, leanIdent(p.name))
	}
	for _, c := range carried {
		carriedSig = append(carriedSig, "("+leanIdent(c.name)+" : "+leanTy(c.ty)+")")
		carriedArgs = append(carriedArgs, leanIdent(c.name))
		ty := leanTy(c.ty)
		if strings.Contains(ty, " ") {
			ty = "(" + ty + ")"
		}
		tys = append(tys, ty)
		pats0 = append(pats0, "_")
	}
	join := func(parts ...[]string) string {
		var all []string
		for _, p := range parts {
			all = append(all, p...)
		}
		return strings.Join(all, " ")
	}

	savedPre, savedLoop, savedCtl, savedRes := t.pre, t.inLoop, t.ctlLoop, t.curResTy
	t.pre = nil
	t.inLoop++
	t.ctlLoop = true
	t.curResTy = ctlTy
	var post []string
	if x.Post != nil {
		post = t.simple(x.Post)
	}
	next := append(append([]string{}, post...), ".ok (.next "+tupVal+")")
	var cond val
	if x.Cond != nil {
		cond = t.expr(x.Cond)
		if cond.ty != tBool && cond.ty != tBad {
			cond = t.failV(x.Cond, "loop condition of type %s", cond.ty)
		}
	} else {
		cond = val{code: "true", ty: tBool}
	}
	var body []string
	body = append(body, t.flush()...)
	body = append(body, "if "+cond.code+" then")
	body = append(body, indent(t.block(x.Body.List, konts{fall: next, brk: []string{".ok (.brk " + tupVal + ")"}, cont: next}), "  ")...)
	body = append(body, "else")
	body = append(body, "  .ok (.brk "+tupVal+")")
	t.pre, t.inLoop, t.ctlLoop, t.curResTy = savedPre, savedLoop, savedCtl, savedRes

	bodyDef := []string{"def " + join([]string{name + "_body"}, sig, carriedSig) + " : " + ctlTy + " :="}
	bodyDef = append(bodyDef, indent(body, "  ")...)
	t.aux = append(t.aux, strings.Join(bodyDef, "\n"))

	head := "def " + join([]string{name}, sig) + " : Nat → "
	for _, ty := range tys {
		head += ty + " → "
	}
	head += ctlTy
	def := []string{head}
	def = append(def, "  | "+strings.Join(append([]string{"0"}, pats0...), ", ")+" => .error .diverge")
	def = append(def, "  | "+strings.Join(append([]string{"fuel + 1"}, carriedArgs...), ", ")+" =>")
	def = append(def, "    "+join([]string{name + "_body"}, callArgs, carriedArgs)+" >>= fun r =>")
	def = append(def, "    match r with")
	var projArgs []string
	for i := range carried {
		projArgs = append(projArgs, "c"+proj(i, len(carried)))
	}
	def = append(def, "    | .next c => "+join([]string{name}, callArgs, []string{"fuel"}, projArgs))
	def = append(def, "    | .brk c => .ok (.brk c)")
	def = append(def, "    | .ret x => .ok (.ret x)")
	t.aux = append(t.aux, strings.Join(def, "\n"))

	// call site: a `return` inside the loop ends the function, otherwise the carried variables come back
	r := t.bind(join([]string{name}, callArgs, []string{fuel}, carriedArgs))
	out = append(out, t.flush()...)
	c := t.fresh()
	out = append(out, "Go.Ctl.elim "+r+" (fun x => .ok x) fun "+c+" =>")
	for i, cv := range carried {
		out = append(out, "let "+leanIdent(cv.name)+" : "+leanTy(cv.ty)+" := "+c+proj(i, len(carried)))
	}
	return out
}

// `return` inside a loop with three exits
func (t *tr) retCtl(x *ast.ReturnStmt) []string {
	switch t.retKind {
	case "tuple":
		if len(x.Results) != len(t.retTys) {
			return []string{t.fail(x, "return arity")}
		}
		var vals []string
		t.noEscape++
		for i, r := range x.Results {
			vals = append(vals, t.as(r, t.expr(r), t.retTys[i]))
		}
		t.noEscape--
		out := t.flush()
		return append(out, ".ok (.ret ("+strings.Join(vals, ", ")+"))")
	case "msgerr":
		if len(x.Results) == 1 && exprString(x.Results[0]) == "nil" {
			return []string{".ok (.ret " + leanIdent(t.msgVar) + ")"}
		}
	case "st":
		return t.retCtlSt5(x) // translate5.go
	}
	return []string{t.fail(x, "this return inside a loop")}
}

// ---------------------------------------------------------------------------
// NetflowT.lean: the per-element conversion of NetFlow v9 / IPFIX records
// ---------------------------------------------------------------------------

type netflowUnit struct {
	rel     string
	fn      string
	outline bool
}

var netflowUnits = []netflowUnit{
	{"producer/proto/producer_nf.go", "allZeroes", false},
	{"producer/proto/producer_nf.go", "addrReplaceCheck", false},
	{"producer/proto/reflect.go", "MapCustomNetFlow", false},
	{"producer/proto/producer_nf.go", "ConvertNetFlowDataSet", true},
}

func genTranslateNetflow() {
	var b strings.Builder
	b.WriteString("/- GENERATED by /verif/extract (translate.go, translate3.go) — do not edit.\n")
	b.WriteString("   Syntax-directed translations of allZeroes / addrReplaceCheck / ConvertNetFlowDataSet (producer_nf.go) and\n")
	b.WriteString("   MapCustomNetFlow (reflect.go) into the primitives of Goflow/Producer/GoPrims.lean. The body of the loop over\n")
	b.WriteString("   the fields of a record is the definition ConvertNetFlowDataSet_loop1_body (the whole `switch df.Type`).\n")
	b.WriteString("   Proofs/C08Trans2.lean proves it equal to one step of the model's convertFields. -/\n")
	b.WriteString("import Goflow.Producer.GoPrims\nimport Goflow.Generated.NumbersT\nset_option linter.unusedVariables false\nnamespace Goflow.Generated.TF\nopen Goflow Goflow.Producer\nopen Goflow.Generated.TN (DecodeUNumber DecodeUNumberLE WriteUDecoded)\n\n")

	translateStruct("decoders/netflow/packet.go", "netflow", "DataField", &b)

	// prelude externals
	translatedSigs["MapCustom"] = fnSig{params: []gty{tMsg, tBytes, tMapField}, results: []gty{tError}, kind: "msgerr", lean: "Go.MapCustom"}

	elementIDs := map[string]int{}
	intConsts("decoders/netflow/nfv9.go", "", elementIDs)
	intConsts("decoders/netflow/ipfix.go", "", elementIDs)
	if len(elementIDs) == 0 {
		problem("translate: no element constants found in decoders/netflow")
	}
	flowTypes := pbFlowTypes()

	for _, u := range netflowUnits {
		fset, f := parseFile(u.rel)
		if f == nil {
			fmt.Fprintf(&b, "def %s := extract_problem_missing_file\n\n", u.fn)
			continue
		}
		t := &tr{fset: fset, globals: map[string]gty{}, msgKind: map[string]string{}, imports: map[string]string{}, consts: map[string]val{}}
		t.outline = u.outline
		for _, c := range flowCols {
			t.msgKind[c.goName] = c.kind
		}
		for _, im := range f.Imports {
			path := strings.Trim(im.Path.Value, "\"")
			alias := path[strings.LastIndex(path, "/")+1:]
			if im.Name != nil {
				alias = im.Name.Name
			}
			t.imports[alias] = path
			switch {
			case strings.HasSuffix(path, "/goflow2/v2/pb"):
				for name, lit := range flowTypes {
					c := constant.MakeFromLiteral(lit, token.INT, 0)
					if constFits(c, tU32) {
						t.consts[alias+"."+name] = val{code: "(" + c.ExactString() + " : UInt32)", ty: tU32}
					}
				}
			case strings.HasSuffix(path, "/goflow2/v2/decoders/netflow"):
				for name, v := range elementIDs {
					c := constant.MakeInt64(int64(v))
					t.consts[alias+"."+name] = val{code: c.ExactString(), ty: tUntyped, cst: c}
				}
			}
		}
		var fd *ast.FuncDecl
		for _, d := range f.Decls {
			if x, ok := d.(*ast.FuncDecl); ok && x.Name.Name == u.fn && x.Recv == nil && x.Body != nil {
				fd = x
			}
		}
		if fd == nil {
			problem("translate: %s not found in %s", u.fn, u.rel)
			fmt.Fprintf(&b, "def %s := extract_problem_missing_function\n\n", u.fn)
			continue
		}
		fmt.Fprintf(&b, "/-! %s: %s -/\n", u.rel, u.fn)
		b.WriteString(t.function(fd))
		b.WriteString("\n")
	}
	b.WriteString("end Goflow.Generated.TF\n")
	writeIfChanged("NetflowT.lean", b.String())
}

// the FlowMessage_FlowType constants of pb/flow.pb.go, by name
func pbFlowTypes() map[string]string {
	out := map[string]string{}
	_, pf := parseFile("pb/flow.pb.go")
	if pf == nil {
		return out
	}
	for _, d := range pf.Decls {
		gd, ok := d.(*ast.GenDecl)
		if !ok || gd.Tok != token.CONST {
			continue
		}
		for _, s := range gd.Specs {
			vs := s.(*ast.ValueSpec)
			if vs.Type == nil || exprString(vs.Type) != "FlowMessage_FlowType" || len(vs.Names) != 1 || len(vs.Values) != 1 {
				continue
			}
			if bl, ok := vs.Values[0].(*ast.BasicLit); ok && bl.Kind == token.INT {
				out[vs.Names[0].Name] = bl.Value
			}
		}
	}
	return out
}
