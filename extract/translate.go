package main

// translate.go: a syntax-directed translation of the layer parsers of
// producer/proto/producer_packet.go (and of the ethertype / protocol dispatchers)
// into Lean 4, written to Goflow/Generated/ParsersT.lean.
//
// Target language: Goflow/Producer/GoPrims.lean (namespace Goflow.Go).
//   uintN            -> UIntN (core wrap-around arithmetic; shifts through Go.shlN / Go.shrN)
//   int              -> Nat   (no `-`, no unary minus: refused)
//   []byte, []uint32 -> List UInt8, List UInt32
//   panic            -> Except.error Err.panic   (every index, slice and BigEndian read is a bind)
//   err != nil       -> Except.error e
//   for              -> a function recursive on fuel, one per loop; fuel exhausted -> Err.diverge
//
// Everything outside the accepted subset goes through fail(): an EXTRACT-PROBLEM line and an
// identifier that does not exist in Lean, so that the generated module does not compile.
//
// A second generated file, Goflow/Generated/NumbersT.lean (genTranslateNumbers at the end of this file), holds
// WriteUDecoded / DecodeUNumber / DecodeUNumberLE, GetBytes, ConvertNetFlowLegacyRecord and templateKey.
// What the subset gained for them:
//   uint                     -> UInt64
//   int, per function        -> Lean Int instead of Nat (intMode): `-`, unary minus, `/` `%` as Int.tdiv / Int.tmod,
//                               indexing / slicing / make / shifts by an int through the `…I` primitives (negative -> panic)
//   out interface{}          -> Go.Cell; `switch t := out.(type) { case *uint16: *t = … }` -> match on the cell;
//                               a function (…, out interface{}) error returns the cell (Go.retCell)
//   func(msg *ProtoProducerMessage, …) without results -> Res FlowMsg
//   for i := range x         -> len(x) once, a hidden counter, fuel len+1
//   make([]byte, n), copy(dst, src), binary.BigEndian.PutUintNN(dst, v), x[i] = v, x[i] op= v
//                            -> only on local slices that hold nothing but make() results and have not been
//                               handed on before the store (checkSlices); anything else is refused (aliasing)
//   binary.LittleEndian.UintNN, structs of other packages (fields of unsigned types), typed enum constants of pb,
//   `0xFF << k` with a variable count (the constant takes the type of its context), `return nil` for slices

import (
	"fmt"
	"go/ast"
	"go/constant"
	"go/token"
	"strconv"
	"strings"
)

// ---------------------------------------------------------------------------
// types
// ---------------------------------------------------------------------------

type gty string

const (
	tU8      gty = "uint8"
	tU16     gty = "uint16"
	tU32     gty = "uint32"
	tU64     gty = "uint64"
	tUint    gty = "uint"        // 64 bits wide (the targets of the project are 64-bit platforms)
	tCell    gty = "interface{}" // an `out interface{}` parameter: a pointer to an unsigned cell
	tInt     gty = "int"
	tBool    gty = "bool"
	tString  gty = "string"
	tBytes   gty = "[]byte"
	tLU32    gty = "[]uint32"
	tLBytes  gty = "[][]byte"
	tLString gty = "[]string"
	tPInfo   gty = "ParserInfo"
	tError   gty = "error"
	tMsg     gty = "*ProtoProducerMessage"
	tPC      gty = "ParseConfig"
	tRes     gty = "ParseResult"
	tUntyped gty = "untyped-int"
	tNil     gty = "nil"
	tEnv     gty = "ParserEnvironment"
	tBad     gty = ""
)

func goTypeOf(e ast.Expr) gty {
	if ty, ok := goTypeOf7(e); ok { // translate7.go: the interface{} values and named []byte types of the sFlow decoder
		return ty
	}
	if ty, ok := goTypeOf5(e); ok { // translate5.go: interface{} as the sum of the package's structs, the template store
		return ty
	}
	switch exprString(e) {
	case "byte", "uint8":
		return tU8
	case "uint16":
		return tU16
	case "uint32":
		return tU32
	case "uint64":
		return tU64
	case "uint":
		return tUint
	case "interface{}":
		return tCell
	case "int":
		return tInt
	case "bool":
		return tBool
	case "string":
		return tString
	case "[]byte", "[]uint8":
		return tBytes
	case "[]uint32":
		return tLU32
	case "[][]byte":
		return tLBytes
	case "[]string":
		return tLString
	case "ParserInfo":
		return tPInfo
	case "error":
		return tError
	case "*ProtoProducerMessage":
		return tMsg
	case "ParseConfig":
		return tPC
	case "ParseResult":
		return tRes
	}
	if ty, ok := namedTypes[exprString(e)]; ok {
		return ty
	}
	if ty, ok := localNamed[exprString(e)]; ok {
		return ty
	}
	switch exprString(e) {
	case "*bytes.Buffer":
		return tBuf
	case "TemplateMapper":
		return tTMapper
	case "PacketMapper":
		return tPMapper
	case "MappableField":
		return tMapField
	}
	if at, ok := e.(*ast.ArrayType); ok && at.Len == nil {
		if el := goTypeOf(at.Elt); isStruct(el) {
			return gty("list:" + string(el))
		}
	}
	return tBad
}

// intMode: Go `int` is translated to Lean `Int` (signed arithmetic, truncated division) instead of `Nat`
var intMode bool

// named types of other packages the translated functions mention (struct types: "struct:Name")
var namedTypes = map[string]gty{}

type fieldInfo struct {
	name string
	ty   gty
}

var structFields = map[gty][]fieldInfo{}

func isStruct(t gty) bool { return strings.HasPrefix(string(t), "struct:") }
func isPtr(t gty) bool    { return strings.HasPrefix(string(t), "ptr:") }

func leanTy(t gty) string {
	if s, ok := leanTy7(t); ok { // translate7.go
		return s
	}
	if s, ok := leanTy5(t); ok { // translate5.go
		return s
	}
	switch t {
	case tU8:
		return "UInt8"
	case tU16:
		return "UInt16"
	case tU32:
		return "UInt32"
	case tU64, tUint:
		return "UInt64"
	case tCell:
		return "Go.Cell"
	case tInt:
		if intMode {
			return "Int"
		}
		return "Nat"
	case tBool:
		return "Bool"
	case tString:
		return "String"
	case tBytes:
		return "Bytes"
	case tLU32:
		return "List UInt32"
	case tLBytes:
		return "List Bytes"
	case tLString:
		return "List String"
	case tPInfo:
		return "Next"
	case tError:
		return "Go.Error"
	case tMsg:
		return "FlowMsg"
	case tPC:
		return "PC"
	case tRes:
		return "Go.ParseResult"
	}
	if isStruct(t) {
		return strings.TrimPrefix(string(t), "struct:")
	}
	if isStructList(t) {
		return "List " + strings.TrimPrefix(string(t), "list:struct:")
	}
	switch t {
	case tBuf:
		return "Bytes"
	case tAny:
		return "Go.Any"
	case tTMapper:
		return "Go.TemplateMapper"
	case tPMapper:
		return "Go.PacketMapper"
	case tMapField:
		return "MapField"
	}
	return "extract_problem_type"
}

func width(t gty) int {
	switch t {
	case tU8:
		return 8
	case tU16:
		return 16
	case tU32:
		return 32
	case tU64, tUint:
		return 64
	}
	return 0
}

func isUnsigned(t gty) bool { return width(t) != 0 }
func isInteger(t gty) bool  { return isUnsigned(t) || t == tInt }

func elemOf(t gty) gty {
	switch t {
	case tBytes:
		return tU8
	case tLU32:
		return tU32
	case tLBytes:
		return tBytes
	case tLString:
		return tString
	}
	if isStructList(t) {
		return gty(strings.TrimPrefix(string(t), "list:"))
	}
	if t == tLIface { // translate5.go
		return tIface
	}
	if e, ok := elemOf7(t); ok { // translate7.go
		return e
	}
	return tBad
}

// zero value of a type, as Lean text
func zeroOf(t gty) (string, bool) {
	switch t {
	case tU8, tU16, tU32, tU64, tUint, tInt:
		return "0", true
	case tBool:
		return "false", true
	case tString:
		return "\"\"", true
	case tBytes, tLU32, tLBytes, tLString:
		return "[]", true
	case tError:
		return "none", true
	case tRes:
		return "{}", true
	case tPInfo:
		return "Next.none", true
	case tIface: // translate5.go
		return "Iface.nil", true
	case tLIface:
		return "[]", true
	}
	if z, ok := zeroOf7(t); ok { // translate7.go
		return z, true
	}
	return "", false
}

// Lean words a Go identifier must not collide with
var leanReserved = map[string]bool{
	"at": true, "do": true, "end": true, "from": true, "fun": true, "have": true, "in": true, "let": true,
	"match": true, "open": true, "show": true, "then": true, "with": true, "where": true, "by": true,
	"def": true, "theorem": true, "instance": true, "structure": true, "class": true, "namespace": true,
	"section": true, "variable": true, "universe": true, "local": true, "deriving": true, "mutual": true,
	"private": true, "protected": true, "partial": true, "unsafe": true, "macro": true, "syntax": true,
	"notation": true, "infix": true, "prefix": true, "postfix": true, "set_option": true, "example": true,
	"axiom": true, "inductive": true, "abbrev": true, "opaque": true, "export": true, "extends": true,
	"using": true, "calc": true, "nomatch": true, "nofun": true, "suffices": true, "obtain": true,
	"Type": true, "Prop": true, "Sort": true, "forall": true, "exists": true,
	"rec": true, // translate5.go: `let rec` starts a recursive definition
}

func leanIdent(s string) string {
	if leanReserved[s] {
		return "«" + s + "»"
	}
	return s
}

// ---------------------------------------------------------------------------
// translator state
// ---------------------------------------------------------------------------

type varInfo struct {
	name string
	ty   gty
}

type val struct {
	code  string
	ty    gty
	cst   constant.Value // set for untyped integer constants
	shift *shiftInfo     // untyped constant shifted by a non-constant count: typed by the context (see as)
}

type sliceEvent struct {
	kind   string // "make", "assign" (anything but make), "escape", "store"
	id     int
	name   string
	pos    token.Pos
	inLoop bool
	uncond bool
}

func (t *tr) event(kind, name string, pos token.Pos) {
	id := t.bindID[name]
	// "in a loop" is relative to the declaration: a variable declared in the body is new in every iteration
	t.sliceEv = append(t.sliceEv, sliceEvent{kind, id, name, pos, t.inLoop > t.bindLoop[id], t.depth == 0 && t.inLoop == 0})
}

// checkSlices: every store must go to a binding that only ever held make() results, and no use that hands the
// slice on may precede the store (textually, which in structured code covers execution order; loops separately)
// unless an unconditional fresh make() lies between the two
func (t *tr) checkSlices() bool {
	ok := true
	if t.fieldStores {
		// a store through a message column is seen through every local that shares the slice: no mention after the sharing
		for _, fe := range t.sliceEv {
			if fe.kind != "fieldEscape" {
				continue
			}
			for _, e := range t.sliceEv {
				if e.id == fe.id && e.kind != "fieldEscape" && e.kind != "make" && e.pos > fe.pos {
					t.fail(nil, "%s is mentioned after it was stored in the message, and the function stores through message columns (aliasing)", fe.name)
					ok = false
				}
			}
		}
	}
	for _, st := range t.sliceEv {
		if st.kind != "store" {
			continue
		}
		made := false
		for _, e := range t.sliceEv {
			if e.id != st.id {
				continue
			}
			switch e.kind {
			case "make":
				made = true
			case "assign":
				t.fail(nil, "store into %s, which is also assigned something other than make() (it may alias another slice)", st.name)
				ok = false
			case "escape":
				if e.inLoop {
					t.fail(nil, "store into %s, which is handed on inside a loop (aliasing)", st.name)
					ok = false
					continue
				}
				if e.pos < st.pos {
					fresh := false
					for _, m := range t.sliceEv {
						if m.id == st.id && m.kind == "make" && m.uncond && m.pos > e.pos && m.pos < st.pos {
							fresh = true
						}
					}
					if !fresh {
						t.fail(nil, "store into %s after it was handed on (aliasing)", st.name)
						ok = false
					}
				}
			}
		}
		if !made {
			t.fail(nil, "store into %s, which was not created by make() here", st.name)
			ok = false
		}
	}
	return ok
}

type shiftInfo struct {
	op  token.Token
	cnt val
}

// what happens when control leaves a statement list (already-translated Lean lines, unindented)
type konts struct {
	fall []string // falling off the end
	brk  []string // break
	cont []string // continue
}

type tr struct {
	fset    *token.FileSet
	fn      string
	env     []varInfo
	pre     []string // pending binds hoisted out of the expression being translated
	tmp     int
	joins   int
	loops   int
	inLoop  int
	aux     []string // loop functions, in order of appearance
	retKind string   // "parser" or "tuple"
	retTys  []gty
	retVars []string
	globals map[string]gty    // package-level variables the bodies may mention
	funcs   map[string]string // translated methods callable as e.f(x): Go name -> "tuple"
	msgKind map[string]string // FlowMessage field -> kind (u32 u64 bytes listU32 listBytes)

	cellVar string // the `out interface{}` parameter of a "cell" function
	msgVar  string // the *ProtoProducerMessage parameter of a "msg" function
	// stores through an index are allowed into local slices that only ever hold the result of make() and that
	// nothing else can refer to at the time of the store; checked at the end of the function over these events
	bindID   map[string]int // current binding of a name -> id of its declaration
	bindLoop map[int]int    // loop nesting at the declaration
	nextID   int
	sliceEv  []sliceEvent
	depth    int            // nesting inside branches (0: executed unconditionally)
	noEscape int            // >0 while translating a read-only use of a slice
	ptrOf    map[string]gty // type-switch binding -> the cell constructor it stands for
	ptrCell  map[string]string
	gen      bool // declaring a generated name
	ranges   int

	refParams   map[string]bool // parameters of pointer type: the variable holds the pointee
	fieldStores bool            // the function stores through an index of a message column
	refOrder    []string        // the pointer parameters in order
	stVars      []string        // the state of a state-passing function: its buffer and the structs it fills, in order
	ctlLoop     bool            // inside a loop with three exits (forStmtCtl)
	outline     bool            // every loop body (and every switch case ending a statement list) becomes a definition of its own
	caseBlocks  map[*ast.BlockStmt]string
	caseNames   map[string]int
	curResTy    string // the type of the term being built (changes inside an outlined loop body)
	imports     map[string]string
	consts      map[string]val    // typed constants of imported packages, by qualified name
	skip5       int               // translate5.go: statements already consumed by stmt5
	listStores5 []*ast.AssignStmt // translate5.go: the stores into local slices of structs (checked by checkListStores5)
	errVal5     bool              // translate5.go: the error is a value in the result
	fd5         *ast.FuncDecl     // translate5.go: the function being translated
}

func (t *tr) fail(n ast.Node, f string, a ...interface{}) string {
	pos := ""
	if n != nil && t.fset != nil {
		p := t.fset.Position(n.Pos())
		pos = fmt.Sprintf(" (line %d)", p.Line)
	}
	problem("translate %s%s: %s", t.fn, pos, fmt.Sprintf(f, a...))
	return "(extract_problem_untranslated)"
}

func (t *tr) failV(n ast.Node, f string, a ...interface{}) val {
	return val{code: t.fail(n, f, a...), ty: tBad}
}

func (t *tr) lookup(name string) (gty, bool) {
	for i := len(t.env) - 1; i >= 0; i-- {
		if t.env[i].name == name {
			return t.env[i].ty, true
		}
	}
	return tBad, false
}

func (t *tr) declare(n ast.Node, name string, ty gty) {
	if _, ok := t.lookup(name); ok {
		t.fail(n, "redeclaration / shadowing of %s is outside the subset", name)
	}
	if t.bindID != nil {
		t.nextID++
		t.bindID[name] = t.nextID
		t.bindLoop[t.nextID] = t.inLoop
	}
	if !t.gen && (name == "fuel" || strings.HasPrefix(name, "t_") || strings.HasPrefix(name, "k_") || strings.HasPrefix(name, "rng_") || strings.HasPrefix(name, "rlen_")) {
		t.fail(n, "identifier %s collides with a generated name", name)
	}
	if t.gen {
		t.gen = false
	}
	t.env = append(t.env, varInfo{name, ty})
}

func (t *tr) fresh() string {
	t.tmp++
	return fmt.Sprintf("t_%d", t.tmp)
}

// bind hoists a partial operation: `op >>= fun t_n =>` is emitted before the current statement
func (t *tr) bind(op string) string {
	v := t.fresh()
	t.pre = append(t.pre, op+" >>= fun "+v+" =>")
	return v
}

func (t *tr) flush() []string {
	p := t.pre
	t.pre = nil
	return p
}

func indent(lines []string, ind string) []string {
	out := make([]string, len(lines))
	for i, l := range lines {
		out[i] = ind + l
	}
	return out
}

// ---------------------------------------------------------------------------
// expressions
// ---------------------------------------------------------------------------

func constFits(c constant.Value, ty gty) bool {
	if c.Kind() != constant.Int {
		return false
	}
	if constant.Sign(c) < 0 {
		if ty == tInt && intMode {
			lim := constant.Shift(constant.MakeInt64(1), token.SHL, 63)
			return constant.Compare(constant.UnaryOp(token.SUB, c, 0), token.LEQ, lim)
		}
		return false
	}
	w := width(ty)
	if ty == tInt {
		w = 63
	}
	if w == 0 {
		return false
	}
	lim := constant.Shift(constant.MakeInt64(1), token.SHL, uint(w))
	return constant.Compare(c, token.LSS, lim)
}

// as coerces v to the wanted type: untyped constants take it, everything else must have it already
func (t *tr) as(n ast.Node, v val, want gty) string {
	if v.ty == tBad {
		return v.code
	}
	if v.ty == tUntyped {
		if !isInteger(want) {
			return t.fail(n, "untyped constant %s used as %s", v.cst.String(), want)
		}
		if !constFits(v.cst, want) {
			return t.fail(n, "constant %s overflows %s", v.cst.String(), want)
		}
		c := "(" + v.cst.ExactString() + " : " + leanTy(want) + ")"
		if v.shift != nil {
			// `0xFF << k` with a variable count: the constant takes the type the context gives the whole shift
			return t.shiftApply(n, val{code: c, ty: want}, v.shift.op, v.shift.cnt).code
		}
		return c
	}
	if v.ty == tNil {
		if want == tError {
			return "(none : Go.Error)"
		}
		if elemOf(want) != tBad {
			return "([] : " + leanTy(want) + ")"
		}
		return t.fail(n, "nil used as %s", want)
	}
	if want == tIface && isStruct(v.ty) && ifaceCtors5[leanTy(v.ty)] {
		return "(Iface." + leanTy(v.ty) + " " + v.code + ")" // translate5.go: a struct stored in an interface{}
	}
	if v.ty != want {
		return t.fail(n, "type mismatch: have %s, want %s", v.ty, want)
	}
	return v.code
}

// unify the operand types of a binary arithmetic / comparison operator
func (t *tr) unify(n ast.Node, a, b val) (string, string, gty) {
	switch {
	case a.ty == tBad || b.ty == tBad:
		return a.code, b.code, tBad
	case a.ty == tUntyped && b.ty == tUntyped:
		if a.shift != nil || b.shift != nil {
			return t.fail(n, "untyped constant shifted by a variable count, combined with another untyped constant"), b.code, tBad
		}
		return t.as(n, a, tInt), t.as(n, b, tInt), tInt
	case a.ty == tUntyped:
		return t.as(n, a, b.ty), b.code, b.ty
	case b.ty == tUntyped:
		return a.code, t.as(n, b, a.ty), a.ty
	case a.ty != b.ty:
		return t.fail(n, "mismatched operand types %s and %s", a.ty, b.ty), b.code, tBad
	}
	return a.code, b.code, a.ty
}

var cmpOps = map[token.Token]string{token.EQL: "=", token.NEQ: "≠", token.LSS: "<", token.LEQ: "≤", token.GTR: ">", token.GEQ: "≥"}

func (t *tr) expr(e ast.Expr) val {
	switch x := e.(type) {
	case *ast.ParenExpr:
		return t.expr(x.X)
	case *ast.BasicLit:
		switch x.Kind {
		case token.INT:
			c := constant.MakeFromLiteral(x.Value, token.INT, 0)
			if c.Kind() != constant.Int {
				return t.failV(x, "integer literal %s", x.Value)
			}
			return val{code: c.ExactString(), ty: tUntyped, cst: c}
		case token.STRING:
			s, err := strconv.Unquote(x.Value)
			if err != nil {
				return t.failV(x, "string literal %s", x.Value)
			}
			return val{code: leanStr(s), ty: tString}
		case token.FLOAT:
			// 1e6: an untyped constant that is an integer
			c := constant.ToInt(constant.MakeFromLiteral(x.Value, token.FLOAT, 0))
			if c.Kind() == constant.Int {
				return val{code: c.ExactString(), ty: tUntyped, cst: c}
			}
		}
		return t.failV(x, "literal %s of kind %s", x.Value, x.Kind)
	case *ast.Ident:
		switch x.Name {
		case "true", "false":
			if _, shadowed := t.lookup(x.Name); !shadowed {
				return val{code: x.Name, ty: tBool}
			}
		case "nil":
			return val{code: "none", ty: tNil}
		}
		if ty, ok := t.lookup(x.Name); ok {
			if (ty == tBytes || ty == tLU32) && t.noEscape == 0 {
				// the slice value is handed on: from here on a store through it could be seen elsewhere
				t.event("escape", x.Name, x.Pos())
			}
			if ty == tBytes || ty == tLU32 {
				t.event("use", x.Name, x.Pos())
			}
			if isPtr(ty) || t.refParams[x.Name] {
				return t.failV(x, "pointer %s used as a value", x.Name)
			}
			return val{code: leanIdent(x.Name), ty: ty}
		}
		if ty, ok := t.globals[x.Name]; ok {
			return val{code: leanIdent(x.Name), ty: ty}
		}
		return t.failV(x, "unknown identifier %s", x.Name)
	case *ast.SelectorExpr:
		return t.selector(x)
	case *ast.IndexExpr:
		t.noEscape++
		base := t.expr(x.X)
		t.noEscape--
		if isStructList(base.ty) {
			i := t.as(x.Index, t.expr(x.Index), tInt)
			return val{code: t.bind("Go.idxL" + iSuffix() + " " + base.code + " " + i), ty: elemOf(base.ty)}
		}
		if v, ok := t.index7(base, x); ok { // translate7.go: s[i] on []uint32
			return v
		}
		if base.ty != tBytes {
			return t.failV(x, "index into %s (only []byte)", base.ty)
		}
		i := t.as(x.Index, t.expr(x.Index), tInt)
		return val{code: t.bind("Go.idx" + iSuffix() + " " + base.code + " " + i), ty: tU8}
	case *ast.SliceExpr:
		if x.Slice3 || x.Max != nil {
			return t.failV(x, "three-index slice")
		}
		base := t.expr(x.X)
		if isStructList(base.ty) && x.Low == nil && x.High != nil && !intMode {
			hi := t.as(x.High, t.expr(x.High), tInt)
			return val{code: t.bind("Go.sliceToL " + base.code + " " + hi), ty: base.ty}
		}
		if base.ty != tBytes {
			return t.failV(x, "slice of %s (only []byte)", base.ty)
		}
		switch {
		case x.Low != nil && x.High != nil:
			lo := t.as(x.Low, t.expr(x.Low), tInt)
			hi := t.as(x.High, t.expr(x.High), tInt)
			return val{code: t.bind("Go.slice" + iSuffix() + " " + base.code + " " + lo + " " + hi), ty: tBytes}
		case x.Low != nil:
			lo := t.as(x.Low, t.expr(x.Low), tInt)
			return val{code: t.bind("Go.sliceFrom" + iSuffix() + " " + base.code + " " + lo), ty: tBytes}
		case x.High != nil:
			hi := t.as(x.High, t.expr(x.High), tInt)
			return val{code: t.bind("Go.sliceTo" + iSuffix() + " " + base.code + " " + hi), ty: tBytes}
		}
		return base
	case *ast.CompositeLit:
		ty := goTypeOf(x.Type)
		if isStruct(ty) && len(x.Elts) == 0 {
			return val{code: "({} : " + leanTy(ty) + ")", ty: ty}
		}
		if isStruct(ty) {
			return t.structLit5(x, ty) // translate5.go: T{F: v, …}
		}
		el := elemOf(ty)
		if el == tBad || isStructList(ty) {
			return t.failV(x, "composite literal of type %s", exprString(x.Type))
		}
		var items []string
		for _, it := range x.Elts {
			if _, kv := it.(*ast.KeyValueExpr); kv {
				return t.failV(it, "keyed element in a slice literal")
			}
			items = append(items, t.as(it, t.expr(it), el))
		}
		return val{code: "([" + strings.Join(items, ", ") + "] : " + leanTy(ty) + ")", ty: ty}
	case *ast.TypeAssertExpr:
		v := t.expr(x.X)
		if x.Type != nil && goTypeOf(x.Type) == tPInfo && v.ty == tPInfo {
			// the values kept in the sync.Maps are ParserInfo by construction (Register* store nothing else)
			return v
		}
		if x.Type != nil && goTypeOf(x.Type) == tBytes && v.ty == tAny {
			// panics when the dynamic type is not []byte
			return val{code: t.bind("Go.assertBytes " + v.code), ty: tBytes}
		}
		return t.failV(x, "type assertion %s", exprString(x))
	case *ast.StarExpr:
		if id, ok := x.X.(*ast.Ident); ok && t.refParams[id.Name] {
			ty, _ := t.lookup(id.Name)
			return val{code: leanIdent(id.Name), ty: ty}
		}
		return t.failV(x, "dereference %s", exprString(x))
	case *ast.UnaryExpr:
		return t.unary(x)
	case *ast.BinaryExpr:
		return t.binary(x)
	case *ast.CallExpr:
		return t.call(x)
	}
	return t.failV(e, "expression %T", e)
}

// the primitives that take an `int` index come in a Nat and an Int flavour
func iSuffix() string {
	if intMode {
		return "I"
	}
	return ""
}

func (t *tr) selector(x *ast.SelectorExpr) val {
	id, ok := x.X.(*ast.Ident)
	if !ok {
		return t.failV(x, "selector %s", exprString(x))
	}
	ty, ok := t.lookup(id.Name)
	if !ok {
		if _, isImport := t.imports[id.Name]; isImport {
			if c, ok := t.consts[id.Name+"."+x.Sel.Name]; ok {
				return c
			}
			return t.failV(x, "unknown constant %s.%s", id.Name, x.Sel.Name)
		}
		return t.failV(x, "selector on unknown %s", id.Name)
	}
	base := leanIdent(id.Name)
	if isStruct(ty) {
		for _, f := range structFields[ty] {
			if f.name == x.Sel.Name {
				return val{code: base + "." + leanIdent(f.name), ty: f.ty}
			}
		}
		if v, ok := t.promoted7(base, ty, x.Sel.Name); ok { // translate7.go: a field of an embedded struct
			return v
		}
		return t.failV(x, "%s has no field %s", ty, x.Sel.Name)
	}
	switch ty {
	case tMsg:
		kind, ok := t.msgKind[x.Sel.Name]
		if !ok {
			return t.failV(x, "FlowMessage has no field %s", x.Sel.Name)
		}
		f := base + "." + lowerFirst(x.Sel.Name)
		switch kind {
		case "u32":
			return val{code: "(UInt32.ofNat " + f + ")", ty: tU32}
		case "u64":
			return val{code: "(UInt64.ofNat " + f + ")", ty: tU64}
		case "bytes":
			return val{code: f, ty: tBytes}
		case "listU32":
			return val{code: "(" + f + ".map UInt32.ofNat)", ty: tLU32}
		case "listBytes":
			return val{code: f, ty: tLBytes}
		}
	case tRes:
		switch x.Sel.Name {
		case "Size":
			return val{code: base + ".Size", ty: tInt}
		case "NextParser":
			return val{code: base + ".NextParser", ty: tPInfo}
		}
	case tPC:
		switch x.Sel.Name {
		case "Calls":
			return val{code: base + ".calls", ty: tInt}
		case "Environment":
			return val{code: base, ty: tEnv}
		}
	case tPInfo:
		switch x.Sel.Name {
		case "ConfigKeyList":
			return val{code: base + ".keys", ty: tLString}
		}
	}
	return t.failV(x, "selector %s on %s", x.Sel.Name, ty)
}

func (t *tr) unary(x *ast.UnaryExpr) val {
	v := t.expr(x.X)
	switch x.Op {
	case token.NOT:
		if v.ty != tBool {
			return t.failV(x, "! on %s", v.ty)
		}
		return val{code: "(!" + v.code + ")", ty: tBool}
	case token.ADD:
		if isInteger(v.ty) || v.ty == tUntyped {
			return v
		}
	case token.XOR:
		if isUnsigned(v.ty) {
			return val{code: "(~~~" + v.code + ")", ty: v.ty}
		}
	case token.SUB:
		if v.ty == tUntyped {
			c := constant.UnaryOp(token.SUB, v.cst, 0)
			return val{code: c.ExactString(), ty: tUntyped, cst: c}
		}
		if isUnsigned(v.ty) {
			return val{code: "(0 - " + v.code + ")", ty: v.ty}
		}
		if v.ty == tInt && intMode {
			return val{code: "(-" + v.code + ")", ty: tInt}
		}
	}
	return t.failV(x, "unary %s on %s", x.Op, v.ty)
}

func (t *tr) binary(x *ast.BinaryExpr) val {
	switch x.Op {
	case token.LAND, token.LOR:
		a := t.expr(x.X)
		n := len(t.pre)
		b := t.expr(x.Y)
		if a.ty != tBool || b.ty != tBool {
			return t.failV(x, "%s on %s and %s", x.Op, a.ty, b.ty)
		}
		if len(t.pre) != n {
			// the right operand of && / || is evaluated conditionally: its partial operations stay under the left operand
			rhs := strings.Join(append(append([]string{}, t.pre[n:]...), "(.ok "+b.code+" : Res Bool)"), " ")
			t.pre = t.pre[:n]
			if x.Op == token.LAND {
				return val{code: t.bind("(if " + a.code + " then " + rhs + " else .ok false)"), ty: tBool}
			}
			return val{code: t.bind("(if " + a.code + " then .ok true else " + rhs + ")"), ty: tBool}
		}
		op := "&&"
		if x.Op == token.LOR {
			op = "||"
		}
		return val{code: "(" + a.code + " " + op + " " + b.code + ")", ty: tBool}
	case token.EQL, token.NEQ, token.LSS, token.LEQ, token.GTR, token.GEQ:
		a := t.expr(x.X)
		b := t.expr(x.Y)
		// comparisons with nil
		if b.ty == tNil || a.ty == tNil {
			if a.ty == tNil {
				a, b = b, a
			}
			if x.Op != token.EQL && x.Op != token.NEQ {
				return t.failV(x, "ordering against nil")
			}
			var c string
			switch a.ty {
			case tEnv:
				c = "(Go.envIsNil " + a.code + ")"
			case tTMapper, tPMapper, tTS:
				c = "(" + a.code + ").isNone"
			case tError:
				c = "(" + a.code + ").isNone"
			default:
				return t.failV(x, "comparison of %s with nil", a.ty)
			}
			if x.Op == token.NEQ {
				c = "(!" + c + ")"
			}
			return val{code: c, ty: tBool}
		}
		if a.ty == tUntyped && b.ty == tUntyped {
			r := constant.Compare(a.cst, x.Op, b.cst)
			return val{code: strconv.FormatBool(r), ty: tBool}
		}
		ac, bc, ty := t.unify(x, a, b)
		ok := isInteger(ty) || ((ty == tBool || ty == tString) && (x.Op == token.EQL || x.Op == token.NEQ))
		if !ok && ty != tBad {
			return t.failV(x, "comparison %s on %s", x.Op, ty)
		}
		return val{code: "decide (" + ac + " " + cmpOps[x.Op] + " " + bc + ")", ty: tBool}
	case token.SHL, token.SHR:
		a := t.expr(x.X)
		b := t.expr(x.Y)
		var cnt string
		switch {
		case b.ty == tUntyped:
			if constant.Sign(b.cst) < 0 || !constFits(b.cst, tInt) {
				return t.failV(x.Y, "shift count %s", b.cst.String())
			}
			cnt = b.cst.ExactString()
		case isUnsigned(b.ty):
			cnt = b.code + ".toNat"
		case b.ty == tInt && intMode:
			// a negative count panics: the shift is a partial operation, bound in shiftApply
		case b.ty == tInt:
			cnt = b.code // a negative count panics in Go; the ints of the Nat flavour are not negative
		default:
			return t.failV(x.Y, "shift count of type %s", b.ty)
		}
		if a.ty == tUntyped && b.ty != tUntyped {
			if a.shift != nil {
				return t.failV(x, "nested shifts of an untyped constant")
			}
			return val{code: a.cst.ExactString(), ty: tUntyped, cst: a.cst, shift: &shiftInfo{op: x.Op, cnt: b}}
		}
		if b.ty == tInt && intMode {
			return t.shiftApply(x, a, x.Op, b)
		}
		if a.ty == tUntyped {
			if a.shift != nil {
				return t.failV(x, "nested shifts of an untyped constant")
			}
			if b.ty != tUntyped {
				return t.failV(x, "untyped constant shifted by a variable count")
			}
			n, _ := constant.Uint64Val(b.cst)
			if n > 64 {
				return t.failV(x, "constant shift by %d", n)
			}
			c := constant.Shift(a.cst, x.Op, uint(n))
			return val{code: c.ExactString(), ty: tUntyped, cst: c}
		}
		if isUnsigned(a.ty) {
			f := "Go.shl"
			if x.Op == token.SHR {
				f = "Go.shr"
			}
			return val{code: fmt.Sprintf("(%s%d %s %s)", f, width(a.ty), a.code, cnt), ty: a.ty}
		}
		if a.ty == tInt && intMode {
			return t.failV(x, "shift of a signed int")
		}
		if a.ty == tInt {
			op := "<<<"
			if x.Op == token.SHR {
				op = ">>>"
			}
			return val{code: "(" + a.code + " " + op + " " + cnt + ")", ty: tInt}
		}
		return t.failV(x, "shift of %s", a.ty)
	case token.ADD, token.SUB, token.MUL, token.QUO, token.REM, token.AND, token.OR, token.XOR, token.AND_NOT:
		a := t.expr(x.X)
		b := t.expr(x.Y)
		if a.ty == tString && b.ty == tString && x.Op == token.ADD {
			return val{code: "(" + a.code + " ++ " + b.code + ")", ty: tString}
		}
		if a.ty == tUntyped && b.ty == tUntyped && (a.shift != nil || b.shift != nil) {
			return t.failV(x, "untyped constant shifted by a variable count, combined with another untyped constant")
		}
		if a.ty == tUntyped && b.ty == tUntyped {
			if (x.Op == token.QUO || x.Op == token.REM) && constant.Sign(b.cst) == 0 {
				return t.failV(x, "constant division by zero")
			}
			op := x.Op
			if op == token.QUO {
				op = token.QUO_ASSIGN // integer division of constants
			}
			c := constant.BinaryOp(a.cst, op, b.cst)
			return val{code: c.ExactString(), ty: tUntyped, cst: c}
		}
		ac, bc, ty := t.unify(x, a, b)
		if ty == tBad {
			return val{code: ac, ty: tBad}
		}
		if !isInteger(ty) {
			return t.failV(x, "%s on %s", x.Op, ty)
		}
		var op string
		switch x.Op {
		case token.ADD:
			op = "+"
		case token.MUL:
			op = "*"
		case token.SUB:
			if ty == tInt && !intMode {
				return t.failV(x, "subtraction on int (int is translated to Nat)")
			}
			op = "-"
		case token.QUO, token.REM:
			// a zero divisor panics: accept constant divisors only, or bind the checked int operation
			op = "/"
			if x.Op == token.REM {
				op = "%"
			}
			if !(b.ty == tUntyped && constant.Sign(b.cst) != 0) {
				if ty != tInt {
					return t.failV(x, "%s by a non-constant divisor on %s", x.Op, ty)
				}
				f := "Go.divInt" + iSuffix() + " "
				if x.Op == token.REM {
					f = "Go.modInt" + iSuffix() + " "
				}
				return val{code: t.bind(f + ac + " " + bc), ty: tInt}
			}
			if ty == tInt && intMode {
				// Go truncates toward zero
				f := "Int.tdiv"
				if x.Op == token.REM {
					f = "Int.tmod"
				}
				return val{code: "(" + f + " " + ac + " " + bc + ")", ty: tInt}
			}
		case token.AND, token.OR, token.XOR:
			if ty == tInt && intMode {
				return t.failV(x, "bitwise %s on a signed int", x.Op)
			}
			op = map[token.Token]string{token.AND: "&&&", token.OR: "|||", token.XOR: "^^^"}[x.Op]
		case token.AND_NOT:
			if ty == tInt {
				return t.failV(x, "&^ on int")
			}
			return val{code: "(" + ac + " &&& ~~~" + bc + ")", ty: ty}
		}
		return val{code: "(" + ac + " " + op + " " + bc + ")", ty: ty}
	}
	return t.failV(x, "binary operator %s", x.Op)
}

// shiftApply: `a << b` / `a >> b` for a typed left operand
func (t *tr) shiftApply(n ast.Node, a val, op token.Token, b val) val {
	f := "Go.shl"
	if op == token.SHR {
		f = "Go.shr"
	}
	if !isUnsigned(a.ty) {
		return t.failV(n, "shift of %s by a variable count", a.ty)
	}
	switch {
	case isUnsigned(b.ty):
		return val{code: fmt.Sprintf("(%s%d %s %s.toNat)", f, width(a.ty), a.code, b.code), ty: a.ty}
	case b.ty == tInt && intMode:
		// a negative count panics
		return val{code: t.bind(fmt.Sprintf("%s%dI %s %s", f, width(a.ty), a.code, b.code)), ty: a.ty}
	case b.ty == tInt:
		return val{code: fmt.Sprintf("(%s%d %s %s)", f, width(a.ty), a.code, b.code), ty: a.ty}
	}
	return t.failV(n, "shift count of type %s", b.ty)
}

// convert: uintN(x), int(x)
func (t *tr) convert(n ast.Node, to gty, v val) val {
	switch {
	case v.ty == tBad:
		return val{code: v.code, ty: to}
	case v.ty == tUntyped:
		return val{code: t.as(n, v, to), ty: to}
	case v.ty == to:
		return v
	case isUnsigned(v.ty) && isUnsigned(to):
		return val{code: "(" + leanTy(to) + ".ofNat " + v.code + ".toNat)", ty: to}
	case isUnsigned(v.ty) && to == tInt:
		// uint64 -> int could go negative; narrower ones cannot
		if width(v.ty) == 64 {
			return t.failV(n, "int(%s) may be negative", v.ty)
		}
		if intMode {
			return val{code: "(" + v.code + ".toNat : Int)", ty: tInt}
		}
		return val{code: v.code + ".toNat", ty: tInt}
	case v.ty == tInt && isUnsigned(to):
		if intMode {
			return val{code: fmt.Sprintf("(Go.u%dOfInt %s)", width(to), v.code), ty: to} // translate5.go: wraps (two's complement)
		}
		return val{code: "(" + leanTy(to) + ".ofNat " + v.code + ")", ty: to}
	}
	return t.failV(n, "conversion %s(%s)", to, v.ty)
}

// the verbs of fmt.Sprintf the subset knows
func (t *tr) sprintf(x *ast.CallExpr) val {
	if len(x.Args) < 1 {
		return t.failV(x, "Sprintf without format")
	}
	lit, ok := x.Args[0].(*ast.BasicLit)
	if !ok || lit.Kind != token.STRING {
		return t.failV(x, "Sprintf with a non-literal format")
	}
	f, err := strconv.Unquote(lit.Value)
	if err != nil {
		return t.failV(x, "Sprintf format %s", lit.Value)
	}
	args := x.Args[1:]
	var parts []string
	lit0 := ""
	flushLit := func() {
		if lit0 != "" {
			parts = append(parts, leanStr(lit0))
			lit0 = ""
		}
	}
	for i := 0; i < len(f); {
		if f[i] != '%' {
			lit0 += string(f[i])
			i++
			continue
		}
		rest := f[i:]
		var verb string
		switch {
		case strings.HasPrefix(rest, "%%"):
			lit0 += "%"
			i += 2
			continue
		case strings.HasPrefix(rest, "%d"):
			verb = "%d"
		case strings.HasPrefix(rest, "%.4x"):
			verb = "%.4x"
		case strings.HasPrefix(rest, "%s"):
			verb = "%s"
		default:
			return t.failV(x, "Sprintf verb in %q", f)
		}
		i += len(verb)
		if len(args) == 0 {
			return t.failV(x, "Sprintf: missing argument for %s", verb)
		}
		a := t.expr(args[0])
		args = args[1:]
		flushLit()
		switch verb {
		case "%d":
			if !isUnsigned(a.ty) {
				return t.failV(x, "%%d of %s", a.ty)
			}
			parts = append(parts, "Go.fmtD "+a.code+".toNat")
		case "%.4x":
			if a.ty != tU16 && a.ty != tU8 {
				return t.failV(x, "%%.4x of %s (more than four digits possible)", a.ty)
			}
			parts = append(parts, "Go.fmtX4 "+a.code+".toNat")
		case "%s":
			if a.ty != tString {
				return t.failV(x, "%%s of %s", a.ty)
			}
			parts = append(parts, a.code)
		}
	}
	flushLit()
	if len(args) != 0 {
		return t.failV(x, "Sprintf: extra arguments")
	}
	if len(parts) == 0 {
		return val{code: "\"\"", ty: tString}
	}
	return val{code: "(" + strings.Join(parts, " ++ ") + ")", ty: tString}
}

func (t *tr) call(x *ast.CallExpr) val {
	if v, ok := t.call5(x); ok { // translate5.go: payload.Next, bytes.NewBuffer, binary.Size, errors.Is / Join
		return v
	}
	fn := exprString(x.Fun)
	if ut, ok := localNamed[fn]; ok && len(x.Args) == 1 {
		// IPAddress(x): a named integer type of the package, same values as its underlying type
		return t.convert(x, ut, t.expr(x.Args[0]))
	}
	if se, ok := x.Fun.(*ast.SelectorExpr); ok && se.Sel.Name == "Len" && len(x.Args) == 0 {
		if id, ok := se.X.(*ast.Ident); ok {
			if ty, _ := t.lookup(id.Name); ty == tBuf && !intMode {
				return val{code: leanIdent(id.Name) + ".length", ty: tInt}
			} else if ty == tBuf {
				return val{code: "(" + leanIdent(id.Name) + ".length : Int)", ty: tInt} // translate5.go
			}
		}
	}
	if fn == "make" && len(x.Args) == 2 {
		if lt := goTypeOf(x.Args[0]); isStructList(lt) {
			n := t.as(x.Args[1], t.expr(x.Args[1]), tInt)
			return val{code: t.bind("Go.makeL" + iSuffix() + " " + n + " ({} : " + leanTy(elemOf(lt)) + ")"), ty: lt}
		}
	}
	switch fn {
	case "len":
		if len(x.Args) != 1 {
			return t.failV(x, "len arity")
		}
		t.noEscape++
		v := t.expr(x.Args[0])
		t.noEscape--
		if elemOf(v.ty) == tBad {
			return t.failV(x, "len of %s", v.ty)
		}
		if intMode {
			return val{code: "(" + v.code + ".length : Int)", ty: tInt}
		}
		return val{code: v.code + ".length", ty: tInt}
	case "make":
		if len(x.Args) == 2 && goTypeOf(x.Args[0]) == tLU32 && !intMode {
			n := t.as(x.Args[1], t.expr(x.Args[1]), tInt)
			return val{code: t.bind("Go.makeU32s " + n), ty: tLU32}
		}
		if len(x.Args) != 2 || goTypeOf(x.Args[0]) != tBytes {
			return t.failV(x, "make other than make([]byte, n) / make([]uint32, n)")
		}
		n := t.as(x.Args[1], t.expr(x.Args[1]), tInt)
		return val{code: t.bind("Go.makeBytes" + iSuffix() + " " + n), ty: tBytes}
	case "binary.LittleEndian.Uint16", "binary.LittleEndian.Uint32", "binary.LittleEndian.Uint64":
		if len(x.Args) != 1 {
			return t.failV(x, "%s arity", fn)
		}
		t.noEscape++
		a := t.as(x.Args[0], t.expr(x.Args[0]), tBytes)
		t.noEscape--
		w := strings.TrimPrefix(fn, "binary.LittleEndian.Uint")
		rt := map[string]gty{"16": tU16, "32": tU32, "64": tU64}[w]
		return val{code: t.bind("Go.leU" + w + " " + a), ty: rt}
	case "byte", "uint8", "uint16", "uint32", "uint64", "uint", "int":
		if len(x.Args) != 1 {
			return t.failV(x, "conversion arity")
		}
		return t.convert(x, goTypeOf(x.Fun), t.expr(x.Args[0]))
	case "binary.BigEndian.Uint16", "binary.BigEndian.Uint32", "binary.BigEndian.Uint64":
		if len(x.Args) != 1 {
			return t.failV(x, "%s arity", fn)
		}
		t.noEscape++
		a := t.as(x.Args[0], t.expr(x.Args[0]), tBytes)
		t.noEscape--
		w := strings.TrimPrefix(fn, "binary.BigEndian.Uint")
		rt := map[string]gty{"16": tU16, "32": tU32, "64": tU64}[w]
		return val{code: t.bind("Go.beU" + w + " " + a), ty: rt}
	case "append":
		if len(x.Args) < 2 {
			return t.failV(x, "append with fewer than two arguments")
		}
		base := t.expr(x.Args[0])
		el := elemOf(base.ty)
		if el == tBad {
			return t.failV(x, "append to %s", base.ty)
		}
		if x.Ellipsis != token.NoPos {
			if len(x.Args) != 2 {
				return t.failV(x, "append(a, b, c...)")
			}
			b := t.as(x.Args[1], t.expr(x.Args[1]), base.ty)
			return val{code: "(" + base.code + " ++ " + b + ")", ty: base.ty}
		}
		var items []string
		for _, a := range x.Args[1:] {
			items = append(items, t.as(a, t.expr(a), el))
		}
		return val{code: "(" + base.code + " ++ [" + strings.Join(items, ", ") + "])", ty: base.ty}
	case "fmt.Sprintf":
		return t.sprintf(x)
	case "fmt.Errorf":
		// any non-nil error; the message is not part of the model
		return val{code: "(some Err.bad : Go.Error)", ty: tError}
	}
	if se, ok := x.Fun.(*ast.SelectorExpr); ok {
		if id, ok := se.X.(*ast.Ident); ok {
			if ty, ok := t.lookup(id.Name); ok && ty == tPC && se.Sel.Name == "BaseLayer" && len(x.Args) == 0 {
				return val{code: "(Go.BaseLayer " + leanIdent(id.Name) + ")", ty: tBool}
			}
		}
	}
	// a translated function with one result (pure, but it may panic or run out of fuel: a bind)
	if id, ok := x.Fun.(*ast.Ident); ok {
		if sig, ok := translatedSigs[id.Name]; ok && sig.kind == "tuple" && len(sig.results) == 1 && len(sig.params) == len(x.Args) {
			name := leanIdent(id.Name)
			if sig.lean != "" {
				name = sig.lean
			}
			parts := []string{name}
			t.noEscape++
			for i, a := range x.Args {
				parts = append(parts, t.as(a, t.expr(a), sig.params[i]))
			}
			t.noEscape--
			return val{code: t.bind(strings.Join(parts, " ")), ty: sig.results[0]}
		}
	}
	return t.failV(x, "call of %s in an expression", fn)
}

// a call with two results: (Lean text, monadic?, result types)
func (t *tr) call2(x *ast.CallExpr) (string, bool, [2]gty, bool) {
	none := [2]gty{tBad, tBad}
	se, ok := x.Fun.(*ast.SelectorExpr)
	if !ok {
		t.fail(x, "two-valued call of %s", exprString(x.Fun))
		return "", false, none, false
	}
	// mapper.Map(df): the lookup in the configured mapping, a prelude external (panics on the nil interface)
	if id, ok := se.X.(*ast.Ident); ok {
		if ty, _ := t.lookup(id.Name); ty == tTMapper && se.Sel.Name == "Map" && len(x.Args) == 1 {
			a := t.expr(x.Args[0])
			if a.ty != gty("struct:DataField") {
				t.fail(x, "Map of %s", a.ty)
				return "", false, none, false
			}
			code := "Go.mapperMap " + leanIdent(id.Name) + " " + a.code + ".PenProvided " + a.code + ".Pen " + a.code + ".Type"
			return code, true, [2]gty{tMapField, tBool}, true
		}
	}
	// pc.Environment.NextParserXxx(…)
	if inner, ok := se.X.(*ast.SelectorExpr); ok {
		if id, ok := inner.X.(*ast.Ident); ok {
			ty, _ := t.lookup(id.Name)
			if ty == tPC && inner.Sel.Name == "Environment" {
				var want []gty
				switch se.Sel.Name {
				case "NextParserEtype":
					want = []gty{tBytes}
				case "NextParserProto":
					want = []gty{tU8}
				case "NextParserPort":
					want = []gty{tString, tU16, tU16}
				default:
					t.fail(x, "ParserEnvironment has no method %s", se.Sel.Name)
					return "", false, none, false
				}
				if len(x.Args) != len(want) {
					t.fail(x, "%s arity", se.Sel.Name)
					return "", false, none, false
				}
				parts := []string{"Go." + se.Sel.Name, leanIdent(id.Name)}
				for i, a := range x.Args {
					parts = append(parts, t.as(a, t.expr(a), want[i]))
				}
				return strings.Join(parts, " "), true, [2]gty{tPInfo, tError}, true
			}
			// e.customEtype.Load(k) on the receiver
			if ty == tEnv && se.Sel.Name == "Load" && len(x.Args) == 1 {
				var f string
				var kt gty
				switch inner.Sel.Name {
				case "customEtype":
					f, kt = "Go.customEtypeLoad", tU16
				case "customProto":
					f, kt = "Go.customProtoLoad", tU8
				default:
					t.fail(x, "sync.Map %s", inner.Sel.Name)
					return "", false, none, false
				}
				k := t.as(x.Args[0], t.expr(x.Args[0]), kt)
				return f + " " + k, false, [2]gty{tPInfo, tBool}, true
			}
		}
	}
	// e.innerNextParserXxx(…): another translated method of the receiver
	if id, ok := se.X.(*ast.Ident); ok {
		if ty, _ := t.lookup(id.Name); ty == tEnv {
			if sig, ok := translatedSigs[se.Sel.Name]; ok && len(sig.params) == len(x.Args) && len(sig.results) == 2 {
				parts := []string{leanIdent(se.Sel.Name)}
				for i, a := range x.Args {
					parts = append(parts, t.as(a, t.expr(a), sig.params[i]))
				}
				return strings.Join(parts, " "), true, [2]gty{sig.results[0], sig.results[1]}, true
			}
		}
	}
	t.fail(x, "two-valued call of %s", exprString(x.Fun))
	return "", false, none, false
}

type fnSig struct {
	params  []gty
	results []gty
	kind    string
	lean    string // Lean name when it is not the Go name (prelude externals)
	refs    []int  // indices of the pointer parameters of a "ptrs" function
	errVal  bool   // translate5.go: a state-passing function whose error is a value in the result (the caller inspects it)
}

var translatedSigs = map[string]fnSig{}

// ---------------------------------------------------------------------------
// statements
// ---------------------------------------------------------------------------

// assignTo: `lhs = v` (or `lhs := v`), v already translated
func (t *tr) assignTo(lhs ast.Expr, v val, define bool) []string {
	switch l := lhs.(type) {
	case *ast.Ident:
		if l.Name == "_" {
			return nil
		}
		if define {
			ty := v.ty
			if ty == tUntyped {
				ty = tInt
			}
			if _, ok := zeroOf(ty); !ok && ty != tBad && !isStruct(ty) && ty != tMapField {
				t.fail(l, "local variable of type %s", ty)
			}
			code := t.as(l, v, ty)
			t.declare(l, l.Name, ty)
			return []string{"let " + leanIdent(l.Name) + " : " + leanTy(ty) + " := " + code}
		}
		ty, ok := t.lookup(l.Name)
		if !ok {
			return []string{t.fail(l, "assignment to unknown %s", l.Name)}
		}
		return []string{"let " + leanIdent(l.Name) + " : " + leanTy(ty) + " := " + t.as(l, v, ty)}
	case *ast.SelectorExpr:
		id, ok := l.X.(*ast.Ident)
		if !ok || define {
			return []string{t.fail(l, "assignment target %s", exprString(l))}
		}
		bty, ok := t.lookup(id.Name)
		if !ok {
			return []string{t.fail(l, "assignment to field of unknown %s", id.Name)}
		}
		b := leanIdent(id.Name)
		upd := func(field, rhs string) []string {
			return []string{"let " + b + " : " + leanTy(bty) + " := { " + b + " with " + field + " := " + rhs + " }"}
		}
		if isStruct(bty) {
			for _, f := range structFields[bty] {
				if f.name == l.Sel.Name {
					return upd(leanIdent(f.name), t.as(l, v, f.ty))
				}
			}
			return []string{t.fail(l, "%s has no field %s", bty, l.Sel.Name)}
		}
		switch bty {
		case tMsg:
			kind, ok := t.msgKind[l.Sel.Name]
			if !ok {
				return []string{t.fail(l, "FlowMessage has no field %s", l.Sel.Name)}
			}
			f := lowerFirst(l.Sel.Name)
			switch kind {
			case "u32":
				return upd(f, "("+t.as(l, v, tU32)+" : UInt32).toNat")
			case "u64":
				return upd(f, "("+t.as(l, v, tU64)+" : UInt64).toNat")
			case "bytes":
				return upd(f, t.as(l, v, tBytes))
			case "listU32":
				return upd(f, "("+t.as(l, v, tLU32)+" : List UInt32).map UInt32.toNat")
			case "listBytes":
				return upd(f, t.as(l, v, tLBytes))
			}
		case tRes:
			switch l.Sel.Name {
			case "Size":
				return upd("Size", t.as(l, v, tInt))
			case "NextParser":
				return upd("NextParser", t.as(l, v, tPInfo))
			}
		case tPInfo:
			if l.Sel.Name == "ConfigKeyList" {
				return upd("keys", t.as(l, v, tLString))
			}
		}
		return []string{t.fail(l, "assignment to %s.%s", bty, l.Sel.Name)}
	case *ast.StarExpr:
		id, ok := l.X.(*ast.Ident)
		if !ok || define {
			return []string{t.fail(l, "assignment target %s", exprString(l))}
		}
		if t.refParams[id.Name] {
			ty, _ := t.lookup(id.Name)
			if v.ty == tBytes || v.ty == tLU32 {
				// *p = v hands v on
			}
			return []string{"let " + leanIdent(id.Name) + " : " + leanTy(ty) + " := " + t.as(l, v, ty)}
		}
		el, ok := t.ptrOf[id.Name]
		if !ok {
			return []string{t.fail(l, "store through %s, which is not a type-switch binding", id.Name)}
		}
		cell := t.ptrCell[id.Name]
		return []string{"let " + leanIdent(cell) + " : Go.Cell := Go.Cell.u" + strconv.Itoa(width(el)) + " " + t.as(l, v, el)}
	case *ast.IndexExpr:
		if define {
			return []string{t.fail(l, "assignment target %s", exprString(l))}
		}
		if se, ok := l.X.(*ast.SelectorExpr); ok {
			// s.F[i] = v on a slice-of-structs field of a struct variable (the struct owns the slice: it was made here)
			if id, ok := se.X.(*ast.Ident); ok {
				if bty, _ := t.lookup(id.Name); isStruct(bty) && !intMode {
					for _, f := range structFields[bty] {
						if f.name == se.Sel.Name && isStructList(f.ty) {
							b := leanIdent(id.Name)
							i := t.as(l.Index, t.expr(l.Index), tInt)
							r := t.bind("Go.setIdxL " + b + "." + leanIdent(f.name) + " " + i + " " + t.as(l, v, elemOf(f.ty)))
							out := t.flush()
							return append(out, "let "+b+" : "+leanTy(bty)+" := { "+b+" with "+leanIdent(f.name)+" := "+r+" }")
						}
					}
				}
			}
			// flowMessage.F[i] = v on a []uint32 column: the message owns its slices
			if id, ok := se.X.(*ast.Ident); ok {
				if bty, _ := t.lookup(id.Name); bty == tMsg && t.msgKind[se.Sel.Name] == "listU32" && !intMode {
					m := leanIdent(id.Name)
					f := lowerFirst(se.Sel.Name)
					i := t.as(l.Index, t.expr(l.Index), tInt)
					r := t.bind("Go.setIdxNat " + m + "." + f + " " + i + " (" + t.as(l, v, tU32) + " : UInt32).toNat")
					out := t.flush()
					t.fieldStores = true
					return append(out, "let "+m+" : FlowMsg := { "+m+" with "+f+" := "+r+" }")
				}
			}
		}
		return t.indexStore(l, v)
	}
	return []string{t.fail(lhs, "assignment target %T", lhs)}
}

// storable: the named variable is a []byte created by make() that nothing else refers to
func (t *tr) storable(n ast.Node, e ast.Expr) (string, bool) {
	id, ok := e.(*ast.Ident)
	if !ok {
		t.fail(n, "store into %s", exprString(e))
		return "", false
	}
	ty, _ := t.lookup(id.Name)
	if ty != tBytes && ty != tLU32 {
		t.fail(n, "store into %s of type %s", id.Name, ty)
		return "", false
	}
	t.event("store", id.Name, n.Pos())
	return id.Name, true
}

// x[i] = v on a local slice created by make
func (t *tr) indexStore(l *ast.IndexExpr, v val) []string {
	name, ok := t.storable(l, l.X)
	if !ok {
		return []string{"(extract_problem_untranslated)"}
	}
	i := t.as(l.Index, t.expr(l.Index), tInt)
	r := t.bind("Go.setIdx" + iSuffix() + " " + leanIdent(name) + " " + i + " " + t.as(l, v, tU8))
	out := t.flush()
	return append(out, "let "+leanIdent(name)+" : Bytes := "+r)
}

var opAssign = map[token.Token]token.Token{
	token.ADD_ASSIGN: token.ADD, token.SUB_ASSIGN: token.SUB, token.MUL_ASSIGN: token.MUL, token.QUO_ASSIGN: token.QUO,
	token.REM_ASSIGN: token.REM, token.AND_ASSIGN: token.AND, token.OR_ASSIGN: token.OR, token.XOR_ASSIGN: token.XOR,
	token.SHL_ASSIGN: token.SHL, token.SHR_ASSIGN: token.SHR, token.AND_NOT_ASSIGN: token.AND_NOT,
}

// simple statements: lines that bind and fall through
func (t *tr) simple(s ast.Stmt) []string {
	var out []string
	switch x := s.(type) {
	case *ast.EmptyStmt:
		return nil
	case *ast.AssignStmt:
		if op, ok := opAssign[x.Tok]; ok {
			if len(x.Lhs) != 1 || len(x.Rhs) != 1 {
				return []string{t.fail(x, "compound assignment arity")}
			}
			v := t.expr(&ast.BinaryExpr{X: x.Lhs[0], Op: op, Y: x.Rhs[0], OpPos: x.TokPos})
			out = append(out, t.flush()...)
			return append(out, t.assignTo(x.Lhs[0], v, false)...)
		}
		if x.Tok != token.ASSIGN && x.Tok != token.DEFINE {
			return []string{t.fail(x, "assignment operator %s", x.Tok)}
		}
		define := x.Tok == token.DEFINE
		if ta, ok := x.Rhs[0].(*ast.TypeAssertExpr); ok && len(x.Lhs) == 2 && len(x.Rhs) == 1 {
			// v, ok := x.([]byte): the zero value and false when the dynamic type is something else
			src := t.expr(ta.X)
			if ta.Type == nil || goTypeOf(ta.Type) != tBytes || src.ty != tAny {
				return []string{t.fail(x, "comma-ok assertion %s", exprString(ta))}
			}
			out = append(out, t.flush()...)
			r := t.fresh()
			out = append(out, "let "+r+" : Go.Any := "+src.code)
			out = append(out, t.assignTo(x.Lhs[0], val{code: "(Go.anyBytes " + r + ")", ty: tBytes}, define)...)
			out = append(out, t.assignTo(x.Lhs[1], val{code: "(Go.anyIsBytes " + r + ")", ty: tBool}, define)...)
			if id, ok := x.Lhs[0].(*ast.Ident); ok && id.Name != "_" {
				t.event("assign", id.Name, x.Pos())
			}
			return out
		}
		if len(x.Lhs) == 2 && len(x.Rhs) == 1 {
			ce, ok := x.Rhs[0].(*ast.CallExpr)
			if !ok {
				return []string{t.fail(x, "two-valued right-hand side %s", exprString(x.Rhs[0]))}
			}
			code, monadic, tys, ok := t.call2(ce)
			if !ok {
				return []string{"(extract_problem_untranslated)"}
			}
			out = append(out, t.flush()...)
			var r string
			if monadic {
				r = t.bind(code)
				out = append(out, t.flush()...)
			} else {
				r = t.fresh()
				out = append(out, "let "+r+" := "+code)
			}
			out = append(out, t.assignTo(x.Lhs[0], val{code: r + ".1", ty: tys[0]}, define)...)
			out = append(out, t.assignTo(x.Lhs[1], val{code: r + ".2", ty: tys[1]}, define)...)
			return out
		}
		if len(x.Lhs) != len(x.Rhs) {
			return []string{t.fail(x, "assignment arity %d = %d", len(x.Lhs), len(x.Rhs))}
		}
		if len(x.Lhs) > 1 {
			// parallel assignment evaluates every right-hand side first: refuse rather than sequentialise
			return []string{t.fail(x, "parallel assignment")}
		}
		v := t.expr(x.Rhs[0])
		out = append(out, t.flush()...)
		out = append(out, t.assignTo(x.Lhs[0], v, define)...)
		if rid, ok := x.Rhs[0].(*ast.Ident); ok && v.ty == tLU32 { // stores through a column exist for []uint32 columns only
			if se, ok := x.Lhs[0].(*ast.SelectorExpr); ok {
				if bid, ok := se.X.(*ast.Ident); ok {
					if bty, _ := t.lookup(bid.Name); bty == tMsg {
						// the message column and the local now share the slice
						t.event("fieldEscape", rid.Name, x.End())
					}
				}
			}
		}
		if id, ok := x.Lhs[0].(*ast.Ident); ok {
			if ty, _ := t.lookup(id.Name); ty == tBytes || ty == tLU32 {
				if ce, ok := x.Rhs[0].(*ast.CallExpr); ok && exprString(ce.Fun) == "make" {
					t.event("make", id.Name, x.Pos())
				} else {
					t.event("assign", id.Name, x.Pos())
				}
			}
		}
		return out
	case *ast.DeclStmt:
		gd, ok := x.Decl.(*ast.GenDecl)
		if !ok || gd.Tok != token.VAR {
			return []string{t.fail(x, "declaration")}
		}
		for _, sp := range gd.Specs {
			vs := sp.(*ast.ValueSpec)
			if vs.Type == nil || len(vs.Values) != 0 {
				out = append(out, t.fail(vs, "var with initialiser or without type"))
				continue
			}
			ty := goTypeOf(vs.Type)
			z, ok := zeroOf(ty)
			if !ok {
				out = append(out, t.fail(vs, "var of type %s", exprString(vs.Type)))
				continue
			}
			for _, nm := range vs.Names {
				t.declare(nm, nm.Name, ty)
				out = append(out, "let "+leanIdent(nm.Name)+" : "+leanTy(ty)+" := "+z)
			}
		}
		return out
	case *ast.IncDecStmt:
		op := token.ADD
		if x.Tok == token.DEC {
			op = token.SUB
		}
		v := t.expr(&ast.BinaryExpr{X: x.X, Op: op, Y: &ast.BasicLit{Kind: token.INT, Value: "1", ValuePos: x.TokPos}, OpPos: x.TokPos})
		out = append(out, t.flush()...)
		return append(out, t.assignTo(x.X, v, false)...)
	case *ast.ExprStmt:
		if ce, ok := x.X.(*ast.CallExpr); ok {
			if se, ok := ce.Fun.(*ast.SelectorExpr); ok && se.Sel.Name == "AddLayer" && len(ce.Args) == 1 {
				if id, ok := se.X.(*ast.Ident); ok {
					if ty, _ := t.lookup(id.Name); ty == tMsg {
						a := t.as(ce.Args[0], t.expr(ce.Args[0]), tString)
						out = append(out, t.flush()...)
						m := leanIdent(id.Name)
						return append(out, "let "+m+" : FlowMsg := Go.AddLayer "+m+" "+a)
					}
				}
			}
		}
		if ce, ok := x.X.(*ast.CallExpr); ok {
			fn := exprString(ce.Fun)
			switch fn {
			case "copy":
				if len(ce.Args) != 2 {
					return []string{t.fail(x, "copy arity")}
				}
				dst, ok := t.storable(x, ce.Args[0])
				if !ok {
					return []string{"(extract_problem_untranslated)"}
				}
				dty, _ := t.lookup(dst)
				t.noEscape++
				src := t.as(ce.Args[1], t.expr(ce.Args[1]), dty)
				t.noEscape--
				out = append(out, t.flush()...)
				if dty == tLU32 {
					return append(out, "let "+leanIdent(dst)+" : List UInt32 := Go.copyList "+leanIdent(dst)+" "+src)
				}
				return append(out, "let "+leanIdent(dst)+" : Bytes := Go.copyBytes "+leanIdent(dst)+" "+src)
			case "binary.BigEndian.PutUint16", "binary.BigEndian.PutUint32", "binary.BigEndian.PutUint64":
				if len(ce.Args) != 2 {
					return []string{t.fail(x, "%s arity", fn)}
				}
				dst, ok := t.storable(x, ce.Args[0])
				if !ok {
					return []string{"(extract_problem_untranslated)"}
				}
				w := strings.TrimPrefix(fn, "binary.BigEndian.PutUint")
				vt := map[string]gty{"16": tU16, "32": tU32, "64": tU64}[w]
				a := t.as(ce.Args[1], t.expr(ce.Args[1]), vt)
				r := t.bind("Go.putU" + w + " " + leanIdent(dst) + " " + a)
				out = append(out, t.flush()...)
				return append(out, "let "+leanIdent(dst)+" : Bytes := "+r)
			}
		}
		if ce, ok := x.X.(*ast.CallExpr); ok {
			// a translated procedure writing through its pointer arguments
			if id, ok := ce.Fun.(*ast.Ident); ok {
				if sig, ok := translatedSigs[id.Name]; ok && sig.kind == "ptrs" {
					lines, _ := t.effectCall(ce)
					return lines
				}
			}
		}
		return []string{t.fail(x, "expression statement %s", exprString(x.X))}
	}
	return []string{t.fail(s, "statement %T", s)}
}

// does control never fall off the end of this list?
func terminates(list []ast.Stmt) bool {
	if len(list) == 0 {
		return false
	}
	switch x := list[len(list)-1].(type) {
	case *ast.ReturnStmt:
		return true
	case *ast.BranchStmt:
		return x.Tok == token.BREAK || x.Tok == token.CONTINUE
	case *ast.BlockStmt:
		return terminates(x.List)
	case *ast.IfStmt:
		if x.Else == nil {
			return false
		}
		return terminates(x.Body.List) && terminates([]ast.Stmt{x.Else})
	}
	return false
}

// names of variables (of the environment `in`) written / read below a node
func baseName(e ast.Expr) string {
	switch x := e.(type) {
	case *ast.Ident:
		return x.Name
	case *ast.SelectorExpr:
		return baseName(x.X)
	case *ast.IndexExpr:
		return baseName(x.X)
	case *ast.ParenExpr:
		return baseName(x.X)
	case *ast.StarExpr:
		return baseName(x.X)
	}
	return ""
}

// the pointer-typed parameters of the function being translated (its message, its destination cell)
var pointerVars = map[string]bool{}

func assignedNames(nodes []ast.Node) map[string]bool {
	out := map[string]bool{}
	for _, n := range nodes {
		if n == nil {
			continue
		}
		ast.Inspect(n, func(n ast.Node) bool {
			switch x := n.(type) {
			case *ast.AssignStmt:
				for _, l := range x.Lhs {
					out[baseName(l)] = true
				}
			case *ast.UnaryExpr:
				// &x handed to a call: the callee may write x
				if x.Op == token.AND {
					out[baseName(x.X)] = true
				}
			case *ast.CallExpr:
				// payload.Next(n) advances the buffer, templates.AddTemplate(…) changes the store (translate5.go)
				if se, ok := x.Fun.(*ast.SelectorExpr); ok && se.Sel.Name != "Len" {
					if id, ok := se.X.(*ast.Ident); ok && pointerVars[id.Name] {
						out[id.Name] = true
					}
				}
				// the message / the destination cell handed to a call: the callee may write through the pointer
				for _, a := range x.Args {
					if id, ok := a.(*ast.Ident); ok && (pointerVars[id.Name] || exprString(x.Fun) == "utils.BinaryDecoder") {
						// BinaryDecoder fills the slices it is given
						out[id.Name] = true
					}
				}
			case *ast.IncDecStmt:
				out[baseName(x.X)] = true
			case *ast.ExprStmt:
				// a method call on a pointer may write through it
				if ce, ok := x.X.(*ast.CallExpr); ok {
					if se, ok := ce.Fun.(*ast.SelectorExpr); ok {
						out[baseName(se.X)] = true
					}
					// copy(dst, …), binary.BigEndian.PutUintNN(dst, …) write into their first argument
					if len(ce.Args) > 0 {
						out[baseName(ce.Args[0])] = true
					}
				}
			case *ast.TypeSwitchStmt:
				// `*t = …` in an arm writes the cell the switch inspects
				switch a := x.Assign.(type) {
				case *ast.AssignStmt:
					if ta, ok := a.Rhs[0].(*ast.TypeAssertExpr); ok {
						out[baseName(ta.X)] = true
					}
				case *ast.ExprStmt:
					if ta, ok := a.X.(*ast.TypeAssertExpr); ok {
						out[baseName(ta.X)] = true
					}
				}
			case *ast.RangeStmt:
				out[baseName(x.Key)] = true
				if x.Value != nil {
					out[baseName(x.Value)] = true
				}
			}
			return true
		})
	}
	return out
}

func usedNames(nodes []ast.Node) map[string]bool {
	out := map[string]bool{}
	var visit func(n ast.Node) bool
	visit = func(n ast.Node) bool {
		switch x := n.(type) {
		case *ast.SelectorExpr:
			ast.Inspect(x.X, visit)
			return false
		case *ast.KeyValueExpr:
			ast.Inspect(x.Value, visit)
			return false
		case *ast.Ident:
			out[x.Name] = true
		}
		return true
	}
	for _, n := range nodes {
		if n != nil {
			ast.Inspect(n, visit)
		}
	}
	return out
}

func (t *tr) tupleOf(vars []varInfo) (ty string, value string) {
	if len(vars) == 0 {
		return "Unit", "()"
	}
	var tys, vs []string
	for _, v := range vars {
		tys = append(tys, leanTy(v.ty))
		vs = append(vs, leanIdent(v.name))
	}
	return strings.Join(tys, " × "), "(" + strings.Join(vs, ", ") + ")"
}

// projections .1, .2.1, .2.2.1, …, .2.2.2 of a right-nested tuple of n components
func proj(i, n int) string {
	if n == 1 {
		return ""
	}
	s := strings.Repeat(".2", i)
	if i < n-1 {
		s += ".1"
	}
	return s
}

// block translates a statement list; the result is a Lean term spread over lines
func (t *tr) block(list []ast.Stmt, k konts) []string {
	mark := len(t.env)
	defer func() { t.env = t.env[:mark] }()
	var out []string
	for i, s := range list {
		rest := list[i+1:]
		if t.skip5 > 0 { // translate5.go: the statement was consumed together with the one before it
			t.skip5--
			continue
		}
		if lines, ok := t.stmt5(list, i); ok { // translate5.go: statement forms of the wire decoders
			out = append(out, lines...)
			continue
		}
		switch x := s.(type) {
		case *ast.ReturnStmt:
			if len(rest) != 0 {
				out = append(out, t.fail(rest[0], "statement after return"))
			}
			return append(out, t.ret(x)...)
		case *ast.BranchStmt:
			if x.Label != nil {
				return append(out, t.fail(x, "labelled %s", x.Tok))
			}
			if len(rest) != 0 {
				out = append(out, t.fail(rest[0], "statement after %s", x.Tok))
			}
			switch {
			case x.Tok == token.BREAK && k.brk != nil:
				return append(out, k.brk...)
			case x.Tok == token.CONTINUE && k.cont != nil:
				return append(out, k.cont...)
			}
			return append(out, t.fail(x, "%s here", x.Tok))
		case *ast.BlockStmt:
			// a nested block: its declarations are local, so it is an `if true`
			return append(out, t.ifStmt(&ast.IfStmt{If: x.Lbrace, Cond: ast.NewIdent("true"), Body: x}, rest, k)...)
		case *ast.IfStmt:
			return append(out, t.ifStmt(x, rest, k)...)
		case *ast.SwitchStmt:
			ifs, ok := t.switchToIf(x)
			if !ok {
				return append(out, "(extract_problem_untranslated)")
			}
			k2 := k
			k2.brk = nil // `break` inside a switch leaves the switch, not the loop: refused
			if ifs == nil {
				continue
			}
			return append(out, t.ifStmt(ifs, rest, k2)...)
		case *ast.TypeSwitchStmt:
			return append(out, t.typeSwitch(x, rest, k)...)
		case *ast.ForStmt:
			if t.outline || containsReturn(x.Body.List) {
				out = append(out, t.forStmtCtl(x, "")...)
			} else {
				out = append(out, t.forStmt(x, "")...)
			}
		case *ast.RangeStmt:
			out = append(out, t.rangeStmt(x)...)
		default:
			out = append(out, t.simple(s)...)
		}
	}
	if k.fall == nil {
		return append(out, t.fail(nil, "control reaches the end of the function"))
	}
	return append(out, k.fall...)
}

func (t *tr) ret(x *ast.ReturnStmt) []string {
	if t.inLoop > 0 {
		if t.ctlLoop {
			return t.retCtl(x)
		}
		return []string{t.fail(x, "return inside a loop")}
	}
	var out []string
	var vals []string
	switch t.retKind {
	case "st":
		return t.retSt(x)
	case "msgerr":
		if len(x.Results) != 1 {
			return []string{t.fail(x, "return arity")}
		}
		if exprString(x.Results[0]) == "nil" {
			return []string{".ok " + leanIdent(t.msgVar)}
		}
		e := t.as(x.Results[0], t.expr(x.Results[0]), tError)
		out = append(out, t.flush()...)
		return append(out, "Go.retMsg "+leanIdent(t.msgVar)+" "+e)
	case "ptrs":
		if len(x.Results) != 0 {
			return []string{t.fail(x, "return arity")}
		}
		return t.ptrsResult()
	case "msg":
		if len(x.Results) != 0 {
			return []string{t.fail(x, "return arity")}
		}
		return []string{".ok " + leanIdent(t.msgVar)}
	case "cell":
		if len(x.Results) != 1 {
			return []string{t.fail(x, "return arity")}
		}
		// `return f(…, out)`: a translated function over the same cell
		if ce, ok := x.Results[0].(*ast.CallExpr); ok {
			if id, ok := ce.Fun.(*ast.Ident); ok {
				if sig, ok := translatedSigs[id.Name]; ok && sig.kind == "cell" && len(sig.params) == len(ce.Args) {
					parts := []string{leanIdent(id.Name)}
					for i, a := range ce.Args {
						if sig.params[i] == tCell {
							if ai, ok := a.(*ast.Ident); !ok || ai.Name != t.cellVar {
								return []string{t.fail(a, "cell argument other than the function's own")}
							}
						}
						parts = append(parts, t.as(a, t.expr(a), sig.params[i]))
					}
					out = append(out, t.flush()...)
					return append(out, strings.Join(parts, " "))
				}
			}
		}
		e := t.as(x.Results[0], t.expr(x.Results[0]), tError)
		out = append(out, t.flush()...)
		return append(out, "Go.retCell "+leanIdent(t.cellVar)+" "+e)
	}
	if len(x.Results) == 0 {
		if t.retVars == nil {
			return []string{t.fail(x, "bare return without named results")}
		}
		for _, v := range t.retVars {
			vals = append(vals, leanIdent(v))
		}
	} else {
		if len(x.Results) != len(t.retTys) {
			return []string{t.fail(x, "return arity")}
		}
		t.noEscape++ // the function ends here: no later store of this function can be seen through the result
		for i, r := range x.Results {
			vals = append(vals, t.as(r, t.expr(r), t.retTys[i]))
		}
		t.noEscape--
		out = append(out, t.flush()...)
	}
	if t.retKind == "parser" {
		return append(out, "Go.ret flowMessage "+strings.Join(vals, " "))
	}
	return append(out, ".ok ("+strings.Join(vals, ", ")+")")
}

// if / else if / else, followed by `rest`
func (t *tr) ifStmt(x *ast.IfStmt, rest []ast.Stmt, k konts) []string {
	mark := len(t.env)
	defer func() { t.env = t.env[:mark] }()
	var out []string
	if lines, ok := t.if5(x, rest, k); ok { // translate5.go: checked calls in a function whose error is a value
		return lines
	}
	if ce, cls, ok := tryPattern(x); ok && t.retKind == "st" {
		lines, _ := t.effectCallSt(ce, cls)
		out = append(out, lines...)
		return append(out, t.block(rest, k)...)
	}
	if ce, ok := isTry(x); ok && (t.retKind == "msgerr" || t.retKind == "cell") {
		// if err := f(…); err != nil { return err }: the error of f is the error of this function
		lines, _ := t.effectCall(ce)
		out = append(out, lines...)
		return append(out, t.block(rest, k)...)
	}
	if x.Init != nil {
		out = append(out, t.simple(x.Init)...)
	}
	c := t.expr(x.Cond)
	if c.ty != tBool && c.ty != tBad {
		c = t.failV(x.Cond, "condition of type %s", c.ty)
	}
	out = append(out, t.flush()...)

	var elseList []ast.Stmt
	switch e := x.Else.(type) {
	case nil:
	case *ast.BlockStmt:
		elseList = e.List
	case *ast.IfStmt:
		elseList = []ast.Stmt{e}
	default:
		return append(out, t.fail(x.Else, "else %T", x.Else))
	}

	thenTerm := terminates(x.Body.List)
	elseTerm := x.Else != nil && terminates(elseList)

	emit := func(thenK, elseK konts, elseBody []ast.Stmt) {
		out = append(out, "if "+c.code+" then")
		t.depth++
		thenLines := t.block(x.Body.List, thenK)
		if name, ok := t.caseBlocks[x.Body]; ok && len(rest) == 0 {
			thenLines = t.outlineDef(name, mark, thenLines)
		}
		out = append(out, indent(thenLines, "  ")...)
		t.depth--
		out = append(out, "else")
		// the statements after an `if … { return }` are not nested, a real else branch is
		nested := x.Else != nil
		if nested {
			t.depth++
		}
		out = append(out, indent(t.block(elseBody, elseK), "  ")...)
		if nested {
			t.depth--
		}
	}

	switch {
	case len(rest) == 0:
		emit(k, k, elseList)
	case thenTerm && x.Else == nil:
		// `if c { …; return }` followed by the rest: the rest is the else branch
		emit(k, k, rest)
	case thenTerm && elseTerm:
		out = append(out, t.fail(rest[0], "statement after an if whose branches both leave"))
		emit(k, k, elseList)
	default:
		// join point: the rest is a local function of the variables either branch may write
		asg := assignedNames([]ast.Node{x.Body, x.Else})
		var vars []varInfo
		for _, v := range t.env[:mark] {
			if asg[v.name] {
				vars = append(vars, v)
			}
		}
		t.joins++
		kn := fmt.Sprintf("k_%d", t.joins)
		var params, args []string
		for _, v := range vars {
			params = append(params, "("+leanIdent(v.name)+" : "+leanTy(v.ty)+")")
			args = append(args, leanIdent(v.name))
		}
		if len(vars) == 0 {
			params = []string{"(_ : Unit)"}
			args = []string{"()"}
		}
		saved := t.env
		t.env = append([]varInfo{}, t.env[:mark]...) // variables of the init statement are not visible after the if
		restLines := t.block(rest, k)
		t.env = saved
		out = append(out, "let "+kn+" := fun "+strings.Join(params, " ")+" =>")
		out = append(out, indent(restLines, "  ")...)
		jump := konts{fall: []string{kn + " " + strings.Join(args, " ")}, brk: k.brk, cont: k.cont}
		emit(jump, jump, elseList)
	}
	return out
}

// switch { case c: … } and switch tag { case v: … } as an if-chain; no fallthrough, no break
func (t *tr) switchToIf(x *ast.SwitchStmt) (*ast.IfStmt, bool) {
	if x.Init != nil {
		t.fail(x, "switch with init statement")
		return nil, false
	}
	if x.Tag != nil {
		ok := false
		switch tg := x.Tag.(type) {
		case *ast.Ident:
			ok = true
		case *ast.SelectorExpr:
			_, ok = tg.X.(*ast.Ident) // a field of a variable: evaluating it again for every case changes nothing
		}
		if !ok {
			t.fail(x, "switch on a tag that is neither a variable nor a field")
			return nil, false
		}
	}
	var deflt *ast.CaseClause
	var cases []*ast.CaseClause
	for _, c := range x.Body.List {
		cc := c.(*ast.CaseClause)
		for _, s := range cc.Body {
			if b, ok := s.(*ast.BranchStmt); ok && b.Tok == token.FALLTHROUGH {
				t.fail(b, "fallthrough")
				return nil, false
			}
		}
		if cc.List == nil {
			deflt = cc
		} else {
			cases = append(cases, cc)
		}
	}
	var tail ast.Stmt
	if deflt != nil {
		tail = &ast.BlockStmt{Lbrace: deflt.Pos(), List: deflt.Body}
	}
	for i := len(cases) - 1; i >= 0; i-- {
		cc := cases[i]
		var cond ast.Expr
		for _, e := range cc.List {
			var one ast.Expr = e
			if x.Tag != nil {
				one = &ast.BinaryExpr{X: x.Tag, Op: token.EQL, Y: e, OpPos: e.Pos()}
			}
			if cond == nil {
				cond = one
			} else {
				cond = &ast.BinaryExpr{X: cond, Op: token.LOR, Y: one, OpPos: e.Pos()}
			}
		}
		body := &ast.BlockStmt{Lbrace: cc.Pos(), List: cc.Body}
		if t.outline && t.caseBlocks != nil {
			// the body of a case becomes a definition of its own, named after the (first) case value
			name := "case"
			for _, e := range cc.List {
				v := t.expr(e)
				if v.ty == tUntyped && v.cst != nil {
					name += "_" + v.cst.ExactString()
				} else {
					name += "_x"
				}
				t.pre = nil
			}
			t.caseBlocks[body] = name
		}
		tail = &ast.IfStmt{If: cc.Pos(), Cond: cond, Body: body, Else: tail}
	}
	if tail == nil {
		return nil, true
	}
	if b, ok := tail.(*ast.BlockStmt); ok {
		return &ast.IfStmt{If: b.Pos(), Cond: ast.NewIdent("true"), Body: b}, true
	}
	return tail.(*ast.IfStmt), true
}

// switch t := out.(type) { case *byte: *t = … } on the `out interface{}` parameter: a match on the cell
func (t *tr) typeSwitch(x *ast.TypeSwitchStmt, rest []ast.Stmt, k konts) []string {
	mark := len(t.env)
	defer func() { t.env = t.env[:mark] }()
	if lines, ok := t.typeSwitch5(x, rest, k); ok { // translate5.go: a switch on an interface{} holding structs of the package
		return lines
	}
	if lines, ok := t.typeSwitch7(x, rest, k); ok { // translate7.go: the sums of the sFlow decoder
		return lines
	}
	if x.Init != nil {
		return []string{t.fail(x, "type switch with init statement")}
	}
	var ta *ast.TypeAssertExpr
	bindName := ""
	switch a := x.Assign.(type) {
	case *ast.AssignStmt:
		if len(a.Lhs) == 1 && len(a.Rhs) == 1 && a.Tok == token.DEFINE {
			if id, ok := a.Lhs[0].(*ast.Ident); ok {
				bindName = id.Name
			}
			ta, _ = a.Rhs[0].(*ast.TypeAssertExpr)
		}
	case *ast.ExprStmt:
		ta, _ = a.X.(*ast.TypeAssertExpr)
	}
	if ta == nil || ta.Type != nil {
		return []string{t.fail(x, "type switch guard")}
	}
	cid, ok := ta.X.(*ast.Ident)
	if !ok || cid.Name != t.cellVar || t.cellVar == "" {
		return []string{t.fail(x, "type switch on something other than the interface{} parameter")}
	}
	cell := leanIdent(cid.Name)

	var out []string
	kk := k
	if len(rest) != 0 {
		asg := assignedNames([]ast.Node{x.Body})
		asg[cid.Name] = true
		var params, args []string
		for _, v := range t.env[:mark] {
			if asg[v.name] {
				params = append(params, "("+leanIdent(v.name)+" : "+leanTy(v.ty)+")")
				args = append(args, leanIdent(v.name))
			}
		}
		t.joins++
		kn := fmt.Sprintf("k_%d", t.joins)
		restLines := t.block(rest, k)
		out = append(out, "let "+kn+" := fun "+strings.Join(params, " ")+" =>")
		out = append(out, indent(restLines, "  ")...)
		kk = konts{fall: []string{kn + " " + strings.Join(args, " ")}, brk: nil, cont: k.cont}
	}
	kk.brk = nil // `break` would leave the switch
	out = append(out, "match "+cell+" with")
	var deflt []ast.Stmt
	hasDefault := false
	seen := map[gty]bool{}
	for _, c := range x.Body.List {
		cc := c.(*ast.CaseClause)
		if cc.List == nil {
			hasDefault = true
			deflt = cc.Body
			continue
		}
		if len(cc.List) != 1 {
			// with several types in one case the binding keeps the interface type
			return append(out, t.fail(cc, "type switch case with several types"))
		}
		st, ok := cc.List[0].(*ast.StarExpr)
		var el gty
		if ok {
			el = goTypeOf(st.X)
		}
		if el != tU8 && el != tU16 && el != tU32 && el != tU64 {
			return append(out, t.fail(cc, "type switch case %s", exprString(cc.List[0])))
		}
		if seen[el] {
			return append(out, t.fail(cc, "duplicate type switch case"))
		}
		seen[el] = true
		out = append(out, fmt.Sprintf("| Go.Cell.u%d _ =>", width(el)))
		inner := len(t.env)
		if bindName != "" && bindName != "_" {
			t.env = append(t.env, varInfo{bindName, gty("ptr:" + string(el))})
			t.ptrOf[bindName] = el
			t.ptrCell[bindName] = cid.Name
		}
		t.depth++
		out = append(out, indent(t.block(cc.Body, kk), "  ")...)
		t.depth--
		t.env = t.env[:inner]
		delete(t.ptrOf, bindName)
		delete(t.ptrCell, bindName)
	}
	_ = hasDefault
	out = append(out, "| _ =>")
	t.depth++
	out = append(out, indent(t.block(deflt, kk), "  ")...)
	t.depth--
	return out
}

// for i := range x { body }: x is evaluated once; the hidden counter cannot be written by the body
func (t *tr) rangeStmt(x *ast.RangeStmt) []string {
	valName := ""
	if x.Value != nil {
		vid, ok := x.Value.(*ast.Ident)
		xid, ok2 := x.X.(*ast.Ident)
		if !ok || !ok2 || x.Tok != token.DEFINE {
			return []string{t.fail(x, "range with a value variable over something that is not a variable")}
		}
		if assignedNames([]ast.Node{x.Body})[xid.Name] {
			return []string{t.fail(x, "the ranged slice is assigned in the loop")}
		}
		valName = vid.Name
	}
	key := ""
	if x.Key != nil {
		id, ok := x.Key.(*ast.Ident)
		if !ok || (x.Tok != token.DEFINE && id.Name != "_") {
			return []string{t.fail(x, "range key")}
		}
		key = id.Name
	}
	t.ranges++
	nName := fmt.Sprintf("rlen_%d", t.ranges)
	cName := fmt.Sprintf("rng_%d", t.ranges)
	var out []string
	t.noEscape++
	lv := t.expr(&ast.CallExpr{Fun: ast.NewIdent("len"), Args: []ast.Expr{x.X}})
	t.noEscape--
	out = append(out, t.flush()...)
	t.gen = true
	out = append(out, t.assignTo(ast.NewIdent(nName), lv, true)...)
	t.gen = true
	out = append(out, t.assignTo(ast.NewIdent(cName), val{code: "0", ty: tUntyped, cst: constant.MakeInt64(0)}, true)...)
	t.gen = false
	body := x.Body.List
	if valName != "" && valName != "_" {
		// the element is read from the slice as it is at this iteration; the body does not assign the slice
		body = append([]ast.Stmt{&ast.AssignStmt{Lhs: []ast.Expr{ast.NewIdent(valName)}, Tok: token.DEFINE,
			Rhs: []ast.Expr{&ast.IndexExpr{X: x.X, Index: ast.NewIdent(cName)}}}}, body...)
	}
	if key != "" && key != "_" {
		body = append([]ast.Stmt{&ast.AssignStmt{Lhs: []ast.Expr{ast.NewIdent(key)}, Tok: token.DEFINE, Rhs: []ast.Expr{ast.NewIdent(cName)}}}, body...)
	}
	fs := &ast.ForStmt{
		For:  x.For,
		Cond: &ast.BinaryExpr{X: ast.NewIdent(cName), Op: token.LSS, Y: ast.NewIdent(nName)},
		Post: &ast.IncDecStmt{X: ast.NewIdent(cName), Tok: token.INC},
		Body: &ast.BlockStmt{List: body},
	}
	fuel := "(" + nName + " + 1)"
	if intMode {
		fuel = "(" + nName + ".toNat + 1)"
	}
	if t.outline || containsReturn(x.Body.List) {
		return append(out, t.forStmtCtl(fs, fuel)...)
	}
	return append(out, t.forStmt(fs, fuel)...)
}

// for init; cond; post { body }: a top-level function recursive on fuel over the variables the loop writes
func (t *tr) forStmt(x *ast.ForStmt, fuel string) []string {
	var out []string
	if x.Init != nil {
		defer t.endForScope5(len(t.env))() // translate5.go: the variable of the init statement ends with the loop
		out = append(out, t.simple(x.Init)...)
	}
	if fuel == "" {
		dataTy, _ := t.lookup("data")
		if dataTy == tBytes && !intMode {
			fuel = "(Go.loopFuel data)"
		} else {
			for _, v := range t.env {
				if v.ty == tBuf {
					fuel = "(Go.loopFuel " + leanIdent(v.name) + ")"
				}
			}
		}
		if fuel == "" {
			return append(out, t.fail(x, "loop in a function without `data []byte` or a buffer (no fuel)"))
		}
	}
	asg := assignedNames([]ast.Node{x.Body, x.Post})
	use := usedNames([]ast.Node{x.Cond, x.Body, x.Post})
	var carried, params []varInfo
	for _, v := range t.env {
		switch {
		case asg[v.name]:
			carried = append(carried, v)
		case use[v.name]:
			params = append(params, v)
		}
	}
	t.loops++
	name := fmt.Sprintf("%s_loop%d", t.fn, t.loops)
	tupTy, tupVal := t.tupleOf(carried)

	var sig, callArgs, pats0, pats1, tys []string
	for _, p := range params {
		sig = append(sig, "("+leanIdent(p.name)+" : "+leanTy(p.ty)+")")
		callArgs = append(callArgs, leanIdent(p.name))
	}
	for _, c := range carried {
		tys = append(tys, leanTy(c.ty))
		pats0 = append(pats0, "_")
		pats1 = append(pats1, leanIdent(c.name))
	}
	recur := name
	if len(callArgs) > 0 {
		recur += " " + strings.Join(callArgs, " ")
	}
	again := recur + " fuel"
	if len(pats1) > 0 {
		again += " " + strings.Join(pats1, " ")
	}

	// the body is translated in a fresh output context with the same variables in scope
	savedPre, savedLoop := t.pre, t.inLoop
	t.pre = nil
	t.inLoop++
	var post []string
	if x.Post != nil {
		post = t.simple(x.Post)
	}
	step := append(append([]string{}, post...), again)
	var cond val
	if x.Cond != nil {
		cond = t.expr(x.Cond)
		if cond.ty != tBool && cond.ty != tBad {
			cond = t.failV(x.Cond, "loop condition of type %s", cond.ty)
		}
	} else {
		cond = val{code: "true", ty: tBool}
	}
	var body []string
	body = append(body, t.flush()...)
	body = append(body, "if "+cond.code+" then")
	body = append(body, indent(t.block(x.Body.List, konts{fall: step, brk: []string{".ok " + tupVal}, cont: step}), "  ")...)
	body = append(body, "else")
	body = append(body, "  .ok "+tupVal)
	t.pre, t.inLoop = savedPre, savedLoop

	var def []string
	head := "def " + name
	if len(sig) > 0 {
		head += " " + strings.Join(sig, " ")
	}
	head += " : Nat → "
	for _, ty := range tys {
		if strings.Contains(ty, " ") {
			ty = "(" + ty + ")"
		}
		head += ty + " → "
	}
	head += "Res (" + tupTy + ")"
	def = append(def, head)
	def = append(def, "  | "+strings.Join(append([]string{"0"}, pats0...), ", ")+" => .error .diverge")
	def = append(def, "  | "+strings.Join(append([]string{"fuel + 1"}, pats1...), ", ")+" =>")
	def = append(def, indent(body, "    ")...)
	t.aux = append(t.aux, strings.Join(def, "\n"))

	// call site
	call := recur + " " + fuel
	if len(pats1) > 0 {
		call += " " + strings.Join(pats1, " ")
	}
	r := t.bind(call)
	out = append(out, t.flush()...)
	for i, c := range carried {
		out = append(out, "let "+leanIdent(c.name)+" : "+leanTy(c.ty)+" := "+r+proj(i, len(carried)))
	}
	return out
}

// ---------------------------------------------------------------------------
// functions
// ---------------------------------------------------------------------------

func (t *tr) function(fd *ast.FuncDecl) string {
	t.fn = fd.Name.Name
	t.env = nil
	t.pre = nil
	t.aux = nil
	t.tmp, t.joins, t.loops, t.inLoop = 0, 0, 0, 0
	t.retTys, t.retVars = nil, nil
	t.cellVar, t.msgVar = "", ""
	t.bindID, t.nextID, t.sliceEv, t.depth, t.bindLoop = map[string]int{}, 0, nil, 0, map[int]int{}
	t.ptrOf, t.ptrCell = map[string]gty{}, map[string]string{}
	t.noEscape, t.ranges, t.gen = 0, 0, false
	t.refParams, t.fieldStores, t.ctlLoop, t.refOrder = map[string]bool{}, false, false, nil
	t.caseBlocks, t.caseNames, t.curResTy = map[*ast.BlockStmt]string{}, map[string]int{}, ""
	t.stVars = nil
	t.errVal5 = false

	var params []string
	var sig fnSig
	if fd.Recv != nil {
		if len(fd.Recv.List) != 1 || len(fd.Recv.List[0].Names) != 1 || exprString(fd.Recv.List[0].Type) != "*BaseParserEnvironment" {
			t.fail(fd, "receiver")
		} else {
			t.env = append(t.env, varInfo{fd.Recv.List[0].Names[0].Name, tEnv})
		}
	}
	for _, p := range fd.Type.Params.List {
		ty := goTypeOf(p.Type)
		isRef := false
		isStructPtr := false
		if st, ok := p.Type.(*ast.StarExpr); ok && ty == tBad {
			// p *[]byte, q *uint32: the variable holds the pointee, the function returns the pointees
			if pt := goTypeOf(st.X); pt == tBytes || isUnsigned(pt) {
				ty, isRef = pt, true
			} else if isStruct(pt) {
				ty = pt // p *T: the variable holds the struct, selectors go through the pointer by themselves
				isStructPtr = true
			}
		}
		if ty == tBad {
			t.fail(p, "parameter type %s", exprString(p.Type))
		}
		for _, nm := range p.Names {
			if isRef {
				t.refParams[nm.Name] = true
				t.refOrder = append(t.refOrder, nm.Name)
				sig.refs = append(sig.refs, len(sig.params))
			}
			if ty == tBuf || isStructPtr || ty == tTS {
				t.stVars = append(t.stVars, nm.Name)
				sig.refs = append(sig.refs, len(sig.params))
			}
			t.declare(nm, nm.Name, ty)
			params = append(params, "("+leanIdent(nm.Name)+" : "+leanTy(ty)+")")
			sig.params = append(sig.params, ty)
			switch ty {
			case tCell:
				if t.cellVar != "" {
					t.fail(nm, "more than one interface{} parameter")
				}
				t.cellVar = nm.Name
			case tMsg:
				t.msgVar = nm.Name
			}
		}
	}
	var prologue []string
	named := false
	if fd.Type.Results != nil {
		for _, r := range fd.Type.Results.List {
			ty := goTypeOf(r.Type)
			if ty == tBad {
				t.fail(r, "result type %s", exprString(r.Type))
			}
			if len(r.Names) == 0 {
				t.retTys = append(t.retTys, ty)
			}
			for _, nm := range r.Names {
				named = true
				z, ok := zeroOf(ty)
				if !ok {
					t.fail(nm, "named result of type %s", ty)
				}
				t.declare(nm, nm.Name, ty)
				t.retTys = append(t.retTys, ty)
				t.retVars = append(t.retVars, nm.Name)
				prologue = append(prologue, "let "+leanIdent(nm.Name)+" : "+leanTy(ty)+" := "+z)
			}
		}
	}
	sig.results = t.retTys
	var resTy string
	msgTy, _ := t.lookup("flowMessage")
	fall := konts{}
	if len(t.retTys) == 2 && t.retTys[0] == tRes && t.retTys[1] == tError && msgTy == tMsg && named {
		t.retKind = "parser"
		resTy = "Res PRes"
	} else if len(t.stVars) > 0 && len(t.retTys) >= 1 && t.retTys[len(t.retTys)-1] == tError && (!named || stvMode5) && t.msgVar == "" && t.cellVar == "" && len(t.refOrder) == 0 {
		// state-passing: the buffer and the structs behind pointers come back in front of the results
		t.retKind = "st"
		var tys []string
		for _, sv := range t.stVars {
			st, _ := t.lookup(sv)
			tys = append(tys, leanTy(st))
		}
		for _, rt := range t.retTys[:len(t.retTys)-1] {
			tys = append(tys, leanTy(rt))
		}
		if stvMode5 { // translate5.go: the error is the last component of the result
			tys = append(tys, "Go.Error")
			t.errVal5, sig.errVal = true, true
		}
		resTy = "Res (" + strings.Join(tys, " × ") + ")"
	} else if t.cellVar != "" && len(t.retTys) == 1 && t.retTys[0] == tError && !named {
		// the cell the `out interface{}` parameter points to travels with the result
		t.retKind = "cell"
		resTy = "Res Go.Cell"
	} else if t.msgVar != "" && len(t.retTys) == 0 {
		// a procedure on the message: the message is the result
		t.retKind = "msg"
		resTy = "Res FlowMsg"
		fall.fall = []string{".ok " + leanIdent(t.msgVar)}
	} else if t.msgVar != "" && len(t.retTys) == 1 && t.retTys[0] == tError && !named && t.cellVar == "" {
		// func(msg, …) error: the message, or the error
		t.retKind = "msgerr"
		resTy = "Res FlowMsg"
	} else if len(t.refOrder) > 0 && len(t.retTys) == 0 && t.msgVar == "" && t.cellVar == "" {
		// a procedure writing through its pointer parameters: the pointees are the result
		t.retKind = "ptrs"
		var tys []string
		for _, r := range t.refOrder {
			rt, _ := t.lookup(r)
			tys = append(tys, leanTy(rt))
		}
		resTy = "Res (" + strings.Join(tys, " × ") + ")"
		fall.fall = t.ptrsResult()
	} else {
		t.retKind = "tuple"
		var tys []string
		for _, ty := range t.retTys {
			tys = append(tys, leanTy(ty))
		}
		resTy = "Res (" + strings.Join(tys, " × ") + ")"
		if len(tys) == 0 {
			t.fail(fd, "function without results")
		}
		if t.cellVar != "" {
			t.fail(fd, "interface{} parameter in a function that does not return exactly `error`")
		}
		if len(t.refOrder) > 0 {
			t.fail(fd, "pointer parameters in a function with results")
		}
	}
	sig.kind = t.retKind
	t.curResTy = resTy
	pointerVars = map[string]bool{}
	if t.msgVar != "" {
		pointerVars[t.msgVar] = true
	}
	if t.cellVar != "" {
		pointerVars[t.cellVar] = true
	}
	for _, sv := range t.stVars {
		pointerVars[sv] = true
	}
	body := append(prologue, t.block(fd.Body.List, fall)...)
	translatedSigs[fd.Name.Name] = sig

	var b strings.Builder
	for _, a := range t.aux {
		b.WriteString(a)
		b.WriteString("\n\n")
	}
	fmt.Fprintf(&b, "def %s %s : %s :=\n", leanIdent(fd.Name.Name), strings.Join(params, " "), resTy)
	for _, l := range indent(body, "  ") {
		b.WriteString(l)
		b.WriteString("\n")
	}
	if !t.checkSlices() {
		fmt.Fprintf(&b, "\ndef %s_aliasing := extract_problem_untranslated\n", leanIdent(fd.Name.Name))
	}
	return b.String()
}

// mentions: does the Lean text use the identifier (as a whole word, not as a field name)?
func mentions(text, id string) bool {
	isIdent := func(c byte) bool {
		return c == '_' || c == '\'' || c >= '0' && c <= '9' || c >= 'a' && c <= 'z' || c >= 'A' && c <= 'Z' || c >= 0x80
	}
	for i := 0; i+len(id) <= len(text); i++ {
		if text[i:i+len(id)] != id {
			continue
		}
		if i > 0 && (isIdent(text[i-1]) || text[i-1] == '.') {
			continue
		}
		if j := i + len(id); j < len(text) && isIdent(text[j]) {
			continue
		}
		return true
	}
	return false
}

// outlineDef: the lines become the body of a top-level definition over every variable in scope
func (t *tr) outlineDef(name string, envLen int, lines []string) []string {
	if t.curResTy == "" {
		return lines
	}
	var params, args []string
	text := strings.Join(lines, "\n")
	for _, v := range t.env[:envLen] {
		if !mentions(text, leanIdent(v.name)) {
			continue
		}
		if isPtr(v.ty) || t.refParams[v.name] || v.ty == tEnv || v.ty == tBad {
			return lines
		}
		params = append(params, "("+leanIdent(v.name)+" : "+leanTy(v.ty)+")")
		args = append(args, leanIdent(v.name))
	}
	t.caseNames[name]++
	if n := t.caseNames[name]; n > 1 {
		name = fmt.Sprintf("%s_%d", name, n)
	}
	full := t.fn + "_" + name
	def := []string{"def " + full + " " + strings.Join(params, " ") + " : " + t.curResTy + " :="}
	def = append(def, indent(lines, "  ")...)
	t.aux = append(t.aux, strings.Join(def, "\n"))
	return []string{full + " " + strings.Join(args, " ")}
}

func (t *tr) ptrsResult() []string {
	var vs []string
	for _, r := range t.refOrder {
		vs = append(vs, leanIdent(r))
	}
	return []string{".ok (" + strings.Join(vs, ", ") + ")"}
}

// the functions to translate, dispatchers first (a method may call an earlier one)
var translateOrder = []string{
	"innerNextParserEtype", "NextParserEtype", "innerNextParserProto", "NextParserProto",
}

func genTranslate() {
	fset, f := parseFile("producer/proto/producer_packet.go")
	if f == nil {
		return
	}
	t := &tr{fset: fset, globals: map[string]gty{}, msgKind: map[string]string{}}
	for _, c := range flowCols {
		t.msgKind[c.goName] = c.kind
	}
	if len(t.msgKind) == 0 {
		problem("translate: FlowMessage columns not available")
	}

	var b strings.Builder
	b.WriteString("/- GENERATED by /verif/extract (translate.go) from producer/proto/producer_packet.go — do not edit.\n")
	b.WriteString("   A syntax-directed translation of the layer parsers and of the ethertype / protocol dispatchers\n")
	b.WriteString("   into the primitives of Goflow/Producer/GoPrims.lean. Proofs/C10Trans.lean proves each definition\n")
	b.WriteString("   equal to the hand-written model of Goflow/Producer/Packet.lean. -/\n")
	b.WriteString("import Goflow.Producer.GoPrims\nset_option linter.unusedVariables false\nnamespace Goflow.Generated.T\nopen Goflow Goflow.Producer\n\n")

	// ParserInfo literals: Name and ConfigKeyList
	t.fn = "ParserInfo literals"
	for _, d := range f.Decls {
		gd, ok := d.(*ast.GenDecl)
		if !ok || gd.Tok != token.VAR {
			continue
		}
		for _, s := range gd.Specs {
			vs := s.(*ast.ValueSpec)
			for i, nm := range vs.Names {
				if i >= len(vs.Values) {
					continue
				}
				cl, ok := vs.Values[i].(*ast.CompositeLit)
				if !ok || exprString(cl.Type) != "ParserInfo" {
					continue
				}
				var nameE, keysE ast.Expr
				if len(cl.Elts) == 6 {
					nameE, keysE = cl.Elts[1], cl.Elts[2]
				}
				for _, e := range cl.Elts {
					if kv, ok := e.(*ast.KeyValueExpr); ok {
						switch exprString(kv.Key) {
						case "Name":
							nameE = kv.Value
						case "ConfigKeyList":
							keysE = kv.Value
						}
					}
				}
				if nameE == nil || keysE == nil {
					t.fail(cl, "ParserInfo literal %s: shape", nm.Name)
					continue
				}
				name := t.as(nameE, t.expr(nameE), tString)
				keys := "([] : List String)"
				if exprString(keysE) != "nil" {
					keys = t.as(keysE, t.expr(keysE), tLString)
				}
				if len(t.pre) != 0 {
					t.fail(cl, "ParserInfo literal %s: partial expression", nm.Name)
					t.pre = nil
				}
				t.globals[nm.Name] = tPInfo
				fmt.Fprintf(&b, "def %s : Next := Go.parserInfo %s %s\n", leanIdent(nm.Name), name, keys)
			}
		}
	}
	b.WriteString("\n")

	done := map[string]bool{}
	emit := func(fd *ast.FuncDecl) {
		if done[fd.Name.Name] {
			return
		}
		done[fd.Name.Name] = true
		b.WriteString(t.function(fd))
		b.WriteString("\n")
	}
	for _, name := range translateOrder {
		fd := findFunc(f, name)
		if fd == nil {
			problem("translate: %s not found", name)
			fmt.Fprintf(&b, "def %s := extract_problem_missing_function\n\n", name)
			continue
		}
		emit(fd)
	}
	n := 0
	for _, d := range f.Decls {
		fd, ok := d.(*ast.FuncDecl)
		if !ok || fd.Body == nil || fd.Recv != nil || !strings.HasPrefix(fd.Name.Name, "Parse") || fd.Name.Name == "ParsePacket" {
			continue
		}
		emit(fd)
		n++
	}
	if n == 0 {
		problem("translate: no Parse* function found")
	}
	b.WriteString("end Goflow.Generated.T\n")
	writeIfChanged("ParsersT.lean", b.String())
}

// ---------------------------------------------------------------------------
// NumbersT.lean: number decoding, bit ranges, NetFlow v5 conversion, template keys
// ---------------------------------------------------------------------------

type numbersUnit struct {
	rel     string
	fn      string
	intMode bool // Go int as Lean Int (signed) instead of Nat
}

var numbersUnits = []numbersUnit{
	{"producer/proto/producer_nf.go", "WriteUDecoded", false},
	{"producer/proto/producer_nf.go", "DecodeUNumber", false},
	{"producer/proto/producer_nf.go", "DecodeUNumberLE", false},
	{"producer/proto/reflect.go", "GetBytes", true},
	{"producer/proto/producer_nflegacy.go", "ConvertNetFlowLegacyRecord", false},
	{"decoders/netflow/templates.go", "templateKey", false},
}

// a struct of another package, with its named field types resolved inside that package's file
func translateStruct(rel, pkg, name string, b *strings.Builder) {
	_, f := parseFile(rel)
	if f == nil {
		return
	}
	local := map[string]gty{}
	var st *ast.StructType
	for _, d := range f.Decls {
		gd, ok := d.(*ast.GenDecl)
		if !ok || gd.Tok != token.TYPE {
			continue
		}
		for _, s := range gd.Specs {
			ts := s.(*ast.TypeSpec)
			if x, ok := ts.Type.(*ast.StructType); ok && ts.Name.Name == name {
				st = x
			}
			if id, ok := ts.Type.(*ast.Ident); ok {
				if ty := goTypeOf(id); isUnsigned(ty) {
					local[ts.Name.Name] = ty // e.g. `type IPAddress uint32`: conversions to the underlying type are the identity
				}
			}
		}
	}
	if st == nil {
		problem("translate: struct %s not found in %s", name, rel)
		fmt.Fprintf(b, "def %s := extract_problem_missing_struct\n\n", name)
		return
	}
	ty := gty("struct:" + name)
	var fields []fieldInfo
	fmt.Fprintf(b, "/-- %s.%s (%s) -/\nstructure %s where\n", pkg, name, rel, name)
	for _, fl := range st.Fields.List {
		fty := goTypeOf(fl.Type)
		if id, ok := fl.Type.(*ast.Ident); ok && fty == tBad {
			fty = local[id.Name]
		}
		if !isUnsigned(fty) && fty != tBool && fty != tCell {
			problem("translate: struct %s: field type %s", name, exprString(fl.Type))
			fmt.Fprintf(b, "  extract_problem_field : extract_problem_untranslated\n")
			continue
		}
		if fty == tCell {
			fty = tAny // an interface{} field holds a value, not a destination
		}
		for _, nm := range fl.Names {
			fields = append(fields, fieldInfo{nm.Name, fty})
			fmt.Fprintf(b, "  %s : %s\n", leanIdent(nm.Name), leanTy(fty))
		}
	}
	b.WriteString("\n")
	structFields[ty] = fields
	namedTypes[pkg+"."+name] = ty
}

func genTranslateNumbers() {
	var b strings.Builder
	b.WriteString("/- GENERATED by /verif/extract (translate.go) — do not edit.\n")
	b.WriteString("   Syntax-directed translations of WriteUDecoded / DecodeUNumber / DecodeUNumberLE (producer_nf.go),\n")
	b.WriteString("   GetBytes (reflect.go, Go `int` as Lean `Int`), ConvertNetFlowLegacyRecord (producer_nflegacy.go) and\n")
	b.WriteString("   templateKey (decoders/netflow/templates.go) into the primitives of Goflow/Producer/GoPrims.lean.\n")
	b.WriteString("   Proofs/C08Trans.lean proves each definition equal to the hand-written model. -/\n")
	b.WriteString("import Goflow.Producer.GoPrims\nset_option linter.unusedVariables false\nnamespace Goflow.Generated.TN\nopen Goflow Goflow.Producer\n\n")

	translateStruct("decoders/netflowlegacy/packet.go", "netflowlegacy", "RecordsNetFlowV5", &b)

	// the FlowMessage_FlowType constants (an int32 enum in Go; the message model keeps the column as u32)
	flowTypes := map[string]string{}
	if _, pf := parseFile("pb/flow.pb.go"); pf != nil {
		for _, d := range pf.Decls {
			gd, ok := d.(*ast.GenDecl)
			if !ok || gd.Tok != token.CONST {
				continue
			}
			for _, s := range gd.Specs {
				vs := s.(*ast.ValueSpec)
				if vs.Type == nil || exprString(vs.Type) != "FlowMessage_FlowType" || len(vs.Names) != 1 || len(vs.Values) != 1 {
					continue
				}
				if bl, ok := vs.Values[0].(*ast.BasicLit); ok && bl.Kind == token.INT {
					flowTypes[vs.Names[0].Name] = bl.Value
				}
			}
		}
	}

	defer func() { intMode = false }()
	for _, u := range numbersUnits {
		fset, f := parseFile(u.rel)
		if f == nil {
			fmt.Fprintf(&b, "def %s := extract_problem_missing_file\n\n", u.fn)
			continue
		}
		t := &tr{fset: fset, globals: map[string]gty{}, msgKind: map[string]string{}, imports: map[string]string{}, consts: map[string]val{}}
		for _, c := range flowCols {
			t.msgKind[c.goName] = c.kind
		}
		for _, im := range f.Imports {
			path, _ := strconv.Unquote(im.Path.Value)
			alias := path[strings.LastIndex(path, "/")+1:]
			if im.Name != nil {
				alias = im.Name.Name
			}
			t.imports[alias] = path
			if strings.HasSuffix(path, "/goflow2/v2/pb") {
				for name, lit := range flowTypes {
					c := constant.MakeFromLiteral(lit, token.INT, 0)
					if constFits(c, tU32) {
						t.consts[alias+"."+name] = val{code: "(" + c.ExactString() + " : UInt32)", ty: tU32}
					}
				}
			}
		}
		var fd *ast.FuncDecl
		for _, d := range f.Decls {
			if x, ok := d.(*ast.FuncDecl); ok && x.Name.Name == u.fn && x.Recv == nil && x.Body != nil {
				fd = x
			}
		}
		if fd == nil {
			problem("translate: %s not found in %s", u.fn, u.rel)
			fmt.Fprintf(&b, "def %s := extract_problem_missing_function\n\n", u.fn)
			continue
		}
		intMode = u.intMode
		fmt.Fprintf(&b, "/-! %s: %s -/\n", u.rel, u.fn)
		b.WriteString(t.function(fd))
		b.WriteString("\n")
		intMode = false
	}
	b.WriteString("end Goflow.Generated.TN\n")
	writeIfChanged("NumbersT.lean", b.String())
}
